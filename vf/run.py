"""CLI:  python -m vf.run C07 [--tier quick|thorough] [--replay f.json] [--facet name ...]"""

import argparse
import os
import sys


def main():
    ap = argparse.ArgumentParser()
    ap.add_argument("prop")
    ap.add_argument("--tier", default=os.environ.get("VERIF_TIER", "quick"))
    ap.add_argument("--replay")
    ap.add_argument("--facet", action="append")
    ap.add_argument("--jobs", type=int, default=int(os.environ.get("VERIF_JOBS", "16")))
    ap.add_argument("--scale", type=float, default=1.0)
    a = ap.parse_args()
    os.environ.setdefault("PYTHONHASHSEED", "0")
    try:
        seed = int(os.environ.get("VERIF_SEED", "1") or "1")
    except ValueError:
        seed = 1
    from . import core

    try:
        if a.replay:
            rc = core.replay(a.prop.upper(), a.replay)
        else:
            tier = "thorough" if a.tier == "thorough" else "quick"
            rc = core.run_property(a.prop.upper(), tier, seed, a.facet, a.jobs, a.scale)
    except Exception:
        import traceback

        traceback.print_exc()
        rc = 2
    sys.exit(rc)


if __name__ == "__main__":
    main()
