"""Facet registry, shard pool, seeds, evidence writer, exit protocol.

A *facet* is (strategy -> JSON-able case, check(case), rule for non-trivial).  A run of a
property = every facet x its shards, each shard a fresh interpreter (spawn pool,
maxtasksperchild=1) because beyond keeps process-global registries and memoised EOP.

Exit protocol:  0 held / 1 at least one "VIOLATION property=<id> replay=<path>" / 2 harness error.
"""

import hashlib
import importlib
import json
import os
import sys
import time
import traceback
from collections import Counter

HERE = os.path.dirname(os.path.dirname(os.path.abspath(__file__)))


class Violation(Exception):
    """Raised by a check's oracle.  ``kind`` is a short stable bucket name (root-cause key)."""

    def __init__(self, kind, msg="", **data):
        super().__init__(f"{kind}: {msg}")
        self.kind = kind
        self.msg = msg
        self.data = data


class CaseTimeout(BaseException):
    """A single case exceeded its watchdog: the run is inconclusive (exit 2), never a violation."""


def _alarm(signum, frame):
    raise CaseTimeout()


class Facet:
    def __init__(
        self,
        name,
        strategy=None,
        check=None,
        rule="",
        quick=(8, 100),
        thorough=(16, 1000),
        setup=None,
        runner=None,
        shrink_quick=True,
        expected_exceptions=(),
        case_timeout=120,
    ):
        """quick / thorough = (shards, examples per shard).

        strategy: callable(shard, tier) -> hypothesis strategy of JSON-able cases
        check:    callable(case) -> None | dict(nt=bool, cls=[labels])   (raises Violation)
        setup:    callable(shard) run once in the worker before anything else (EOP config ...)
        runner:   callable(shard, nshards, tier, stats) for enumerated facets (no hypothesis)
        """
        self.name = name
        self.strategy = strategy
        self.check = check
        self.rule = rule
        self.quick = quick
        self.thorough = thorough
        self.setup = setup
        self.runner = runner
        self.shrink_quick = shrink_quick
        self.expected_exceptions = expected_exceptions
        self.case_timeout = case_timeout

    def budget(self, tier):
        return self.thorough if tier == "thorough" else self.quick


def canon(case):
    return json.dumps(case, sort_keys=True, separators=(",", ":"), default=_jd)


def _jd(o):
    import numpy as np

    if isinstance(o, np.ndarray):
        return o.tolist()
    if isinstance(o, (np.floating,)):
        return float(o)
    if isinstance(o, (np.integer,)):
        return int(o)
    if isinstance(o, (set, frozenset)):
        return sorted(o)
    if isinstance(o, bytes):
        return o.decode("latin-1")
    return repr(o)


def case_hash(case):
    return hashlib.sha1(canon(case).encode()).hexdigest()[:14]


def shard_seed(seed, prop, facet, shard):
    h = hashlib.sha256(f"{seed}/{prop}/{facet}/{shard}".encode()).hexdigest()
    return int(h[:8], 16)


class Stats:
    """Per-shard statistics sent back to the parent."""

    def __init__(self):
        self.evaluations = 0
        self.nt_hashes = set()
        self.classes = Counter()
        self.samples = []
        self.known = Counter()
        self.known_example = {}
        self.discarded = 0
        self.exhaustive = None
        self.extra = {}

    def record(self, case, res, sample_every=1):
        self.evaluations += 1
        nt = True
        if isinstance(res, dict):
            nt = res.get("nt", True)
            for c in res.get("cls", ()):
                self.classes[c] += 1
            for k, v in (res.get("known") or {}).items():
                self.known[k] += v["n"]
                self.known_example.setdefault(k, v["example"])
            if "ratio" in res:
                self.extra["max_ratio"] = max(self.extra.get("max_ratio", 0.0), float(res["ratio"]))
        if nt:
            self.nt_hashes.add(case_hash(case))
        n = self.evaluations
        # deterministic thinning: keep 1st, then every power of two
        if n & (n - 1) == 0 and len(self.samples) < 12:
            self.samples.append(case)

    def as_dict(self):
        return dict(
            evaluations=self.evaluations,
            nt_hashes=sorted(self.nt_hashes),
            classes=dict(self.classes),
            samples=self.samples[-4:] if len(self.samples) > 4 else self.samples,
            known=dict(self.known),
            known_example=self.known_example,
            discarded=self.discarded,
            exhaustive=self.exhaustive,
            extra=self.extra,
        )


def library_frame(tb):
    """Innermost traceback frame that lies in the beyond package -> 'file:func' or None."""
    found = None
    for fs in traceback.extract_tb(tb):
        fn = fs.filename.replace("\\", "/")
        if "/beyond/" in fn and "/vf/" not in fn:
            found = f"{fn.split('/beyond/', 1)[1]}:{fs.name}"
    return found


def _worker(args):
    """Runs one shard in a fresh process.  Returns a plain dict."""
    prop, facet_name, shard, nshards, tier, seed, examples = args
    t0 = time.time()
    out = dict(prop=prop, facet=facet_name, shard=shard, failure=None, error=None)
    cov = _coverage_start(prop, facet_name, shard)
    try:
        return _worker_body(args, out, t0)
    finally:
        if cov is not None:
            cov.stop()
            cov.save()


def _coverage_start(prop, facet_name, shard):
    """Diagnostic only (tools/coverage_audit.py): VERIF_COVERAGE=<dir> records which lines of the library a
    check executes, one data file per shard.  Never set by the registered commands."""
    d = os.environ.get("VERIF_COVERAGE")
    if not d:
        return None
    import coverage

    repo = os.environ.get("VERIF_REPO", "/repo")
    cov = coverage.Coverage(
        data_file=os.path.join(d, f"cov.{prop}.{facet_name}.{shard}.{os.getpid()}"),
        include=[os.path.join(repo, "beyond", "*")], branch=True,
    )
    cov.start()
    return cov


def _worker_body(args, out, t0):
    prop, facet_name, shard, nshards, tier, seed, examples = args
    if isinstance(examples, str):  # a saved regression case: replayed, bypassing Hypothesis
        return _regress_worker(prop, examples, out, t0)
    try:
        from . import env

        env.bootstrap()
        if shard % 3 == 2:
            # one shard in three runs with the library's loggers at DEBUG (records discarded): an application that
            # switches debug logging on must get the same numbers
            import logging

            lg = logging.getLogger("beyond")
            lg.setLevel(logging.DEBUG)
            if not lg.handlers:
                lg.addHandler(logging.NullHandler())
        mod = importlib.import_module(f"vf.props.{prop.lower()}")
        facet = {f.name: f for f in mod.FACETS}[facet_name]
        if facet.setup:
            facet.setup(shard)
        from . import findings

        import signal

        signal.signal(signal.SIGALRM, _alarm)
        stats = Stats()
        if facet.runner is not None:
            failure = _run_enumerated(prop, facet, shard, nshards, tier, stats, findings)
        else:
            failure = _run_hypothesis(
                prop, facet, shard, tier, seed, examples, stats, findings
            )
        out["stats"] = stats.as_dict()
        out["failure"] = failure
    except CaseTimeout:
        out["error"] = (f"INCONCLUSIVE: a case of {prop}/{facet_name} shard {shard} ran longer than its "
                        f"watchdog; the library call did not return")
    except BaseException as e:  # harness error
        out["error"] = "".join(traceback.format_exception(type(e), e, e.__traceback__))[
            -4000:
        ]
    out["wall"] = time.time() - t0
    return out


def _regress_worker(prop, path, out, t0):
    """Replays one saved case (regress/<ID>/*.json: shrunk inputs of defects since repaired)."""
    try:
        from . import env

        env.bootstrap()
        with open(path) as fh:
            rec = json.load(fh)
        mod = importlib.import_module(f"vf.props.{prop.lower()}")
        facet = {f.name: f for f in mod.FACETS}.get(rec["facet"])
        out["facet"] = "regress:" + rec["facet"]
        stats = Stats()
        if facet is None:  # facet renamed since the case was saved: nothing to replay
            out["stats"] = stats.as_dict()
            out["wall"] = time.time() - t0
            return out
        if facet.setup:
            facet.setup(rec.get("shard", 0))
        from . import findings
        import signal

        signal.signal(signal.SIGALRM, _alarm)
        failure = None
        try:
            signal.alarm(facet.case_timeout)
            try:
                res = facet.check(rec["case"])
            finally:
                signal.alarm(0)
            stats.record(rec["case"], res)
        except Exception as exc:
            f = _classify(prop, facet, rec["case"], exc, findings, stats)
            if f == "harness":
                # a saved case whose format no longer matches the generator is skipped, not an error
                stats.extra["regress_skipped"] = 1
            elif f is not None:
                failure = f
        out["stats"] = stats.as_dict()
        out["failure"] = failure
    except CaseTimeout:
        out["error"] = f"INCONCLUSIVE: regression case {path} ran longer than its watchdog"
    except BaseException as e:
        out["error"] = "".join(traceback.format_exception(type(e), e, e.__traceback__))[-3000:]
    out["wall"] = time.time() - t0
    return out


def _classify(prop, facet, case, exc, findings, stats):
    """Violation -> either known finding (returns None = swallow) or failure dict."""
    if isinstance(exc, Violation):
        kind, msg, data = exc.kind, exc.msg, exc.data
    else:
        frame = library_frame(exc.__traceback__)
        if frame is None:
            return "harness"
        kind = f"exception:{type(exc).__name__}@{frame}"
        msg = str(exc)[:300]
        data = {}
    key = findings.match(prop, facet.name, case, kind, msg, data)
    if key:
        stats.known[key] += 1
        stats.known_example.setdefault(key, dict(case=case, kind=kind, msg=msg))
        return None
    return dict(kind=kind, msg=msg, data=data, case=case)


def _run_hypothesis(prop, facet, shard, tier, seed, examples, stats, findings):
    import hypothesis
    from hypothesis import HealthCheck, Phase, given, settings
    from hypothesis.errors import UnsatisfiedAssumption

    phases = [Phase.generate, Phase.shrink]
    if tier != "thorough" and not facet.shrink_quick:
        phases = [Phase.generate]
    holder = {}

    @hypothesis.seed(shard_seed(seed, prop, facet.name, shard))
    @settings(
        max_examples=examples,
        database=None,
        deadline=None,
        derandomize=False,
        report_multiple_bugs=False,
        phases=phases,
        print_blob=False,
        suppress_health_check=[HealthCheck.too_slow, HealthCheck.data_too_large],
    )
    @given(facet.strategy(shard, tier))
    def test(case):
        import signal

        try:
            signal.alarm(facet.case_timeout)
            try:
                res = facet.check(case)
            finally:
                signal.alarm(0)
        except UnsatisfiedAssumption:
            stats.discarded += 1
            raise
        except Exception as exc:
            f = _classify(prop, facet, case, exc, findings, stats)
            if f is None:
                return
            if f == "harness":
                raise
            holder["f"] = f
            raise Violation(f["kind"], f["msg"]) from None
        stats.record(case, res)

    try:
        test()
    except Violation:
        return holder["f"]
    return None


def _run_enumerated(prop, facet, shard, nshards, tier, stats, findings):
    """facet.runner yields cases; check is applied to each; first unknown failure stops."""
    import signal

    for case in facet.runner(shard, nshards, tier, stats):
        try:
            signal.alarm(facet.case_timeout)
            try:
                res = facet.check(case)
            finally:
                signal.alarm(0)
        except Exception as exc:
            f = _classify(prop, facet, case, exc, findings, stats)
            if f is None:
                continue
            if f == "harness":
                raise
            return f
        stats.record(case, res)
    return None


def replay(prop, path):
    """Re-execute a saved failing case, bypassing hypothesis."""
    from . import env

    env.bootstrap()
    with open(path) as fh:
        rec = json.load(fh)
    mod = importlib.import_module(f"vf.props.{prop.lower()}")
    facet = {f.name: f for f in mod.FACETS}[rec["facet"]]
    if facet.setup:
        facet.setup(rec.get("shard", 0))
    from . import findings

    stats = Stats()
    try:
        facet.check(rec["case"])
    except Exception as exc:
        f = _classify(prop, facet, rec["case"], exc, findings, stats)
        if f is None:
            print(f"KNOWN-FINDING: property={prop} (replayed case matches a listed finding)")
            return 0
        if f == "harness":
            traceback.print_exc()
            return 2
        print(f"  {f['kind']}: {f['msg']}")
        print(f"VIOLATION property={prop} replay={path}")
        return 1
    print(f"replay of {path}: property held")
    return 0


def run_property(prop, tier, seed, only_facets=None, jobs=16, scale=1.0):
    import multiprocessing as mp

    t0 = time.time()
    os.environ.setdefault("PYTHONHASHSEED", "0")
    from . import env

    env.bootstrap()
    mod = importlib.import_module(f"vf.props.{prop.lower()}")
    tasks = []
    for f in mod.FACETS:
        if only_facets and f.name not in only_facets:
            continue
        shards, examples = f.budget(tier)
        examples = max(1, int(examples * scale))
        for k in range(shards):
            tasks.append((prop, f.name, k, shards, tier, seed, examples))
    if not only_facets:
        import glob

        for k, path in enumerate(sorted(glob.glob(os.path.join(HERE, "regress", prop, "*.json")))):
            tasks.insert(0, (prop, "regress", k, 1, tier, seed, path))
    # longest facets first is unknown; interleave facets so slow ones start early
    ctx = mp.get_context("spawn")
    results = []
    with ctx.Pool(min(jobs, len(tasks)), maxtasksperchild=1) as pool:
        for r in pool.imap_unordered(_worker, tasks, chunksize=1):
            results.append(r)
    results.sort(key=lambda r: (r["facet"], r["shard"]))
    return finish(prop, mod, tier, seed, results, time.time() - t0, only_facets)


def finish(prop, mod, tier, seed, results, wall, only_facets):
    from . import findings

    errors = [r for r in results if r["error"]]
    failures = [r for r in results if r["failure"]]
    per_facet = {}
    nt_all = set()
    evaluations = 0
    known = Counter()
    known_example = {}
    samples = []
    exhaustive = []
    for r in results:
        if r["error"]:
            continue
        s = r["stats"]
        pf = per_facet.setdefault(
            r["facet"],
            dict(evaluations=0, distinct_nontrivial=set(), classes=Counter(), discarded=0,
                 shards=0, wall_s=0.0, extra={}),
        )
        pf["evaluations"] += s["evaluations"]
        pf["distinct_nontrivial"].update(s["nt_hashes"])
        pf["classes"].update(s["classes"])
        pf["discarded"] += s["discarded"]
        pf["shards"] += 1
        pf["wall_s"] = round(pf["wall_s"] + r["wall"], 2)
        for k, v in (s.get("extra") or {}).items():
            if k.startswith("max_"):
                pf["extra"][k] = max(pf["extra"].get(k, 0), v)
            elif isinstance(v, (int, float)):
                pf["extra"][k] = pf["extra"].get(k, 0) + v
            else:
                pf["extra"][k] = v
        evaluations += s["evaluations"]
        nt_all.update(f"{r['facet']}:{h}" for h in s["nt_hashes"])
        known.update(s["known"])
        for k, v in s["known_example"].items():
            known_example.setdefault(k, v)
        if r["shard"] == 0:
            for c in s["samples"][:2]:
                samples.append(dict(facet=r["facet"], case=c))
        if s["exhaustive"]:
            exhaustive.append(r["facet"])
    facets = {f.name: f for f in mod.FACETS}
    for name, pf in per_facet.items():
        pf["distinct_nontrivial"] = len(pf["distinct_nontrivial"])
        pf["classes"] = dict(pf["classes"])
        pf["rule"] = facets[name].rule if name in facets else "saved shrunk inputs of defects since repaired (regress/), replayed without Hypothesis"

    rc = 0
    lines = []
    viol_paths = []
    seen_kinds = set()
    for r in failures:
        f = r["failure"]
        bucket = (r["facet"], f["kind"])
        if bucket in seen_kinds:
            continue
        seen_kinds.add(bucket)
        d = os.path.join(os.environ.get("VERIF_REPLAY_DIR", os.path.join(HERE, "replays")), prop)
        os.makedirs(d, exist_ok=True)
        h = case_hash(f["case"])
        path = os.path.join(d, f"{r['facet']}-{h}.json")
        with open(path, "w") as fh:
            json.dump(
                dict(property=prop, facet=r["facet"], shard=r["shard"], kind=f["kind"],
                     msg=f["msg"], data=f["data"], case=f["case"]),
                fh, indent=1, default=_jd, sort_keys=True,
            )
        lines.append(f"  [{r['facet']}] {f['kind']}: {f['msg']}")
        lines.append(f"VIOLATION property={prop} replay={os.path.relpath(path, HERE)}")
        viol_paths.append(path)
        rc = 1
    # one line per LISTED finding of this property (also when this run generated no matching case)
    for key in sorted(set(known) | set(findings.active_keys(prop))):
        desc = findings.describe(key)
        lines.append(f"KNOWN-FINDING: property={prop} {key}: {desc} [{known.get(key, 0)} generated cases excluded]")
    if errors:
        for r in errors[:3]:
            lines.append(f"HARNESS-ERROR {prop}/{r['facet']}#{r['shard']}:\n{r['error']}")
        if rc == 0:
            rc = 2

    if not only_facets and not os.environ.get("VERIF_NO_EVIDENCE"):
        ev = dict(
            property_id=prop,
            tier=tier,
            seed=int(seed),
            level="exploration",
            coverage=dict(
                evaluations=evaluations,
                distinct_nontrivial=len(nt_all),
                rule=getattr(mod, "RULE", "")
                + " Distinct = sha1 of the canonical JSON of the generated case, union over "
                "shards; non-trivial per facet: "
                + "; ".join(f"{n}: {facets[n].rule}" for n in per_facet if n in facets),
                samples=samples[:24],
                per_facet=per_facet,
                known_findings_excluded={k: dict(cases=n, example=known_example.get(k)) for k, n in known.items()},
                exhaustive=bool(exhaustive) and len(exhaustive) == len(per_facet),
                exhaustive_facets=exhaustive,
                harness_errors=len(errors),
            ),
            assumptions=list(getattr(mod, "ASSUMPTIONS", [])),
            wall_s=round(wall, 2),
            violations=len(viol_paths),
        )
        os.makedirs(os.path.join(HERE, "evidence"), exist_ok=True)
        with open(os.path.join(HERE, "evidence", f"{prop}.json"), "w") as fh:
            json.dump(ev, fh, indent=1, default=_jd, sort_keys=True)

    print(
        f"{prop} tier={tier} seed={seed}: {evaluations} evaluations, {len(nt_all)} distinct "
        f"non-trivial, {len(per_facet)} facets, {wall:.1f}s"
    )
    for name, pf in per_facet.items():
        print(
            f"  {name:28s} eval={pf['evaluations']:8d} nt={pf['distinct_nontrivial']:8d} "
            f"disc={pf['discarded']:5d} cpu={pf['wall_s']:7.1f}s worst/tol={pf['extra'].get('max_ratio', float('nan')):.2g} {dict(list(pf['classes'].items())[:8])}"
        )
    for ln in lines:
        print(ln)
    sys.stdout.flush()
    return rc
