"""atheris target for C12 (thorough tier only): fuzz bytes -> edits of a corpus TLE.

`re` / str slicing give a coverage-guided fuzzer little to hold on to with raw bytes, so the
bytes are decoded into *edits of a valid TLE*: pick a corpus entry, apply 0-4 edits (replace /
insert / delete one character, renumber a line, swap the lines), optionally recompute the
checksums so that the edit reaches the field parsing.  The oracle is carried by `one_input`:

  1. a text the strict parser accepts is never rejected; (a malformed text whose checksums are
     right - the checksum ignores '.', '+', blanks and letters - may make the library raise
     something else than ValueError, e.g. OverflowError for an epoch day without its decimal
     point: such leaks are outside the property's corruption classes; they are counted in
     LEAKS and printed at exit, not failed)
  2. if the independent strict column parser (vf/oracles/tlefmt.py) accepts the text, the
     library must accept it too, read the same fields, and write an orbit back to lines that
     the strict parser reads to the same fields (angles modulo 360 deg);
  3. if the library accepts what the strict parser rejects (it is lenient) nothing is demanded.

Run:  PYTHONPATH=/verif/.deps:/verif /venv/bin/python -m vf.fuzz.tle_target -runs=200000 [-seed=N] [corpus dir]
`one_input(bytes)` does not need atheris: the check replays a crash file through it.
"""

import math
import sys
from fractions import Fraction

from ..core import Violation
from ..oracles import tlefmt as tf

ALPHABET = "0123456789 +-.UAZaz_\t#"

_TESTS_IO = [
    ("ISS (ZARYA)",
     "1 25544U 98067A   08264.51782528 -.00002182  00000-0 -11606-4 0  2927",
     "2 25544  51.6416 247.4627 0006703 130.5360 325.0288 15.72125391563537"),
    ("UNKNOWN",
     "1 81014U          19071.50347758  .00025823  00000-0  22146-2 0  9998",
     "2 81014  51.3262 117.7468 2910898 126.0686 264.6106  9.45290855184707"),
    (None,
     "1 00014U          19071.50347758  .00025823  00000-0  22146-2 0  9999",
     "2 00014  51.3262 117.7468 2910898 126.0686 264.6106  9.45290855184708"),
]

_corpus = None
LEAKS = {}


def corpus():
    """tests/io reference TLEs + 29 generator outputs (fixed Hypothesis seed)."""
    global _corpus
    if _corpus is None:
        import hypothesis
        from hypothesis import HealthCheck, Phase, given, settings

        from ..gen import tles as gt

        out = list(_TESTS_IO)

        @hypothesis.seed(12)
        @settings(max_examples=29, database=None, deadline=None, phases=[Phase.generate],
                  suppress_health_check=list(HealthCheck))
        @given(gt.fields(canonical=False))
        def collect(f):
            out.append((f["name"],) + tf.format_lines(f))

        collect()
        _corpus = out[:32]
    return _corpus


class Cursor:
    """Minimal deterministic byte reader (0 once the data is exhausted)."""

    def __init__(self, data):
        self.data, self.k = bytes(data), 0

    def byte(self):
        b = self.data[self.k] if self.k < len(self.data) else 0
        self.k += 1
        return b

    def below(self, n):
        return self.byte() % n


def decode(data):
    """bytes -> (name|None, line1, line2, [edit descriptions])."""
    cur = Cursor(data)
    entries = corpus()
    name, l1, l2 = entries[cur.below(len(entries))]
    lines = [l1, l2]
    notes = []
    for _ in range(cur.below(5)):
        kind = cur.below(8)
        k = cur.below(2)
        ln = lines[k]
        if not ln:
            continue
        pos = cur.below(len(ln))
        ch = ALPHABET[cur.below(len(ALPHABET))]
        if kind <= 2:
            lines[k] = ln[:pos] + ch + ln[pos + 1:]
            notes.append(f"line {k + 1} col {pos + 1} {ln[pos]!r}->{ch!r}")
        elif kind == 3:
            lines[k] = ln[:pos] + ln[pos + 1:]
            notes.append(f"line {k + 1} col {pos + 1} deleted")
        elif kind == 4:
            lines[k] = ln[:pos] + ch + ln[pos:]
            notes.append(f"line {k + 1}: {ch!r} inserted before col {pos + 1}")
        elif kind == 5:
            lines[k] = "12034 A"[cur.below(7)] + ln[1:]
            notes.append(f"line {k + 1} renumbered {lines[k][0]!r}")
        elif kind == 6:
            lines = [lines[1], lines[0]]
            notes.append("lines swapped")
        else:
            # digit-preserving edit: replace a digit by a digit (reaches the field parsing once the
            # checksum is recomputed)
            cols = tf.digit_columns(ln)
            if cols:
                c = cols[pos % len(cols)]
                d = tf.DIGITS[cur.below(10)]
                lines[k] = ln[:c] + d + ln[c + 1:]
                notes.append(f"line {k + 1} col {c + 1} {ln[c]}->{d}")
    if cur.below(4) != 0:
        for k in (0, 1):
            if len(lines[k]) >= 69:
                lines[k] = lines[k][:68] + tf.checksum(lines[k]) + lines[k][69:]
        notes.append("checksums recomputed")
    return name, lines[0], lines[1], notes


def _ang(a, b):
    d = (Fraction(a) - Fraction(b)) % 360
    return min(d, 360 - d)


def one_input(data):
    from beyond.io.tle import Tle

    name, l1, l2, notes = decode(data)
    text = (f"{name}\n" if name else "") + f"{l1}\n{l2}"
    try:
        strict = tf.parse_lines(l1, l2, same_catalogue=False)
    except tf.FormatError:
        strict = None
    try:
        tle = Tle(text)
    except ValueError:
        if strict is not None:
            raise Violation("fuzz:rejected-valid", f"a well-formed TLE was rejected: {[l1, l2]} ({notes})") from None
        return "rejected"
    except Exception as exc:
        if strict is not None:
            raise
        key = f"Tle():{type(exc).__name__}"
        LEAKS[key] = LEAKS.get(key, 0) + 1
        return "rejected-leak"
    if strict is None:
        # lenient acceptance of a malformed text: the write-back may fail in any way
        try:
            Tle.from_orbit(tle.orbit())
        except ValueError:
            pass
        except Exception as exc:
            key = f"from_orbit():{type(exc).__name__}"
            LEAKS[key] = LEAKS.get(key, 0) + 1
        return "lenient"
    half = Fraction(1, 2)

    def same(what, got, want, ulp, angle=False):
        err = _ang(got, want) if angle else abs(Fraction(got) - Fraction(want))
        if err > ulp * half:
            raise Violation(f"fuzz:{what}", f"{what}: {float(got)!r} != {float(want)!r}; lines {[l1, l2]} ({notes})")

    u4, u7, u8 = Fraction(1, 10**4), Fraction(1, 10**7), Fraction(1, 10**8)

    def compare(t, p, stage):
        same(f"{stage}-i", math.degrees(t.i), p["inc"], u4, True)
        same(f"{stage}-raan", math.degrees(t.Ω), p["raan"], u4, True)
        same(f"{stage}-e", t.e, p["ecc"], u7)
        same(f"{stage}-argp", math.degrees(t.ω), p["argp"], u4, True)
        same(f"{stage}-M", math.degrees(t.M), p["ma"], u4, True)
        same(f"{stage}-n", t.n / tf.REVDAY, p["n"], u8)
        same(f"{stage}-ndot", t.ndot / 2, p["ndot_half"], u8)
        same(f"{stage}-ndotdot", t.ndotdot / 6, p["nddot_sixth"], p["nddot_ulp"])
        same(f"{stage}-bstar", t.bstar, p["bstar"], p["bstar_ulp"])
        for what, got, want in (("norad_id", t.norad_id, p["cat"]), ("cospar_id", t.cospar_id, p["cospar"]),
                                ("element_nb", t.element_nb, p["elnum"]), ("revolutions", t.revolutions, p["rev"])):
            if got != want:
                raise Violation(f"fuzz:{stage}-{what}", f"{what}: {got!r} != {want!r}; lines {[l1, l2]} ({notes})")

    compare(tle, strict, "read")
    if any(0 < abs(strict[k]) < Fraction(1, 10**10) for k in ("nddot_sixth", "bstar")):
        # a denormalised mantissa (e.g. 00001-9 = 1e-14) can hold values that the writer's normalised
        # mantissa + one exponent digit cannot: "can be written as a TLE" does not cover them
        return "valid-unwritable"
    out = Tle.from_orbit(tle.orbit())
    o1, o2 = out.text.split("\n")
    try:
        again = tf.parse_lines(o1, o2)
    except tf.FormatError as exc:
        raise Violation("fuzz:rewrite-format", f"{exc}: wrote {[o1, o2]} from {[l1, l2]} ({notes})") from None
    for key, ulp, ang in (("inc", u4, True), ("raan", u4, True), ("ecc", u7, False), ("argp", u4, True),
                          ("ma", u4, True), ("n", u8, False), ("ndot_half", u8, False)):
        same(f"rewrite-{key}", again[key], strict[key], ulp * 2 * (1 + Fraction(1, 10**6)) * half, ang)
    for key in ("nddot_sixth", "bstar"):
        if again[key] != strict[key]:
            raise Violation(f"fuzz:rewrite-{key}", f"{key}: wrote {float(again[key])!r}, read {float(strict[key])!r}; "
                            f"{[o1, o2]} from {[l1, l2]} ({notes})")
    if abs(again["epoch_mjd"] - strict["epoch_mjd"]) > u8 * half:
        raise Violation("fuzz:rewrite-epoch", f"epoch moved by {float(again['epoch_mjd'] - strict['epoch_mjd'])} d; "
                        f"{[o1, o2]} from {[l1, l2]} ({notes})")
    for key in ("cat", "cospar", "elnum", "rev"):
        if again[key] != strict[key]:
            raise Violation(f"fuzz:rewrite-{key}", f"{key}: wrote {again[key]!r}, read {strict[key]!r}; "
                            f"{[o1, o2]} from {[l1, l2]} ({notes})")
    return "valid"


def main():
    import atheris

    from .. import env

    env.bootstrap()
    env.eop("missing-pass")
    corpus()
    import atexit

    atexit.register(lambda: print(f"LEAKS {LEAKS}", file=sys.stderr))
    with atheris.instrument_imports():
        import beyond.io.tle  # noqa: F401

    def test_one_input(data):
        one_input(data)

    atheris.Setup(sys.argv, test_one_input)
    atheris.Fuzz()


if __name__ == "__main__":
    main()
