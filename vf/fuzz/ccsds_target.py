"""atheris target for C13 (thorough tier only): fuzz bytes -> edits of a valid CCSDS message.

lxml and `re` are C code without coverage feedback, so raw bytes would only ever exercise the "not a
CCSDS message" branch.  The bytes are decoded into *edits of a corpus message*: pick an entry (the choice
of entry is also the KVN <-> XML choice: every object is in the corpus in both encodings), apply 0-4 edits

  digit     replace one digit of a value (the year of an epoch is left alone)
  char      replace one character of a value by one of ALPHABET
  drop/dup  drop or duplicate a line
  block     drop or duplicate a whole element / block (XML <stateVector>, <covarianceMatrix>,
            <maneuverParameters>, <observation>, <segment>, <USER_DEFINED>; KVN maneuver block, data line)
  unit      replace / remove a unit annotation ([km], units="km")
  swap      exchange two neighbouring lines

The oracle is carried by `one_input`:
  * `loads` refuses with CcsdsError / ValueError / KeyError / a beyond error  -> "refused";
    any other exception type on such a small edit of a valid message is a *leak*: counted per
    (type @ innermost beyond frame) in LEAKS and printed at exit - C13 speaks of round trips, not of the
    way malformed text is rejected, so leaks are reported, not failed;
  * `loads` returns an object: it must be writable in both encodings and both must decode to the same
    object again (vf/oracles/ccsds_eq.py, written precision).  Degenerate objects the property does not
    quantify over (no ephemeris point, no measure, an epoch before year 1000 whose %Y the C library
    prints without zero padding) are labelled "degenerate" and not required to be writable.

Run:  PYTHONPATH=/verif/.deps:/verif /venv/bin/python -m vf.fuzz.ccsds_target -runs=20000 [-seed=N]
`one_input(bytes)` does not need atheris: the check replays a crash file through it.
"""

import os
import re
import sys

from ..core import Violation, library_frame
from ..oracles import ccsds_eq as E

ALPHABET = "0123456789 .-+eE[]=<>/\"kmsdgKVNRSWTQ_:"
UNITS = ["km", "m", "km/s", "m/s", "deg", "rad", "s", "kg", "rev/day", "km**2", ""]
XML_BLOCKS = ["stateVector", "covarianceMatrix", "maneuverParameters", "observation", "segment", "USER_DEFINED",
              "keplerianElements", "userDefinedParameters", "metadata"]
FMTS = ("kvn", "xml")

_corpus = None
LEAKS = {}
LABELS = {}


def corpus():
    """[(label, text)]: the repository's sample messages + both encodings of 24 generated objects."""
    global _corpus
    if _corpus is None:
        import hypothesis
        from hypothesis import HealthCheck, Phase, given, settings
        from hypothesis import strategies as st

        from beyond.io.ccsds import dumps

        from .. import env
        from ..gen import ccsds_objects as G

        out = []
        d = os.path.join(env.repo(), "tests", "io", "ccsds", "data")
        for name in sorted(os.listdir(d)):
            if name.endswith((".kvn", ".xml")):
                with open(os.path.join(d, name)) as fh:
                    out.append((name, fh.read()))
        specs = []

        @hypothesis.seed(13)
        @settings(max_examples=6, database=None, deadline=None, phases=[Phase.generate],
                  suppress_health_check=list(HealthCheck))
        @given(st.tuples(G.opm_spec(), G.oem_spec(), G.omm_spec(), G.tdm_spec()))
        def collect(t):
            specs.extend(t)

        collect()
        for k, spec in enumerate(specs[:24]):
            for fmt in FMTS:
                try:
                    text = dumps(G.build(spec), fmt=fmt)
                except Exception:  # a corpus entry that cannot be written is no corpus entry
                    continue
                out.append((f"gen{k:02d}-{spec['type']}.{fmt}", text))
        _corpus = out
    return _corpus


class Cursor:
    """Minimal deterministic byte reader (0 once the data is exhausted)."""

    def __init__(self, data):
        self.data, self.k = bytes(data), 0

    def byte(self):
        b = self.data[self.k] if self.k < len(self.data) else 0
        self.k += 1
        return b

    def below(self, n):
        return self.byte() % n if n < 256 else (self.byte() * 256 + self.byte()) % n


_DATE = re.compile(r"\d{4}-[\d-]+T[\d:.]+")
_SKIP = ("CCSDS_", "CREATION_DATE", "<?xml", "xmlns", "<header", "</header")


def _value_span(ln):
    """(lo, hi) of the value part of a line (after '=' / inside the element), or None"""
    st = ln.lstrip()
    if st.startswith("<"):
        lo = ln.find(">") + 1
        hi = ln.rfind("</")
        return (lo, hi) if 0 < lo < hi else None
    if "=" in ln:
        return ln.find("=") + 1, len(ln)
    return (0, len(ln)) if ln.strip() else None


def _candidates(lines):
    return [k for k, ln in enumerate(lines) if ln.strip() and not any(w in ln for w in _SKIP)]


def _block(lines, start, cur):
    """(first, last) line of the element / block beginning at or after line `start`, or None"""
    n = len(lines)
    for k in list(range(start, n)) + list(range(0, start)):
        st = lines[k].strip()
        for tag in XML_BLOCKS:
            if st.startswith(f"<{tag}") and not st.startswith(f"</{tag}"):
                if f"</{tag}>" in st:
                    return k, k
                for j in range(k + 1, n):
                    if f"</{tag}>" in lines[j]:
                        return k, j
        if st.startswith("MAN_EPOCH_IGNITION"):
            j = k
            while j + 1 < n and lines[j + 1].startswith("MAN_") and not lines[j + 1].startswith("MAN_EPOCH"):
                j += 1
            return k, j
        if st.startswith("META_START"):
            for j in range(k + 1, n):
                if lines[j].startswith("META_STOP"):
                    return k, j
    return None


def decode(data):
    """bytes -> (label, text, [edit descriptions])"""
    cur = Cursor(data)
    entries = corpus()
    label, text = entries[cur.below(len(entries))]
    lines = text.split("\n")
    notes = []
    for _ in range(cur.below(5)):
        kind = cur.below(10)
        cand = _candidates(lines)
        if not cand:
            break
        k = cand[cur.below(len(cand))]
        ln = lines[k]
        span = _value_span(ln)
        if kind <= 2 and span:  # digit
            years = [(m.start(), m.start() + 4) for m in _DATE.finditer(ln)]
            pos = [j for j in range(*span) if ln[j].isdigit() and not any(a <= j < b for a, b in years)]
            if pos:
                j = pos[cur.below(len(pos))]
                dgt = "0123456789"[cur.below(10)]
                lines[k] = ln[:j] + dgt + ln[j + 1:]
                notes.append(f"line {k + 1} col {j + 1}: {ln[j]} -> {dgt}")
        elif kind == 3 and span and span[1] > span[0]:  # char
            j = span[0] + cur.below(span[1] - span[0])
            ch = ALPHABET[cur.below(len(ALPHABET))]
            lines[k] = ln[:j] + ch + ln[j + 1:]
            notes.append(f"line {k + 1} col {j + 1}: {ln[j]!r} -> {ch!r}")
        elif kind == 4:
            del lines[k]
            notes.append(f"line {k + 1} dropped: {ln.strip()[:40]!r}")
        elif kind == 5:
            lines.insert(k, ln)
            notes.append(f"line {k + 1} duplicated: {ln.strip()[:40]!r}")
        elif kind in (6, 7):
            b = _block(lines, k, cur)
            if b:
                if kind == 6:
                    notes.append(f"block lines {b[0] + 1}-{b[1] + 1} dropped ({lines[b[0]].strip()[:30]!r})")
                    del lines[b[0]:b[1] + 1]
                else:
                    notes.append(f"block lines {b[0] + 1}-{b[1] + 1} duplicated ({lines[b[0]].strip()[:30]!r})")
                    lines[b[1] + 1:b[1] + 1] = lines[b[0]:b[1] + 1]
        elif kind == 8:  # unit
            unit = UNITS[cur.below(len(UNITS))]
            new = ln
            if 'units="' in ln:
                new = re.sub(r' units="[^"]*"', f' units="{unit}"' if unit else "", ln, count=1)
            elif "[" in ln and ln.rstrip().endswith("]"):
                new = ln[:ln.rfind("[")].rstrip() + (f" [{unit}]" if unit else "")
            elif span and "=" in ln and unit:
                new = ln.rstrip() + f" [{unit}]"
            if new != ln:
                lines[k] = new
                notes.append(f"line {k + 1} unit -> {unit!r}")
        elif kind == 9 and k + 1 < len(lines):
            lines[k], lines[k + 1] = lines[k + 1], lines[k]
            notes.append(f"lines {k + 1} and {k + 2} swapped")
    return label, "\n".join(lines), notes


def _dates(desc, typ):
    if typ in ("opm", "omm"):
        yield desc["epoch"]
        for m in desc["mans"]:
            yield m["epoch"]
    elif typ == "oem":
        for e in desc["ephems"]:
            for p in e["points"]:
                yield p["epoch"]
    else:
        for g in desc["groups"]:
            for m in g["measures"]:
                yield m["epoch"]


def _finite(x):
    import numpy as np

    if isinstance(x, dict):
        return all(_finite(v) for v in x.values())
    if isinstance(x, (list, tuple)):
        return all(_finite(v) for v in x)
    if isinstance(x, (float, np.ndarray)):
        return bool(np.all(np.isfinite(x)))
    return True


def _degenerate(desc, typ):
    if not _finite(desc):
        return "non-finite"  # e.g. a value edited to -3E999
    if typ == "oem" and any(not e["points"] for e in desc["ephems"]):
        return "no-point"
    if typ == "oem" and not desc["ephems"]:
        return "no-ephem"
    if typ == "tdm" and (not desc["groups"] or any(not g["measures"] for g in desc["groups"])):
        return "no-measure"
    # MJD of 1000-01-01 = -313702: the C library prints earlier years without zero padding
    if any(d["d"] < -313000 for d in _dates(desc, typ)):
        return "year<1000"
    return None


def _strip_names(d):
    for item in [d] + list(d.get("ephems", ())):
        for k in ("name", "cospar_id"):
            if isinstance(item.get(k), str):
                item[k] = item[k].strip()
    return d


def _leak(stage, exc):
    key = f"{stage}:{type(exc).__name__}@{library_frame(exc.__traceback__)}"
    LEAKS[key] = LEAKS.get(key, 0) + 1


def _label(x):
    LABELS[x] = LABELS.get(x, 0) + 1
    return x


def one_input(data):
    from beyond.errors import BeyondError
    from beyond.io.ccsds import dumps, loads

    label, text, notes = decode(data)
    m = re.search(r"CCSDS_([A-Z]{3})_VERS", text)
    try:
        y = loads(text)
    except (BeyondError, ValueError, KeyError):
        return _label("refused")
    except Exception as exc:
        if library_frame(exc.__traceback__) is None and "lxml" not in type(exc).__module__:
            raise
        _leak("loads", exc)
        return _label("refused-leak")
    typ = m.group(1).lower()
    try:
        gy = _strip_names(E.describe(y, typ))
    except (TypeError, ValueError, AttributeError):
        # e.g. an OMM orbit that is not in TLE form, a foreign object type: nothing to compare
        return _label("accepted-undescribable")
    deg = _degenerate(gy, typ)
    if deg:
        return _label(f"degenerate:{deg}")
    where = f"{label} edited by {notes}"
    decoded = {}
    for f2 in FMTS:
        try:
            text2 = dumps(y, fmt=f2)
        except Exception as exc:
            if library_frame(exc.__traceback__) is None and "lxml" not in type(exc).__module__:
                raise
            raise Violation(f"fuzz:redump-raised:{typ}-{f2}:{type(exc).__name__}@{library_frame(exc.__traceback__)}",
                            f"a message that was read cannot be written in {f2}: {type(exc).__name__}: "
                            f"{str(exc)[:120]}; {where}") from None
        try:
            z = loads(text2)
            gz = _strip_names(E.describe(z, typ))
        except Exception as exc:
            if library_frame(exc.__traceback__) is None and "lxml" not in type(exc).__module__:
                raise
            raise Violation(f"fuzz:reload-raised:{typ}-{f2}:{type(exc).__name__}@{library_frame(exc.__traceback__)}",
                            f"what was read and written in {f2} cannot be read again: {type(exc).__name__}: "
                            f"{str(exc)[:120]}; {where}") from None
        tol = E.Tol(coord=E.COORD_RES.get((typ, f2), 1e-3))
        fields = E.diff(gy, gz, typ, tol)
        if fields:
            f, k, msg = fields[0]
            raise Violation(f"fuzz:redump:{k}", f"read -> {f2} -> read differs: {msg}; {where}")
        decoded[f2] = gz
    return _label("roundtrip")


def main():
    import atexit

    import atheris

    from .. import env

    env.bootstrap()
    env.eop("missing-pass")
    env.jpl()
    with atheris.instrument_imports(include=["beyond.io.ccsds"]):
        import beyond.io.ccsds  # noqa: F401
    from beyond.env import jpl

    jpl.create_frames()
    corpus()
    def report():
        print(f"LEAKS {LEAKS}\nLABELS {LABELS}", file=sys.stderr, flush=True)

    atexit.register(report)
    count = [0]

    def test_one_input(data):
        one_input(data)
        count[0] += 1
        if count[0] % 1000 == 0:  # libFuzzer leaves through _exit: atexit alone would never report
            report()

    atheris.Setup(sys.argv, test_one_input)
    atheris.Fuzz()


if __name__ == "__main__":
    main()
