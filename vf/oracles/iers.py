"""Independent readers of the IERS files and an independent time-scale model (no import of beyond).

finals.all / finals2000A.all, fixed columns from the IERS "readme.finals" (1-based, inclusive):

    1-2 I2 year | 3-4 I2 month | 5-6 I2 day | 8-15 F8.2 MJD (UTC) | 17 A1 I/P flag polar motion
    19-27 F9.6 PM-x ["] | 28-36 F9.6 error | 38-46 F9.6 PM-y ["] | 47-55 F9.6 error
    58 A1 I/P flag UT1-UTC | 59-68 F10.7 UT1-UTC [s] | 69-78 F10.7 error
    80-86 F7.4 LOD [ms] | 87-93 F7.4 error | 96 A1 I/P flag nutation
    98-106 F9.3 dPSI [mas] (finals2000A: dX) | 107-115 error
    117-125 F9.3 dEPS [mas] (finals2000A: dY) | 126-134 error | 135-185 Bulletin B values

tai-utc.dat: "<yyyy> <MON> <d> =JD <jd>  TAI-UTC= <a> S + (MJD - <b>) X <c> S"; since 1972 c = 0.

Documented behaviour of beyond's simple database that the oracle reproduces as *specification*:
values are those of the UTC day floor(MJD) (no interpolation); when the nutation corrections
or LOD are blank (prediction part of the file) the last available value is carried forward;
the table ends at the first line without polar motion / UT1-UTC.
"""

import math
import os

US_DAY = 86400 * 10**6
# integer microseconds are counted from this UTC/TAI/... clock reading (MJD 41685)
BASE_MJD = 41685  # 1973-01-03


def _col(line, first, last):
    """1-based inclusive column range of a fixed-format record -> float or None if blank."""
    txt = line[first - 1:last]
    if not txt.strip():
        return None
    return float(txt)


def read_finals(path, names):
    """-> {mjd: dict(x, y, ut1_utc, lod, <names[0]>, <names[1]>)}"""
    out = {}
    last_nut = (None, None)
    last_lod = None
    with open(path, encoding="ascii") as fh:
        for line in fh:
            line = line.rstrip("\n")
            if not line.strip():
                continue
            mjd = _col(line, 8, 15)
            x, y, ut1 = _col(line, 19, 27), _col(line, 38, 46), _col(line, 59, 68)
            if x is None or y is None or ut1 is None:
                break
            n1, n2 = _col(line, 98, 106), _col(line, 117, 125)
            if n1 is None or n2 is None:
                n1, n2 = last_nut
            last_nut = (n1, n2)
            lod = _col(line, 80, 86)
            if lod is None:
                lod = last_lod
            last_lod = lod
            out[int(mjd)] = {"x": x, "y": y, "ut1_utc": ut1, "lod": lod, names[0]: n1, names[1]: n2}
    return out


def read_tai_utc(path):
    """-> sorted list of (first MJD of validity, TAI-UTC seconds)"""
    out = []
    with open(path, encoding="ascii") as fh:
        for line in fh:
            if "TAI-UTC=" not in line:
                continue
            jd = float(line.split("=JD")[1].split()[0])
            val = float(line.split("TAI-UTC=")[1].split()[0])
            out.append((int(round(jd - 2400000.5)), val))
    out.sort()
    return out


class Tables:
    def __init__(self, folder):
        f80 = read_finals(os.path.join(folder, "finals.all"), ("dpsi", "deps"))
        f00 = read_finals(os.path.join(folder, "finals2000A.all"), ("dx", "dy"))
        self.days = {}
        for mjd, v in f80.items():
            if mjd not in f00:
                continue
            w = f00[mjd]
            for k in ("x", "y", "ut1_utc", "lod"):
                if v[k] != w[k]:
                    raise RuntimeError(f"finals.all and finals2000A.all disagree on {k} at {mjd}")
            rec = dict(v)
            rec["dx"], rec["dy"] = w["dx"], w["dy"]
            self.days[mjd] = rec
        self.leaps = read_tai_utc(os.path.join(folder, "tai-utc.dat"))
        self.first = min(self.days)
        self.last = max(self.days)

    def tai_utc(self, mjd):
        val = None
        for first, v in self.leaps:
            if first <= mjd:
                val = v
        return val

    def day(self, mjd):
        """Full record of the UTC day floor(mjd), or None if the tables do not cover it."""
        rec = self.days.get(int(math.floor(mjd)))
        if rec is None:
            return None
        out = dict(rec)
        out["tai_utc"] = self.tai_utc(mjd)
        return out

    def leap_days(self, first=BASE_MJD):
        """MJDs at whose 0h UTC a leap second was inserted."""
        return [m for m, _ in self.leaps if m >= first]


_tables = {}


def tables(repo):
    folder = os.path.join(repo, "tests", "data", "pole")
    if folder not in _tables:
        _tables[folder] = Tables(folder)
    return _tables[folder]


# ------------------------------------------------------------------ time-scale model

SCALES = ("UTC", "TAI", "TT", "GPS", "UT1", "TDB")
EXACT = ("UTC", "TAI", "TT", "GPS")
TT_TAI_US = 32184000
TAI_GPS_US = 19000000


def tdb_minus_tt(tt_us):
    """Astronomical Almanac two-term expression, seconds; argument = TT reading in us since BASE."""
    jd = BASE_MJD + 2400000.5 + tt_us / US_DAY
    d = jd - 2451545.0
    g = math.radians(357.53 + 0.98560028 * d)
    dl = math.radians(246.11 + 0.90251792 * d)
    return 0.001657 * math.sin(g) + 0.000022 * math.sin(dl)


def readings(utc_us, tab, eop):
    """Clock readings (integer us since BASE_MJD 0h of the same scale) of the instant whose UTC
    reading is utc_us.  eop: 'real' | 'zero' | 'missing' (all table values zero).
    UT1 and TDB are rounded to the microsecond (their conversion resolution)."""
    mjd = BASE_MJD + utc_us // US_DAY
    if eop == "missing":
        tai_utc, ut1_utc = 0.0, 0.0
    else:
        tai_utc = tab.tai_utc(mjd)
        ut1_utc = tab.days[mjd]["ut1_utc"] if eop == "real" else 0.0
    tai = utc_us + int(round(tai_utc * 1e6))
    tt = tai + TT_TAI_US
    return {
        "UTC": utc_us,
        "TAI": tai,
        "TT": tt,
        "GPS": tai - TAI_GPS_US,
        "UT1": utc_us + int(round(ut1_utc * 1e6)),
        "TDB": tt + int(round(tdb_minus_tt(tt) * 1e6)),
    }


def ut1_day_change(utc_us, tab, eop):
    """|UT1-UTC(day) - UT1-UTC(adjacent day)| in us, max over both neighbours (0 unless real)."""
    if eop != "real":
        return 0
    mjd = BASE_MJD + utc_us // US_DAY
    here = tab.days[mjd]["ut1_utc"]
    worst = 0.0
    for n in (mjd - 1, mjd + 1):
        if n in tab.days:
            d = abs(tab.days[n]["ut1_utc"] - here)
            # a leap second shifts UT1-UTC by one second: not a "change of UT1-UTC" in this sense
            if d > 0.5:
                d = abs(d - 1.0)
            worst = max(worst, d)
    return int(math.ceil(worst * 1e6))
