"""Independent ellipsoidal geodesy: geodetic -> Earth-fixed cartesian, local east/north/up triad,
topocentric range / azimuth / elevation and their time derivatives.

Written from the geometry of the meridian ellipse, not from the library:

* a point of the ellipse with *reduced* latitude beta is (a cos beta, b sin beta), b = a (1 - f);
  the geodetic latitude phi of that point satisfies  tan beta = (1 - f) tan phi;
* the ellipsoid normal at that point is (cos phi, sin phi) in the meridian plane, a height h
  is added along it.

`self_test()` checks this against the prime-vertical-radius form  N = a / sqrt(1 - e^2 sin^2 phi),
the ellipse equation and the orthogonality of normal and tangent.

Only numpy / math; nothing from beyond is imported here (a and f are passed in by the caller).
"""

import math

import numpy as np

TWO_PI = 2.0 * math.pi

# rotation rate of the Earth (IERS conventions, rad/s); the library uses the same standard value
OMEGA_EARTH = 7.292115146706979e-5


def geodetic_to_ecef(lat, lon, h, a, f):
    """lat, lon in radians (geodetic), h metres above the ellipsoid -> np.array([x, y, z]) metres."""
    b = a * (1.0 - f)
    sphi, cphi = math.sin(lat), math.cos(lat)
    beta = math.atan2((1.0 - f) * sphi, cphi)
    p = a * math.cos(beta) + h * cphi  # distance to the rotation axis
    z = b * math.sin(beta) + h * sphi
    return np.array([p * math.cos(lon), p * math.sin(lon), z])


def geodetic_to_ecef_N(lat, lon, h, a, f):
    """Same thing through the prime-vertical radius (used only by self_test)."""
    e2 = f * (2.0 - f)
    N = a / math.sqrt(1.0 - e2 * math.sin(lat) ** 2)
    return np.array([
        (N + h) * math.cos(lat) * math.cos(lon),
        (N + h) * math.cos(lat) * math.sin(lon),
        (N * (1.0 - e2) + h) * math.sin(lat),
    ])


def axis_distance(lat, h, a, f):
    beta = math.atan2((1.0 - f) * math.sin(lat), math.cos(lat))
    return a * math.cos(beta) + h * math.cos(lat)


def enu(lat, lon):
    """Unit vectors east, north, up (Earth-fixed components) at geodetic (lat, lon)."""
    sl, cl = math.sin(lat), math.cos(lat)
    so, co = math.sin(lon), math.cos(lon)
    east = np.array([-so, co, 0.0])
    north = np.array([-sl * co, -sl * so, cl])
    up = np.array([cl * co, cl * so, sl])
    return east, north, up


def from_topo(site, triad, az, el, rng):
    """Earth-fixed point seen from `site` at azimuth az (from north towards east), elevation el, range rng."""
    east, north, up = triad
    ce = math.cos(el)
    return site + rng * (ce * math.cos(az) * north + ce * math.sin(az) * east + math.sin(el) * up)


def topo(site, triad, p):
    """range, azimuth in [0, 2pi) (north -> east), elevation of Earth-fixed point p seen from site."""
    east, north, up = triad
    d = np.asarray(p, float) - site
    e, n, u = float(d @ east), float(d @ north), float(d @ up)
    rng = math.sqrt(e * e + n * n + u * u)
    el = math.atan2(u, math.hypot(e, n))
    az = math.atan2(e, n) % TWO_PI
    return rng, az, el


def angdiff(a, b):
    """a - b wrapped to (-pi, pi]."""
    d = (a - b) % TWO_PI
    return d - TWO_PI if d > math.pi else d


def topo_rates(site, triad, p, v):
    """d/dt of (range, azimuth, elevation) for a target at Earth-fixed position p moving with
    Earth-fixed velocity v (site at rest): 4th-order central differences of `topo` along the
    straight line p + v t, Richardson step chosen from the angular scale of the motion.

    Returns (rdot, azdot, eldot, h) ; h is the time step used (0 when v = 0)."""
    p = np.asarray(p, float)
    v = np.asarray(v, float)
    speed = float(np.linalg.norm(v))
    if speed == 0.0:
        return 0.0, 0.0, 0.0, 0.0
    rng, az, el = topo(site, triad, p)
    # horizontal distance governs how fast the azimuth can turn
    lever = max(rng * math.cos(el), 1e-12 * rng)
    h = 2e-3 * lever / speed

    def q(t):
        return topo(site, triad, p + v * t)

    def d4(f1, b1, f2, b2, wrap=False):
        if wrap:
            d1 = angdiff(f1, b1)
            d2 = angdiff(f2, b2)
        else:
            d1 = f1 - b1
            d2 = f2 - b2
        return (8.0 * d1 - d2) / (12.0 * h)

    f1, b1, f2, b2 = q(h), q(-h), q(2 * h), q(-2 * h)
    rdot = d4(f1[0], b1[0], f2[0], b2[0])
    azdot = d4(f1[1], b1[1], f2[1], b2[1], wrap=True)
    eldot = d4(f1[2], b1[2], f2[2], b2[2])
    return rdot, azdot, eldot, h


def topo_rates_analytic(site, triad, p, v):
    """Closed form of the same derivatives (projection of v on the local triad)."""
    east, north, up = triad
    d = np.asarray(p, float) - site
    v = np.asarray(v, float)
    e, n, u = float(d @ east), float(d @ north), float(d @ up)
    ve, vn, vu = float(v @ east), float(v @ north), float(v @ up)
    rng = math.sqrt(e * e + n * n + u * u)
    rdot = (e * ve + n * vn + u * vu) / rng
    hor2 = e * e + n * n
    azdot = (n * ve - e * vn) / hor2
    # el = atan2(u, hor):  d el = (hor du - u dhor) / r^2
    hor = math.sqrt(hor2)
    hordot = (e * ve + n * vn) / hor
    eldot = (hor * vu - u * hordot) / (rng * rng)
    return rdot, azdot, eldot


def mask_value(azs, els, az):
    """Piecewise-linear horizon mask.  Table (azs strictly increasing, last = 2 pi); the value
    given at 2 pi also stands at azimuth 0 unless the table itself starts at 0."""
    x = az % TWO_PI
    xs = list(azs)
    ys = list(els)
    if xs[0] > 0.0:
        xs.insert(0, 0.0)
        ys.insert(0, ys[-1])
    # x in [0, 2 pi]: find the bracketing segment
    for k in range(1, len(xs)):
        if x <= xs[k]:
            x0, x1, y0, y1 = xs[k - 1], xs[k], ys[k - 1], ys[k]
            if x == x1:
                return y1
            if x == x0:
                return y0
            return y0 + (y1 - y0) * ((x - x0) / (x1 - x0))
    return ys[-1]


def self_test():
    a, f = 6378137.0, 1 / 298.257223563
    b = a * (1 - f)
    worst = 0.0
    for lat_deg in (-89.99, -60.0, -0.3, 0.0, 12.5, 45.0, 89.9):
        for lon_deg in (-170.0, 0.0, 33.0, 275.0):
            for h in (-400.0, 0.0, 9000.0):
                lat, lon = math.radians(lat_deg), math.radians(lon_deg)
                p1 = geodetic_to_ecef(lat, lon, h, a, f)
                p2 = geodetic_to_ecef_N(lat, lon, h, a, f)
                worst = max(worst, float(np.linalg.norm(p1 - p2)))
                p0 = geodetic_to_ecef(lat, lon, 0.0, a, f)
                ell = (p0[0] ** 2 + p0[1] ** 2) / a**2 + p0[2] ** 2 / b**2
                assert abs(ell - 1) < 1e-14, ell
                east, north, up = enu(lat, lon)
                # gradient of the ellipsoid equation is parallel to `up`
                g = np.array([p0[0] / a**2, p0[1] / a**2, p0[2] / b**2])
                g /= np.linalg.norm(g)
                assert np.linalg.norm(g - up) < 1e-14
                assert abs(east @ north) < 1e-15 and abs(east @ up) < 1e-15 and abs(north @ up) < 1e-15
                assert np.linalg.norm(np.cross(east, north) - up) < 1e-15
                assert np.linalg.norm((p1 - p0) - h * up) < 2e-9
    assert worst < 5e-9, worst
    # rates: finite differences against the closed form
    lat, lon = math.radians(43.4), math.radians(1.5)
    s = geodetic_to_ecef(lat, lon, 180.0, a, f)
    tri = enu(lat, lon)
    p = from_topo(s, tri, 2.1, 0.4, 8e5)
    v = np.array([-3000.0, 5000.0, 4000.0])
    fd = topo_rates(s, tri, p, v)[:3]
    an = topo_rates_analytic(s, tri, p, v)
    for x, y in zip(fd, an):
        assert abs(x - y) <= 1e-9 * max(abs(y), 1e-3), (fd, an)
    assert abs(mask_value([1.0, TWO_PI], [0.2, 0.4], 0.5) - 0.3) < 1e-15
    return worst


if __name__ == "__main__":
    print("geodetic forms agree to", self_test(), "m")
