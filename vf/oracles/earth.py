"""Independent ellipsoidal geodesy: geodetic -> Earth-fixed cartesian, local east/north/up triad,
topocentric range / azimuth / elevation and their time derivatives.

Written from the geometry of the meridian ellipse, not from the library:

* a point of the ellipse with *reduced* latitude beta is (a cos beta, b sin beta), b = a (1 - f);
  the geodetic latitude phi of that point satisfies  tan beta = (1 - f) tan phi;
* the ellipsoid normal at that point is (cos phi, sin phi) in the meridian plane, a height h
  is added along it.

`self_test()` checks this against the prime-vertical-radius form  N = a / sqrt(1 - e^2 sin^2 phi),
the ellipse equation and the orthogonality of normal and tangent.

Only numpy / math; nothing from beyond is imported here (a and f are passed in by the caller).
"""

import math

import numpy as np

TWO_PI = 2.0 * math.pi

# rotation rate of the Earth (IERS conventions, rad/s); the library uses the same standard value
OMEGA_EARTH = 7.292115146706979e-5


def geodetic_to_ecef(lat, lon, h, a, f):
    """lat, lon in radians (geodetic), h metres above the ellipsoid -> np.array([x, y, z]) metres."""
    b = a * (1.0 - f)
    sphi, cphi = math.sin(lat), math.cos(lat)
    beta = math.atan2((1.0 - f) * sphi, cphi)
    p = a * math.cos(beta) + h * cphi  # distance to the rotation axis
    z = b * math.sin(beta) + h * sphi
    return np.array([p * math.cos(lon), p * math.sin(lon), z])


def geodetic_to_ecef_N(lat, lon, h, a, f):
    """Same thing through the prime-vertical radius (used only by self_test)."""
    e2 = f * (2.0 - f)
    N = a / math.sqrt(1.0 - e2 * math.sin(lat) ** 2)
    return np.array([
        (N + h) * math.cos(lat) * math.cos(lon),
        (N + h) * math.cos(lat) * math.sin(lon),
        (N * (1.0 - e2) + h) * math.sin(lat),
    ])


def axis_distance(lat, h, a, f):
    beta = math.atan2((1.0 - f) * math.sin(lat), math.cos(lat))
    return a * math.cos(beta) + h * math.cos(lat)


def enu(lat, lon):
    """Unit vectors east, north, up (Earth-fixed components) at geodetic (lat, lon)."""
    sl, cl = math.sin(lat), math.cos(lat)
    so, co = math.sin(lon), math.cos(lon)
    east = np.array([-so, co, 0.0])
    north = np.array([-sl * co, -sl * so, cl])
    up = np.array([cl * co, cl * so, sl])
    return east, north, up


def from_topo(site, triad, az, el, rng):
    """Earth-fixed point seen from `site` at azimuth az (from north towards east), elevation el, range rng."""
    east, north, up = triad
    ce = math.cos(el)
    return site + rng * (ce * math.cos(az) * north + ce * math.sin(az) * east + math.sin(el) * up)


def topo(site, triad, p):
    """range, azimuth in [0, 2pi) (north -> east), elevation of Earth-fixed point p seen from site."""
    east, north, up = triad
    d = np.asarray(p, float) - site
    e, n, u = float(d @ east), float(d @ north), float(d @ up)
    rng = math.sqrt(e * e + n * n + u * u)
    el = math.atan2(u, math.hypot(e, n))
    az = math.atan2(e, n) % TWO_PI
    return rng, az, el


def angdiff(a, b):
    """a - b wrapped to (-pi, pi]."""
    d = (a - b) % TWO_PI
    return d - TWO_PI if d > math.pi else d


def topo_rates(site, triad, p, v):
    """d/dt of (range, azimuth, elevation) for a target at Earth-fixed position p moving with
    Earth-fixed velocity v (site at rest): 4th-order central differences of `topo` along the
    straight line p + v t, Richardson step chosen from the angular scale of the motion.

    Returns (rdot, azdot, eldot, h) ; h is the time step used (0 when v = 0)."""
    p = np.asarray(p, float)
    v = np.asarray(v, float)
    speed = float(np.linalg.norm(v))
    if speed == 0.0:
        return 0.0, 0.0, 0.0, 0.0
    rng, az, el = topo(site, triad, p)
    # horizontal distance governs how fast the azimuth can turn
    lever = max(rng * math.cos(el), 1e-12 * rng)
    h = 2e-3 * lever / speed

    def q(t):
        return topo(site, triad, p + v * t)

    def d4(f1, b1, f2, b2, wrap=False):
        if wrap:
            d1 = angdiff(f1, b1)
            d2 = angdiff(f2, b2)
        else:
            d1 = f1 - b1
            d2 = f2 - b2
        return (8.0 * d1 - d2) / (12.0 * h)

    f1, b1, f2, b2 = q(h), q(-h), q(2 * h), q(-2 * h)
    rdot = d4(f1[0], b1[0], f2[0], b2[0])
    azdot = d4(f1[1], b1[1], f2[1], b2[1], wrap=True)
    eldot = d4(f1[2], b1[2], f2[2], b2[2])
    return rdot, azdot, eldot, h


def topo_rates_analytic(site, triad, p, v):
    """Closed form of the same derivatives (projection of v on the local triad)."""
    east, north, up = triad
    d = np.asarray(p, float) - site
    v = np.asarray(v, float)
    e, n, u = float(d @ east), float(d @ north), float(d @ up)
    ve, vn, vu = float(v @ east), float(v @ north), float(v @ up)
    rng = math.sqrt(e * e + n * n + u * u)
    rdot = (e * ve + n * vn + u * vu) / rng
    hor2 = e * e + n * n
    azdot = (n * ve - e * vn) / hor2
    # el = atan2(u, hor):  d el = (hor du - u dhor) / r^2
    hor = math.sqrt(hor2)
    hordot = (e * ve + n * vn) / hor
    eldot = (hor * vu - u * hordot) / (rng * rng)
    return rdot, azdot, eldot


def mask_value(azs, els, az):
    """Piecewise-linear horizon mask.  Table (azs strictly increasing, last = 2 pi); the value
    given at 2 pi also stands at azimuth 0 unless the table itself starts at 0."""
    x = az % TWO_PI
    xs = list(azs)
    ys = list(els)
    if xs[0] > 0.0:
        xs.insert(0, 0.0)
        ys.insert(0, ys[-1])
    # x in [0, 2 pi]: find the bracketing segment
    for k in range(1, len(xs)):
        if x <= xs[k]:
            x0, x1, y0, y1 = xs[k - 1], xs[k], ys[k - 1], ys[k]
            if x == x1:
                return y1
            if x == x0:
                return y0
            return y0 + (y1 - y0) * ((x - x0) / (x1 - x0))
    return ys[-1]


def self_test():
    a, f = 6378137.0, 1 / 298.257223563
    b = a * (1 - f)
    worst = 0.0
    for lat_deg in (-89.99, -60.0, -0.3, 0.0, 12.5, 45.0, 89.9):
        for lon_deg in (-170.0, 0.0, 33.0, 275.0):
            for h in (-400.0, 0.0, 9000.0):
                lat, lon = math.radians(lat_deg), math.radians(lon_deg)
                p1 = geodetic_to_ecef(lat, lon, h, a, f)
                p2 = geodetic_to_ecef_N(lat, lon, h, a, f)
                worst = max(worst, float(np.linalg.norm(p1 - p2)))
                p0 = geodetic_to_ecef(lat, lon, 0.0, a, f)
                ell = (p0[0] ** 2 + p0[1] ** 2) / a**2 + p0[2] ** 2 / b**2
                assert abs(ell - 1) < 1e-14, ell
                east, north, up = enu(lat, lon)
                # gradient of the ellipsoid equation is parallel to `up`
                g = np.array([p0[0] / a**2, p0[1] / a**2, p0[2] / b**2])
                g /= np.linalg.norm(g)
                assert np.linalg.norm(g - up) < 1e-14
                assert abs(east @ north) < 1e-15 and abs(east @ up) < 1e-15 and abs(north @ up) < 1e-15
                assert np.linalg.norm(np.cross(east, north) - up) < 1e-15
                assert np.linalg.norm((p1 - p0) - h * up) < 2e-9
    assert worst < 5e-9, worst
    # rates: finite differences against the closed form
    lat, lon = math.radians(43.4), math.radians(1.5)
    s = geodetic_to_ecef(lat, lon, 180.0, a, f)
    tri = enu(lat, lon)
    p = from_topo(s, tri, 2.1, 0.4, 8e5)
    v = np.array([-3000.0, 5000.0, 4000.0])
    fd = topo_rates(s, tri, p, v)[:3]
    an = topo_rates_analytic(s, tri, p, v)
    for x, y in zip(fd, an):
        assert abs(x - y) <= 1e-9 * max(abs(y), 1e-3), (fd, an)
    assert abs(mask_value([1.0, TWO_PI], [0.2, 0.4], 0.5) - 0.3) < 1e-15
    return worst




# =====================================================================================
# Earth rotation, IAU 1976 precession, IAU 1980 nutation (short series), GMST-82, ERA.
# Written from the published formulas (Lieske 1977; Explanatory Supplement to the Astronomical
# Almanac 1992, 3.21 / 3.222; Meeus, Astronomical Algorithms ch. 12 and 22; Aoki 1982;
# IERS Conventions 2010 eq. 5.15) - nothing here is taken from beyond.
#
# Rotation matrices are the usual *passive* ones (coordinates of a fixed vector in axes turned
# by +a about the named axis).
# =====================================================================================

ARCSEC = math.pi / 648000.0
MJD_J2000 = 51544.5


def R1(a):
    c, s = math.cos(a), math.sin(a)
    return np.array([[1.0, 0.0, 0.0], [0.0, c, s], [0.0, -s, c]])


def R2(a):
    c, s = math.cos(a), math.sin(a)
    return np.array([[c, 0.0, -s], [0.0, 1.0, 0.0], [s, 0.0, c]])


def R3(a):
    c, s = math.cos(a), math.sin(a)
    return np.array([[c, s, 0.0], [-s, c, 0.0], [0.0, 0.0, 1.0]])


def centuries(mjd_day, sec):
    """Julian centuries from J2000.0 of the clock reading (integer MJD day, seconds of day)."""
    return ((mjd_day - 51544) - 0.5 + sec / 86400.0) / 36525.0


def precession_angles_iau76(T):
    """Lieske (1977) equatorial precession angles zeta_A, theta_A, z_A from J2000.0, radians (T in TT)."""
    zeta = (2306.2181 + (0.30188 + 0.017998 * T) * T) * T * ARCSEC
    theta = (2004.3109 - (0.42665 + 0.041833 * T) * T) * T * ARCSEC
    z = (2306.2181 + (1.09468 + 0.018203 * T) * T) * T * ARCSEC
    return zeta, theta, z


def precession_matrix_iau76(T):
    """P with  r(mean of date) = P r(J2000)  (Explanatory Supplement 3.21-8, written out)."""
    zeta, theta, z = precession_angles_iau76(T)
    cz, sz = math.cos(z), math.sin(z)
    ct, st_ = math.cos(theta), math.sin(theta)
    ca, sa = math.cos(zeta), math.sin(zeta)
    return np.array([
        [cz * ct * ca - sz * sa, -cz * ct * sa - sz * ca, -cz * st_],
        [sz * ct * ca + cz * sa, -sz * ct * sa + cz * ca, -sz * st_],
        [st_ * ca, -st_ * sa, ct],
    ])


def mean_obliquity_1980(T):
    return (84381.448 - (46.8150 + (0.00059 - 0.001813 * T) * T) * T) * ARCSEC


def delaunay_1980(T):
    """l (Moon anomaly), l' (Sun anomaly), F, D, Omega in radians (IAU 1980 theory; Meeus p. 144)."""
    l = 134.96298 + 477198.867398 * T + 0.0086972 * T * T + T**3 / 56250.0
    lp = 357.52772 + 35999.050340 * T - 0.0001603 * T * T - T**3 / 300000.0
    F = 93.27191 + 483202.017538 * T - 0.0036825 * T * T + T**3 / 327270.0
    D = 297.85036 + 445267.111480 * T - 0.0019142 * T * T + T**3 / 189474.0
    Om = 125.04452 - 1934.136261 * T + 0.0020708 * T * T + T**3 / 450000.0
    return tuple(math.radians(x % 360.0) for x in (l, lp, F, D, Om))


# (l, l', F, D, Om,  dpsi [0.0001"], dpsi rate [0.0001"/cy],  deps, deps rate): the 35 largest
# terms of the 1980 IAU theory of nutation (Seidelmann 1982; Meeus table 22.A).  The terms left
# out sum to < 0.022" in longitude.
NUT80 = [
    (0, 0, 0, 0, 1, -171996.0, -174.2, 92025.0, 8.9),
    (0, 0, 2, -2, 2, -13187.0, -1.6, 5736.0, -3.1),
    (0, 0, 2, 0, 2, -2274.0, -0.2, 977.0, -0.5),
    (0, 0, 0, 0, 2, 2062.0, 0.2, -895.0, 0.5),
    (0, 1, 0, 0, 0, 1426.0, -3.4, 54.0, -0.1),
    (1, 0, 0, 0, 0, 712.0, 0.1, -7.0, 0.0),
    (0, 1, 2, -2, 2, -517.0, 1.2, 224.0, -0.6),
    (0, 0, 2, 0, 1, -386.0, -0.4, 200.0, 0.0),
    (1, 0, 2, 0, 2, -301.0, 0.0, 129.0, -0.1),
    (0, -1, 2, -2, 2, 217.0, -0.5, -95.0, 0.3),
    (1, 0, 0, -2, 0, -158.0, 0.0, -1.0, 0.0),
    (0, 0, 2, -2, 1, 129.0, 0.1, -70.0, 0.0),
    (-1, 0, 2, 0, 2, 123.0, 0.0, -53.0, 0.0),
    (1, 0, 0, 0, 1, 63.0, 0.1, -33.0, 0.0),
    (0, 0, 0, 2, 0, 63.0, 0.0, -2.0, 0.0),
    (-1, 0, 2, 2, 2, -59.0, 0.0, 26.0, 0.0),
    (-1, 0, 0, 0, 1, -58.0, -0.1, 32.0, 0.0),
    (1, 0, 2, 0, 1, -51.0, 0.0, 27.0, 0.0),
    (2, 0, 0, -2, 0, 48.0, 0.0, 1.0, 0.0),
    (-2, 0, 2, 0, 1, 46.0, 0.0, -24.0, 0.0),
    (0, 0, 2, 2, 2, -38.0, 0.0, 16.0, 0.0),
    (2, 0, 2, 0, 2, -31.0, 0.0, 13.0, 0.0),
    (2, 0, 0, 0, 0, 29.0, 0.0, -1.0, 0.0),
    (1, 0, 2, -2, 2, 29.0, 0.0, -12.0, 0.0),
    (0, 0, 2, 0, 0, 26.0, 0.0, -1.0, 0.0),
    (0, 0, 2, -2, 0, -22.0, 0.0, 0.0, 0.0),
    (-1, 0, 2, 0, 1, 21.0, 0.0, -10.0, 0.0),
    (0, 2, 0, 0, 0, 17.0, -0.1, 0.0, 0.0),
    (0, 2, 2, -2, 2, -16.0, 0.1, 7.0, 0.0),
    (-1, 0, 0, 2, 1, 16.0, 0.0, -8.0, 0.0),
    (0, 1, 0, 0, 1, -15.0, 0.0, 9.0, 0.0),
    (1, 0, 0, -2, 1, -13.0, 0.0, 7.0, 0.0),
    (0, -1, 0, 0, 1, -12.0, 0.0, 6.0, 0.0),
    (2, 0, -2, 0, 0, 11.0, 0.0, 0.0, 0.0),
    (-1, 0, 2, 2, 1, -10.0, 0.0, 5.0, 0.0),
]
NUT80_OMITTED = 0.022 * ARCSEC


def nutation_1980_short(T, terms=None):
    """(delta psi, delta eps) in radians, T in TT centuries."""
    args = delaunay_1980(T)
    dpsi = deps = 0.0
    for row in (NUT80 if terms is None else NUT80[:terms]):
        a = sum(k * x for k, x in zip(row[:5], args))
        dpsi += (row[5] + row[6] * T) * math.sin(a)
        deps += (row[7] + row[8] * T) * math.cos(a)
    return dpsi * 1e-4 * ARCSEC, deps * 1e-4 * ARCSEC


def nutation_matrix_1980(T):
    """N with  r(true of date) = N r(mean of date)  (Explanatory Supplement 3.222-3)."""
    eps0 = mean_obliquity_1980(T)
    dpsi, deps = nutation_1980_short(T)
    return R1(-(eps0 + deps)) @ R3(-dpsi) @ R1(eps0)


def gmst82(mjd_day_ut1, sec_ut1):
    """Greenwich mean sidereal time (Aoki et al. 1982) in radians, in the form of Meeus 12.4:
    theta0 = 280.46061837 + 360.98564736629 (JD - 2451545) + 0.000387933 T^2 - T^3 / 38710000  [deg]."""
    d = (mjd_day_ut1 - 51544) - 0.5 + sec_ut1 / 86400.0
    T = d / 36525.0
    # 360.98564736629 d = 360 d + 0.98564736629 d : whole turns of 360 d are dropped before they cost digits
    deg = (280.46061837 + 360.0 * (d - math.floor(d)) + 0.98564736629 * d
           + 0.000387933 * T * T - T**3 / 38710000.0)
    return math.radians(deg % 360.0)


def equation_of_equinoxes_1980(T_tt, mjd_day):
    """Delta psi cos(mean obliquity); from 1997-02-27 (MJD 50506) on with the two complementary
    terms of IAU 1994 resolution C7  (+0.00264" sin Om + 0.000063" sin 2 Om)."""
    dpsi, _ = nutation_1980_short(T_tt)
    eqe = dpsi * math.cos(mean_obliquity_1980(T_tt))
    if mjd_day >= 50506:
        om = delaunay_1980(T_tt)[4]
        eqe += (0.00264 * math.sin(om) + 0.000063 * math.sin(2 * om)) * ARCSEC
    return eqe


def era2000(mjd_day_ut1, sec_ut1):
    """Earth rotation angle, IERS Conventions (2010) eq. 5.15 in its precision-preserving form:
    ERA = 2 pi (frac(Tu) + 0.7790572732640 + 0.00273781191135448 Tu),  Tu = JD(UT1) - 2451545.0."""
    tu_int = mjd_day_ut1 - 51544
    tu_frac = sec_ut1 / 86400.0 - 0.5
    tu = tu_int + tu_frac
    turns = tu_frac + 0.7790572732640 + 0.00273781191135448 * tu
    return TWO_PI * (turns - math.floor(turns))


def pole_axis(xp_arcsec, yp_arcsec):
    """Unit vector of the celestial pole of date in terrestrial (ITRF) components for pole
    coordinates x_p, y_p (y_p positive towards 90 deg W): (x_p, -y_p, 1) to first order."""
    x, y = xp_arcsec * ARCSEC, yp_arcsec * ARCSEC
    # exact: third row of R1(y) R2(x)  <=> z axis of the intermediate frame seen from ITRF
    v = np.array([math.sin(x) * math.cos(y), -math.sin(y), math.cos(x) * math.cos(y)])
    return v / np.linalg.norm(v)


def rotation_angle(R):
    """Angle of the rotation matrix R, accurate for small angles."""
    R = np.asarray(R, float)
    w = np.array([R[2, 1] - R[1, 2], R[0, 2] - R[2, 0], R[1, 0] - R[0, 1]]) / 2.0
    return math.atan2(float(np.linalg.norm(w)), (float(np.trace(R)) - 1.0) / 2.0)


def self_test_rotation():
    # J2000.0 itself: identity
    assert np.linalg.norm(precession_matrix_iau76(0.0) - np.eye(3)) < 1e-15
    T = 0.17
    P = precession_matrix_iau76(T)
    zeta, theta, z = precession_angles_iau76(T)
    assert np.linalg.norm(P - R3(-z) @ R2(theta) @ R3(-zeta)) < 1e-15
    assert np.linalg.norm(P @ P.T - np.eye(3)) < 1e-15
    # general precession in right ascension m = zeta + z ~ 4612.4"/cy: a J2000 equinox star gains RA
    ra = math.atan2(P[1, 0], P[0, 0])
    assert abs(ra - (zeta + z)) < 1e-6 and ra > 0
    # mean pole of date seen from J2000 moves towards +x (X ~ 2004" T)
    assert abs(P[2, 0] - 2004.3 * T * ARCSEC) < 2e-6
    # first-order nutation matrix (Expl. Suppl. 3.222-4)
    eps0 = mean_obliquity_1980(T)
    dpsi, deps = nutation_1980_short(T)
    N1 = np.array([[1, -dpsi * math.cos(eps0), -dpsi * math.sin(eps0)],
                   [dpsi * math.cos(eps0), 1, -deps],
                   [dpsi * math.sin(eps0), deps, 1]])
    assert np.linalg.norm(nutation_matrix_1980(T) - N1) < 1e-8
    assert abs(dpsi) < 20 * ARCSEC and abs(deps) < 10 * ARCSEC
    # Meeus example 22.a: 1987 April 10, 0h TD: dpsi = -3.788", deps = +9.443", eps0 = 23d26'27.407"
    T = centuries(46895, 0.0)
    dpsi, deps = nutation_1980_short(T)
    assert abs(dpsi / ARCSEC + 3.788) < 0.003, dpsi / ARCSEC
    assert abs(deps / ARCSEC - 9.443) < 0.003, deps / ARCSEC
    assert abs(mean_obliquity_1980(T) / ARCSEC - (23 * 3600 + 26 * 60 + 27.407)) < 0.001
    # Meeus example 12.a/12.b: 1987 April 10, 0h UT: GMST = 13h10m46.3668s ; 19h21m00s UT: 8h34m57.0896s
    g = gmst82(46895, 0.0) / TWO_PI * 86400.0
    assert abs(g - (13 * 3600 + 10 * 60 + 46.3668)) < 2e-4, g
    g = gmst82(46895, 19 * 3600 + 21 * 60) / TWO_PI * 86400.0
    assert abs(g - (8 * 3600 + 34 * 60 + 57.0896)) < 2e-4, g
    # GMST-82 and ERA differ by the accumulated IAU-76 precession in right ascension
    # zeta + z = 4612.4362" T + 1.39656" T^2 (both angles coincide at J2000.0)
    for day in (45000, 51544, 56000):
        T = centuries(day, 0.0)
        diff = angdiff(gmst82(day, 0.0), era2000(day, 0.0))
        want = (4612.4362 * T + 1.39656 * T * T) * ARCSEC
        assert abs(diff - want) < 5e-8, (day, diff, want)
    # ERA at J2000.0 (12h UT1) = 2 pi 0.7790572732640
    assert abs(era2000(51544, 43200.0) - TWO_PI * 0.7790572732640) < 1e-12
    return True


if __name__ == "__main__":
    print("geodetic forms agree to", self_test(), "m")
    print("rotation self-test", self_test_rotation())
