"""Independent graph reference code (no import of beyond): BFS, Pruefer decoding, enumeration of
labelled trees, free (unlabelled) trees and connected graphs up to isomorphism.

Vertices are 0..n-1, an edge is a pair (a, b); an *oriented* edge (a, b) means the history
executes `a + b` (the left operand is the one whose routes are refreshed first).
"""

import itertools
from collections import deque


def adjacency(n, edges):
    adj = [[] for _ in range(n)]
    for a, b in edges:
        adj[a].append(b)
        adj[b].append(a)
    return adj


def bfs_dist(adj, s):
    """List of distances from s (-1 = unreachable)."""
    dist = [-1] * len(adj)
    dist[s] = 0
    q = deque([s])
    while q:
        u = q.popleft()
        for v in adj[u]:
            if dist[v] < 0:
                dist[v] = dist[u] + 1
                q.append(v)
    return dist


def all_dist(adj):
    return [bfs_dist(adj, s) for s in range(len(adj))]


def is_connected(n, edges):
    return n <= 1 or min(bfs_dist(adjacency(n, edges), 0)) >= 0


def has_cycle(n, edges):
    """True if the (simple) graph is not a forest: some component has as many edges as vertices."""
    parent = list(range(n))

    def find(x):
        while parent[x] != x:
            parent[x] = parent[parent[x]]
            x = parent[x]
        return x

    for a, b in edges:
        ra, rb = find(a), find(b)
        if ra == rb:
            return True
        parent[ra] = rb
    return False


# ---------------------------------------------------------------- trees


def prufer_decode(seq, n):
    """Edges of the labelled tree on 0..n-1 with Pruefer sequence seq (length n-2)."""
    degree = [1] * n
    for v in seq:
        degree[v] += 1
    edges = []
    for v in seq:
        leaf = next(u for u in range(n) if degree[u] == 1)
        edges.append((leaf, v))
        degree[leaf] -= 1
        degree[v] -= 1
    u, w = [x for x in range(n) if degree[x] == 1]
    edges.append((u, w))
    return edges


def labelled_trees(n):
    """All n^(n-2) labelled trees on n >= 2 vertices, as edge lists, in Pruefer order."""
    if n == 2:
        yield [(0, 1)]
        return
    for seq in itertools.product(range(n), repeat=n - 2):
        yield prufer_decode(seq, n)


def _ahu(adj, root, parent):
    return "(" + "".join(sorted(_ahu(adj, c, root) for c in adj[root] if c != parent)) + ")"


def tree_canon(n, edges):
    """Canonical string of a free tree: AHU code rooted at its centre (smaller code of the two)."""
    adj = adjacency(n, edges)
    deg = [len(a) for a in adj]
    leaves = [v for v in range(n) if deg[v] <= 1]
    left = n
    while left > 2:
        left -= len(leaves)
        nxt = []
        for v in leaves:
            for w in adj[v]:
                deg[w] -= 1
                if deg[w] == 1:
                    nxt.append(w)
        leaves = nxt
    return min(_ahu(adj, c, -1) for c in leaves)


def free_trees(n):
    """One representative (edge list) of every tree on n vertices up to isomorphism.  Every tree
    has a labelling in which each vertex > 0 is attached to a smaller one: enumerate those parent
    arrays and keep one per canonical form.  Counts: 1, 1, 1, 2, 3, 6, 11, 23 for n = 1..8."""
    seen = {}
    for parents in itertools.product(*[range(i) for i in range(1, n)]):
        edges = [(p, i + 1) for i, p in enumerate(parents)]
        seen.setdefault(tree_canon(n, edges), edges)
    return [seen[k] for k in sorted(seen)]


# ---------------------------------------------------------------- graphs


def graph_canon(n, edges):
    """Canonical form of a small graph: smallest sorted edge list over all relabellings (n <= 6)."""
    best = None
    for perm in itertools.permutations(range(n)):
        e = tuple(sorted(tuple(sorted((perm[a], perm[b]))) for a, b in edges))
        if best is None or e < best:
            best = e
    return best


def connected_graphs(n):
    """One representative of every connected simple graph on n vertices up to isomorphism
    (1, 1, 2, 6, 21 for n = 1..5; 112 for n = 6)."""
    pairs = list(itertools.combinations(range(n), 2))
    seen = {}
    for m in range(n - 1, len(pairs) + 1):
        for es in itertools.combinations(pairs, m):
            if not is_connected(n, es):
                continue
            # cheap invariant first
            deg = [0] * n
            for a, b in es:
                deg[a] += 1
                deg[b] += 1
            key = (m, tuple(sorted(deg)))
            bucket = seen.setdefault(key, {})
            c = graph_canon(n, es)
            bucket.setdefault(c, list(es))
    return [g for key in sorted(seen) for _, g in sorted(seen[key].items())]


def nth_permutation(items, k):
    """k-th permutation of items in lexicographic order (k in [0, len!))."""
    items = list(items)
    out = []
    fact = 1
    for i in range(2, len(items)):
        fact *= i
    # fact = (len-1)!
    for i in range(len(items) - 1, 0, -1):
        q, k = divmod(k, fact)
        out.append(items.pop(q))
        fact //= i
    out.append(items.pop(0))
    return out
