"""Independent reference for Hill's (Clohessy-Wiltshire) equations of relative motion (no beyond).

Target on a circular orbit of mean motion n.  In the QSW triad (x = Q radial outwards,
y = S along-track, z = W along the orbital angular momentum) the linearised relative motion is

    x'' = 3 n^2 x + 2 n y' + a_x
    y'' =          - 2 n x' + a_y
    z'' = - n^2 z           + a_z

In the TNW triad (T along the velocity = S, N = -Q so that T x N = W, W) the coordinates are
(t, v, w) = (y, -x, z) and the same equations read

    t'' =            2 n v' + a_t
    v'' = 3 n^2 v  - 2 n t' + a_v
    w'' = - n^2 w           + a_w

With X = (position, velocity), X' = A X + B a.  The solution for constant a is
X(t) = Phi(t) X0 + Gamma(t) a with [[Phi, Gamma], [0, I]] = expm([[A, B], [0, 0]] t): the matrix
exponential is computed here by scaling and squaring of a Taylor series in extended precision, on
the non-dimensional system (time in units of 1/n, velocities divided by n, accelerations by n^2),
so nothing of the textbook closed form enters the oracle.
"""

import numpy as np

LD = np.longdouble

# components of a TNW vector from those of the same vector in QSW: T = S, N = -Q, W = W
QSW2TNW = np.array([[0.0, 1.0, 0.0], [-1.0, 0.0, 0.0], [0.0, 0.0, 1.0]])


def perm6(orientation):
    """6x6 matrix taking a QSW state (position, velocity) to the given orientation."""
    m = np.identity(3) if orientation == "QSW" else QSW2TNW
    out = np.zeros((6, 6))
    out[:3, :3] = m
    out[3:, 3:] = m
    return out


def unit_system(orientation="QSW"):
    """Non-dimensional augmented generator M (9x9) of d/dtau [X; a] with tau = n t."""
    if orientation == "QSW":
        K = np.diag([3.0, 0.0, -1.0])
    elif orientation == "TNW":
        K = np.diag([0.0, 3.0, -1.0])
    else:
        raise ValueError(orientation)
    C = np.array([[0.0, 2.0, 0.0], [-2.0, 0.0, 0.0], [0.0, 0.0, 0.0]])
    M = np.zeros((9, 9))
    M[0:3, 3:6] = np.identity(3)
    M[3:6, 0:3] = K
    M[3:6, 3:6] = C
    M[3:6, 6:9] = np.identity(3)
    return M


def A_matrix(n, orientation="QSW"):
    """Dimensional 6x6 A of X' = A X + B a."""
    M = unit_system(orientation)
    A = np.zeros((6, 6))
    A[0:3, 3:6] = np.identity(3)
    A[3:6, 0:3] = M[3:6, 0:3] * n * n
    A[3:6, 3:6] = M[3:6, 3:6] * n
    return A


def B_matrix():
    B = np.zeros((6, 3))
    B[3:, :] = np.identity(3)
    return B


def expm(M, terms=30):
    """Matrix exponential by scaling and squaring of the Taylor series (extended precision)."""
    M = np.asarray(M, LD)
    norm = float(np.abs(M).sum(axis=0).max())
    s = 0
    while norm > 0.5:
        norm /= 2
        s += 1
    Ms = M / LD(2) ** s
    E = np.identity(M.shape[0], dtype=LD)
    term = np.identity(M.shape[0], dtype=LD)
    for k in range(1, terms + 1):
        term = term @ Ms / LD(k)
        E = E + term
    for _ in range(s):
        E = E @ E
    return E


def transition(n, t, orientation="QSW"):
    """(Phi 6x6, Gamma 6x3) over a duration t (seconds, either sign), as float64 arrays."""
    E = expm(unit_system(orientation) * LD(n) * LD(t))
    n_l = LD(n)
    # undo the non-dimensionalisation: X = diag(1, n) X', a = n^2 a'
    d = np.array([1, 1, 1, n_l, n_l, n_l], LD)
    Phi = E[:6, :6] * d[:, None] / d[None, :]
    Gamma = E[:6, 6:9] * d[:, None] / (n_l * n_l)
    return Phi, Gamma


def advance(n, X, t, accel=None, orientation="QSW"):
    """State after t seconds of free (or constantly thrusting) motion, extended precision."""
    Phi, Gamma = transition(n, t, orientation)
    out = Phi @ np.asarray(X, LD)
    if accel is not None:
        out = out + Gamma @ np.asarray(accel, LD)
    return out


def piecewise(n, X0, events, t, orientation="QSW"):
    """State at time t (s after the epoch of X0) through a chronological list of events

        dict(kind="imp", t=.., dv=[3])                 applied once for every t >= its date
        dict(kind="cont", t0=.., t1=.., accel=[3])     thrust on [t0, t1)

    all dated after the epoch and not overlapping (touching is fine).  For t before the epoch
    no event applies.  Returns (state as float64, scale) where scale is the largest
    |r| + |v|/n + |a|/n^2 met on the way (for tolerances).
    """
    X = np.asarray(X0, LD)
    now = 0.0
    scale = _scale(n, X, None)
    for ev in events:
        if ev["kind"] == "imp":
            if t >= ev["t"]:
                X = advance(n, X, ev["t"] - now, None, orientation)
                now = ev["t"]
                X = X.copy()
                X[3:] += np.asarray(ev["dv"], LD)
                scale = max(scale, _scale(n, X, None))
        else:
            if t >= ev["t0"]:
                X = advance(n, X, ev["t0"] - now, None, orientation)
                now = ev["t0"]
                scale = max(scale, _scale(n, X, ev["accel"]))
                end = min(t, ev["t1"])
                X = advance(n, X, end - now, ev["accel"], orientation)
                now = end
                scale = max(scale, _scale(n, X, ev["accel"]))
                if t < ev["t1"]:
                    return np.asarray(X, float), scale
    X = advance(n, X, t - now, None, orientation)
    scale = max(scale, _scale(n, X, None))
    return np.asarray(X, float), scale


def _scale(n, X, accel):
    X = np.asarray(X, float)
    s = float(np.linalg.norm(X[:3]) + np.linalg.norm(X[3:]) / n)
    if accel is not None:
        s += float(np.linalg.norm(np.asarray(accel, float))) / (n * n)
    return s


def rk4(n, X0, t, accel=None, orientation="QSW", steps=4000):
    """Plain RK4 integration of X' = A X + B a - only used to self-test expm/transition."""
    A = A_matrix(n, orientation)
    b = B_matrix() @ (np.zeros(3) if accel is None else np.asarray(accel, float))
    h = t / steps
    X = np.asarray(X0, float)
    f = lambda x: A @ x + b
    for _ in range(steps):
        k1 = f(X)
        k2 = f(X + h / 2 * k1)
        k3 = f(X + h / 2 * k2)
        k4 = f(X + h * k3)
        X = X + h / 6 * (k1 + 2 * k2 + 2 * k3 + k4)
    return X


def superpose(n, X0, events, t, orientation="QSW"):
    """State at t when maneuvers may overlap (an impulse during a thrust arc, two arcs at once).

    The system is linear, so the response is the free motion of X0 plus, independently for every
    maneuver that has started by t, the free motion of what that maneuver injected:
        impulse at tm <= t:   Phi(t - tm) [0; dv]
        arc [t0, t1), t0 <= t: Phi(t - te) Gamma(te - t0) a   with te = min(t, t1).
    Returns (state as float64, scale) like `piecewise`.
    """
    X = advance(n, X0, t, None, orientation)
    scale = _scale(n, X0, None)
    for ev in events:
        if ev["kind"] == "imp":
            if t >= ev["t"]:
                kick = np.concatenate([np.zeros(3), np.asarray(ev["dv"], float)])
                X = X + advance(n, kick, t - ev["t"], None, orientation)
                scale += _scale(n, kick, None)
        elif t >= ev["t0"]:
            te = min(t, ev["t1"])
            forced = advance(n, np.zeros(6), te - ev["t0"], ev["accel"], orientation)
            scale += _scale(n, np.asarray(forced, float), ev["accel"])
            X = X + advance(n, forced, t - te, None, orientation)
    scale = max(scale, _scale(n, np.asarray(X, float), None))
    return np.asarray(X, float), scale
