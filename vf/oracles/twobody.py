"""Independent two-body reference code (no import of beyond).

Vector formulas (h, node vector, eccentricity vector) for cartesian <-> elements, Kepler's
equation by safeguarded Newton/bisection, universal-variable propagation with Stumpff
functions.  Everything in SI units, angles in radians.
"""

import math

import numpy as np

TWO_PI = 2 * math.pi


def kep2cart(a, e, i, raan, argp, nu, mu):
    """Perifocal construction + 3-1-3 rotation."""
    p = a * (1 - e * e)
    r = p / (1 + e * math.cos(nu))
    rp = np.array([r * math.cos(nu), r * math.sin(nu), 0.0])
    k = math.sqrt(mu / p)
    vp = np.array([-k * math.sin(nu), k * (e + math.cos(nu)), 0.0])
    cO, sO = math.cos(raan), math.sin(raan)
    cw, sw = math.cos(argp), math.sin(argp)
    ci, si = math.cos(i), math.sin(i)
    R = np.array(
        [
            [cO * cw - sO * sw * ci, -cO * sw - sO * cw * ci, sO * si],
            [sO * cw + cO * sw * ci, -sO * sw + cO * cw * ci, -cO * si],
            [sw * si, cw * si, ci],
        ]
    )
    return np.concatenate([R @ rp, R @ vp])


def solve_kepler_E(M, e):
    """E - e sin E = M (any real M; E has the same winding as M)."""
    k = math.floor(M / TWO_PI + 0.5)
    m = M - k * TWO_PI  # [-pi, pi]
    lo, hi = -math.pi, math.pi
    E = m + (e if m >= 0 else -e) * 0.85
    for _ in range(200):
        f = E - e * math.sin(E) - m
        if f > 0:
            hi = min(hi, E)
        else:
            lo = max(lo, E)
        d = 1 - e * math.cos(E)
        En = E - f / d
        if not (lo <= En <= hi):
            En = 0.5 * (lo + hi)
        if abs(En - E) <= 1e-16 * max(1.0, abs(E)):
            E = En
            break
        E = En
    else:
        if abs(E - e * math.sin(E) - m) > 1e-13:
            raise ArithmeticError("oracle Kepler solver (E) did not converge")
    return E + k * TWO_PI


def solve_kepler_H(M, e):
    """e sinh H - H = M."""
    # bracket
    s = 1.0 if M >= 0 else -1.0
    m = abs(M)
    lo, hi = 0.0, 1.0
    while e * math.sinh(hi) - hi < m:
        hi *= 2
    H = math.asinh(m / e) if e > 1 else hi  # good start for large m
    H = min(max(H, lo), hi)
    for _ in range(300):
        f = e * math.sinh(H) - H - m
        if f > 0:
            hi = min(hi, H)
        else:
            lo = max(lo, H)
        d = e * math.cosh(H) - 1
        Hn = H - f / d
        if not (lo <= Hn <= hi):
            Hn = 0.5 * (lo + hi)
        if abs(Hn - H) <= 1e-16 * max(1.0, abs(H)):
            H = Hn
            break
        H = Hn
    else:
        if abs(e * math.sinh(H) - H - m) > 1e-13 * max(1.0, m):
            raise ArithmeticError("oracle Kepler solver (H) did not converge")
    return s * H


def E2nu(E, e):
    """True anomaly with the same winding as E."""
    b = e / (1 + math.sqrt(1 - e * e))
    return E + 2 * math.atan2(b * math.sin(E), 1 - b * math.cos(E))


def nu2E(nu, e):
    b = e / (1 + math.sqrt(1 - e * e))
    return nu - 2 * math.atan2(b * math.sin(nu), 1 + b * math.cos(nu))


def H2nu(H, e):
    return 2 * math.atan(math.sqrt((e + 1) / (e - 1)) * math.tanh(H / 2))


def nu2H(nu, e):
    return 2 * math.atanh(math.sqrt((e - 1) / (e + 1)) * math.tan(nu / 2))


def cart2elements(rv, mu):
    """All textbook elements from a cartesian state, by vector formulas.  Returns dict."""
    r = np.asarray(rv[:3], float)
    v = np.asarray(rv[3:], float)
    rn = float(np.linalg.norm(r))
    vn = float(np.linalg.norm(v))
    h = np.cross(r, v)
    hn = float(np.linalg.norm(h))
    energy = vn * vn / 2 - mu / rn
    a = -mu / (2 * energy)
    evec = np.cross(v, h) / mu - r / rn
    e = float(np.linalg.norm(evec))
    inc = math.atan2(math.hypot(h[0], h[1]), h[2])
    nvec = np.array([-h[1], h[0], 0.0])  # z x h
    nn = float(np.linalg.norm(nvec))
    raan = math.atan2(nvec[1], nvec[0]) % TWO_PI
    # argument of perigee: angle from node vector to e-vector about h
    hhat = h / hn
    nhat = nvec / nn
    argp = math.atan2(float(np.dot(np.cross(nhat, evec), hhat)), float(np.dot(nhat, evec))) % TWO_PI
    nu = math.atan2(float(np.dot(np.cross(evec, r), hhat)), float(np.dot(evec, r))) % TWO_PI
    u = math.atan2(float(np.dot(np.cross(nhat, r), hhat)), float(np.dot(nhat, r))) % TWO_PI
    out = dict(a=a, e=e, i=inc, raan=raan, argp=argp, nu=nu, u=u, h=hn, energy=energy, r=rn, v=vn,
               rdotv=float(np.dot(r, v)))
    if e < 1:
        E = nu2E(nu, e) % TWO_PI
        out["E"] = E
        out["M"] = (E - e * math.sin(E)) % TWO_PI
        out["n"] = math.sqrt(mu / a**3)
    else:
        nus = (nu + math.pi) % TWO_PI - math.pi
        H = nu2H(nus, e)
        out["E"] = H
        out["M"] = e * math.sinh(H) - H
        out["n"] = math.sqrt(mu / abs(a) ** 3)
    return out


def stumpff(z):
    if z > 1e-6:
        s = math.sqrt(z)
        return (1 - math.cos(s)) / z, (s - math.sin(s)) / (s * s * s)
    if z < -1e-6:
        s = math.sqrt(-z)
        return (math.cosh(s) - 1) / (-z), (math.sinh(s) - s) / (s * s * s)
    return (0.5 - z / 24 + z * z / 720, 1 / 6 - z / 120 + z * z / 5040)


def _rtsafe(F, dF, lo, hi):
    """Root of the increasing function F in [lo, hi]: Newton, bisection whenever Newton leaves the
    bracket or fails to halve the step (Numerical Recipes' rtsafe).  Raises if not converged."""
    x = 0.5 * (lo + hi)
    dxold = hi - lo
    dx = dxold
    f = F(x)
    if f < 0:
        lo = x
    else:
        hi = x
    for _ in range(5000):
        df = dF(x) if math.isfinite(f) else math.inf
        if (not math.isfinite(f)) or ((x - hi) * df - f) * ((x - lo) * df - f) > 0 or abs(2 * f) > abs(dxold * df):
            dxold = dx
            dx = 0.5 * (hi - lo)
            xn = lo + dx
        else:
            dxold = dx
            dx = f / df
            xn = x - dx
        if xn == x or abs(xn - x) <= 4e-16 * max(1.0, abs(x)):
            return xn
        x = xn
        f = F(x)
        if f < 0:
            lo = x
        else:
            hi = x
    raise ArithmeticError("oracle root finder did not converge")


def propagate_uv(rv, dt, mu):
    """Universal-variable two-body propagation (Bate-Mueller-White / Curtis), bisection-safe."""
    r0 = np.asarray(rv[:3], float)
    v0 = np.asarray(rv[3:], float)
    if dt == 0:
        return np.concatenate([r0, v0])
    r0n = float(np.linalg.norm(r0))
    v0n2 = float(np.dot(v0, v0))
    vr0 = float(np.dot(r0, v0)) / r0n
    alpha = 2 / r0n - v0n2 / mu  # 1/a
    sm = math.sqrt(mu)

    def F(chi):
        z = alpha * chi * chi
        try:
            C, S = stumpff(z)
            val = r0n * vr0 / sm * chi * chi * C + (1 - alpha * r0n) * chi**3 * S + r0n * chi - sm * dt
        except OverflowError:  # far beyond the root on a hyperbola (F is monotonic increasing)
            val = math.nan
        if not math.isfinite(val):
            return math.inf if chi > 0 else -math.inf
        return val

    def dF(chi):
        z = alpha * chi * chi
        C, S = stumpff(z)
        return r0n * vr0 / sm * chi * (1 - z * S) + (1 - alpha * r0n) * chi * chi * C + r0n

    # F is monotonic increasing in chi (dF = r > 0): bracket then safeguarded Newton
    sgn = 1.0 if dt > 0 else -1.0
    step = sm * abs(alpha) * abs(dt) if alpha != 0 else 1.0
    step = max(step, 1.0)
    lo, hi = (0.0, step) if sgn > 0 else (-step, 0.0)
    if sgn > 0:
        while F(hi) < 0:
            lo = hi
            hi *= 2
    else:
        while F(lo) > 0:
            hi = lo
            lo *= 2
    chi = _rtsafe(F, dF, lo, hi)
    z = alpha * chi * chi
    C, S = stumpff(z)
    f = 1 - chi * chi / r0n * C
    g = dt - chi**3 / sm * S
    r = f * r0 + g * v0
    rn = float(np.linalg.norm(r))
    fd = sm / (rn * r0n) * (alpha * chi**3 * S - chi)
    gd = 1 - chi * chi / rn * C
    v = fd * r0 + gd * v0
    return np.concatenate([r, v])


def propagate_elements(rv, dt, mu):
    """Second independent route: advance the mean anomaly of the oracle elements."""
    el = cart2elements(rv, mu)
    a, e = el["a"], el["e"]
    if e < 1:
        M = el["M"] + el["n"] * dt
        nu = E2nu(solve_kepler_E(M, e), e)
    else:
        M = el["M"] + el["n"] * dt
        nu = H2nu(solve_kepler_H(M, e), e)
    return kep2cart(a, e, el["i"], el["raan"], el["argp"], nu, mu)


def angdiff(a, b):
    """Signed smallest difference a-b modulo 2 pi."""
    return (a - b + math.pi) % TWO_PI - math.pi
