"""Bit-exact snapshots ("shadows") of StateVector / Orbit objects and the documented name tables (C15).

``snap(o)`` reads everything that rides along the six numbers into plain python values; two snapshots are
equal iff the objects are indistinguishable for a user: array bytes, form / frame by name, date, free
metadata, maneuver list contents, covariance bytes + frame, propagator class.  No method of the object is
called that could compute or cache anything (``_data`` is read directly; the ``cov`` / ``maneuvers`` getters
insert default keys, which is why an absent key, ``None`` and ``[]`` are the same thing here).

The parameter names and aliases below are copied from the documentation of beyond.orbits.forms (docstrings
of the forms), not from ``Form.alt`` / ``param_names``.
"""

import json

import numpy as np

# documented order of the parameters of each form
FORM_PARAMS = {
    "cartesian": ["x", "y", "z", "vx", "vy", "vz"],
    "spherical": ["r", "θ", "φ", "r_dot", "θ_dot", "φ_dot"],
    "cylindrical": ["r", "θ", "z", "r_dot", "θ_dot", "vz"],
    "keplerian": ["a", "e", "i", "Ω", "ω", "ν"],
    "keplerian_eccentric": ["a", "e", "i", "Ω", "ω", "E"],
    "keplerian_mean": ["a", "e", "i", "Ω", "ω", "M"],
    "keplerian_circular": ["a", "ex", "ey", "i", "Ω", "u"],
    "keplerian_mean_circular": ["a", "ex", "ey", "i", "Ω", "α"],
    "equinoctial": ["a", "ex", "ey", "ix", "iy", "l"],
    "tle": ["i", "Ω", "e", "ω", "M", "n"],
}
# documented aliases
ALIASES = {
    "θ": ["theta"], "φ": ["phi"], "Ω": ["Omega", "raan"], "ω": ["omega"], "ν": ["nu"],
    "θ_dot": ["theta_dot"], "φ_dot": ["phi_dot"], "u": ["aol"], "E": ["H"],
    "vx": ["x_dot"], "vy": ["y_dot"], "vz": ["z_dot"], "α": ["alpha", "maol"],
}
# components that are angles defined modulo 2 pi
ANGLE_IDX = {
    "cartesian": (), "spherical": (1,), "cylindrical": (1,), "keplerian": (3, 4, 5), "keplerian_eccentric": (3, 4, 5),
    "keplerian_mean": (3, 4, 5), "keplerian_circular": (4, 5), "keplerian_mean_circular": (4, 5),
    "equinoctial": (5,), "tle": (1, 3, 4),
}
ALL_NAMES = sorted({n for p in FORM_PARAMS.values() for n in p} | {a for v in ALIASES.values() for a in v})

RESERVED = ("date", "form", "frame", "cov", "maneuvers", "propagator", "infos")


def names_of(form):
    """[(index, [name, alias, ...])] for a form"""
    return [(k, [n] + ALIASES.get(n, [])) for k, n in enumerate(FORM_PARAMS[form])]


def foreign_names(form):
    """names and aliases that belong to other forms only"""
    own = {x for _, ns in names_of(form) for x in ns}
    return [n for n in ALL_NAMES if n not in own]


def canon(v):
    if isinstance(v, np.ndarray):
        v = v.tolist()
    try:
        return json.dumps(v, sort_keys=True)
    except TypeError:
        return repr(v)


def date_fp(d):
    return (int(d._d), float(d._s).hex(), d.scale.name)


def man_fp(m):
    fp = [type(m).__name__, date_fp(m.date), np.asarray(m._dv, float).tobytes().hex(), m.frame, m.comment]
    return tuple(fp)


def _name(x):
    return x if isinstance(x, str) or x is None else x.name


def cov_fp(cov):
    if cov is None:
        return None
    try:
        frame = _name(cov._data["frame"])
    except AttributeError:
        frame = "<no _data>"
    return (frame, np.array(cov, dtype=float).tobytes().hex())


def prop_fp(p):
    """class of the propagator and, for the numerical one, its settings (they are part of the orbit)"""
    name = type(p).__name__
    if name == "KeplerNum":
        bodies = ",".join(getattr(b, "name", str(b)) for b in p.bodies)
        return f"KeplerNum(step={p.step.total_seconds():g},method={p.method},frame={_name(p.frame)},tol={p.tol:g},bodies={bodies})"
    return name


def snap(o):
    d = o._data
    mans = d.get("maneuvers") or []
    if not isinstance(mans, (list, tuple)):
        mans = [mans]
    return dict(
        cls=type(o).__name__,
        coords=np.array(o, dtype=float).tobytes().hex(),
        form=d["form"].name,
        frame=d["frame"].name,
        date=date_fp(d["date"]),
        meta={k: canon(v) for k, v in d.items() if k not in RESERVED},
        mans=[man_fp(m) for m in mans],
        cov=cov_fp(d.get("cov")),
        prop=prop_fp(d["propagator"]) if "propagator" in d else "<none>",
    )


def coords_of(s):
    return np.frombuffer(bytes.fromhex(s["coords"]), dtype=float)


def cov_of(s):
    return np.frombuffer(bytes.fromhex(s["cov"][1]), dtype=float).reshape(6, 6)


def hexof(arr):
    return np.asarray(arr, dtype=float).tobytes().hex()


def diff(a, b):
    """fields in which two snapshots differ -> list of (field, text)"""
    out = []
    for k in ("cls", "form", "frame", "date", "prop"):
        if a[k] != b[k]:
            out.append((k, f"{k}: {a[k]!r} -> {b[k]!r}"))
    if a["coords"] != b["coords"]:
        out.append(("coords", f"coords: {coords_of(a).tolist()} -> {coords_of(b).tolist()}"))
    if a["meta"] != b["meta"]:
        keys = sorted(set(a["meta"]) | set(b["meta"]))
        ch = [f"{k}: {a['meta'].get(k, '<absent>')} -> {b['meta'].get(k, '<absent>')}" for k in keys
              if a["meta"].get(k) != b["meta"].get(k)]
        out.append(("meta", "metadata " + "; ".join(ch)))
    if a["mans"] != b["mans"]:
        out.append(("mans", f"maneuvers: {len(a['mans'])} -> {len(b['mans'])} entries or different contents"))
    if a["cov"] != b["cov"]:
        if a["cov"] is None or b["cov"] is None:
            out.append(("cov", f"covariance {'lost' if b['cov'] is None else 'appeared'}"))
        elif a["cov"][0] != b["cov"][0]:
            out.append(("cov", f"covariance frame {a['cov'][0]} -> {b['cov'][0]}"))
        else:
            d = np.abs(cov_of(a) - cov_of(b))
            out.append(("cov", f"covariance values differ (max |d| = {np.nanmax(d):.3g})"))
    return out


def rel_err(got, want, floor=1.0, angles=()):
    """max over components of |got - want| / max(|want|, floor_k); NaN-safe (NaN only equals NaN);
    components listed in ``angles`` are compared modulo 2 pi, absolutely"""
    got = np.asarray(got, float).ravel()
    want = np.asarray(want, float).ravel()
    fl = np.broadcast_to(np.asarray(floor, float), want.shape)
    worst = 0.0
    for k, (g, w, f) in enumerate(zip(got, want, fl)):
        if k in angles and np.isfinite(g) and np.isfinite(w):
            d = (g - w) % (2 * np.pi)
            worst = max(worst, min(d, 2 * np.pi - d))
            continue
        if np.isnan(w) and np.isnan(g):
            continue
        if not (np.isfinite(g) and np.isfinite(w)):
            if g == w:
                continue
            return float("inf")
        worst = max(worst, abs(g - w) / max(abs(w), f))
    return worst


def cov_err(got, want):
    """max |got_ij - want_ij| / sqrt(want_ii want_jj): error of each term in units of its own sigmas"""
    got = np.asarray(got, float).reshape(6, 6)
    want = np.asarray(want, float).reshape(6, 6)
    if not (np.all(np.isfinite(got)) and np.all(np.isfinite(want))):
        return 0.0 if np.array_equal(got, want, equal_nan=True) else float("inf")
    sig = np.sqrt(np.abs(np.diag(want)))
    scale = np.outer(sig, sig)
    scale[scale == 0] = np.max(scale) or 1.0
    return float(np.max(np.abs(got - want) / scale))
