"""Structural equality of the objects a CCSDS message carries, to the precisions the formats write.

``describe(obj, typ)`` reads the plain attributes of a StateVector / Orbit / Ephem / list of Ephem /
MeasureSet into a nested dict of python values; ``diff(want, got, tol)`` lists every field that differs as
``(field, message)``.  ``snapshot(obj)`` is the bit-exact variant used for "the object handed to dumps is
untouched".  No function of beyond.io is called here.

Written precisions (from the format strings of the Blue Book examples the writers follow):
  epochs            %Y-%m-%dT%H:%M:%S.%f        1 us
  OPM / OEM-XML     0.6f km, km/s               1 mm, 1 mm/s     (half a unit = 0.5 mm)
  OEM-KVN           ' 10f' km, km/s             1 mm, 1 mm/s     (width 10, default 6 decimals)
  covariance        0.12e                       13 significant digits (5e-13 relative)
  maneuver          0.3f s, .6f km/s            1 ms, 1 mm/s
  OMM               n 8 dec rev/day, e 7 dec, angles 4 dec deg, bstar 9 dec, ndot/2 8 dec, ndotdot/6 1 dec
  TDM               range .6f km, angles .2f deg, doppler .6f
"""

import math

import numpy as np

NA = "N/A"
EPS = 2.3e-16
HALF = 0.5 * (1 + 1e-9)  # half a unit of the last written digit

# coordinate resolution (m, m/s) by (message type, format)
COORD_RES = {("opm", "kvn"): 1e-3, ("opm", "xml"): 1e-3, ("oem", "kvn"): 1e-3, ("oem", "xml"): 1e-3}
LOCAL_ALIAS = {"RSW": "QSW", "RTN": "QSW"}  # documented aliases of the radial / along / cross frame


class Tol:
    """Tolerances for one comparison; ``coord`` = resolution of the coarser encoding involved."""

    def __init__(self, coord=1e-3, epoch=1e-6):
        self.coord = coord
        self.epoch = epoch
        self.worst = 0.0

    def see(self, err, tol):
        r = err / tol if tol > 0 else (0.0 if err == 0 else float("inf"))
        if not math.isfinite(r):
            r = float("inf")
        self.worst = max(self.worst, r)
        return r <= 1.0


# ------------------------------------------------------------------ describe


def _frame_name(fr):
    if fr is None:
        return None
    if isinstance(fr, str):
        return fr
    return fr.name


def _epoch(date):
    # TAI-referenced day / seconds as stored + the label
    return dict(d=int(date._d), s=float(date._s), scale=date.scale.name)


def _cov(sv):
    cov = sv.cov
    if cov is None:
        return None
    return dict(frame=_frame_name(cov.frame), values=np.array(cov.base, float).reshape(6, 6).copy())


def _man(m):
    from beyond.orbits.man import ContinuousMan

    if isinstance(m, ContinuousMan):
        return dict(kind="continuous", epoch=_epoch(m.start), duration=m.duration.total_seconds(),
                    dv=[float(x) for x in m._dv], frame=m.frame, comment=m.comment)
    return dict(kind="impulsive", epoch=_epoch(m.date), duration=0.0, dv=[float(x) for x in m._dv],
                frame=m.frame, comment=m.comment)


def _attr(obj, name, default=NA):
    try:
        v = getattr(obj, name)
    except AttributeError:
        return default
    return v


def describe_state(sv, coords=True):
    d = dict(
        epoch=_epoch(sv.date),
        frame=sv.frame.name, center=sv.frame.center.name, orientation=sv.frame.orientation.name,
        name=_attr(sv, "name"), cospar_id=_attr(sv, "cospar_id"),
        cov=_cov(sv),
        mans=[_man(m) for m in sv.maneuvers],
        user=dict(sv._data.get("ccsds_user_defined", {})),
    )
    if coords:
        d["cart"] = np.array(sv.copy(form="cartesian").base, float)
    return d


def describe_omm(orb):
    d = describe_state(orb, coords=False)
    if orb.form.name != "tle":
        raise ValueError("an OMM orbit is in TLE form")
    d["elements"] = [float(x) for x in np.asarray(orb.base, float)]  # i, raan, e, argp, M, n
    for k in ("bstar", "ndot", "ndotdot"):
        d[k] = float(getattr(orb, k))
    for k in ("norad_id", "element_nb", "revolutions"):
        d[k] = int(getattr(orb, k))
    # classification / ephemeris type: carried by the Tle object or by the reader's keyword names
    tle = orb._data.get("tle")
    d["classification"] = orb._data.get("classification_type", tle.classification if tle is not None else None)
    d["ephemeris_type"] = orb._data.get("ephemeris_type", tle.type if tle is not None else None)
    return d


def describe_ephem(eph):
    pts = [describe_state(p) for p in eph]
    return dict(name=_attr(eph, "name"), cospar_id=_attr(eph, "cospar_id"), method=str(eph.method).lower(),
                order=int(eph.order), points=pts)


def describe_oem(obj):
    from beyond.orbits import Ephem

    if isinstance(obj, Ephem):
        obj = [obj]
    return dict(ephems=[describe_ephem(e) for e in obj])


def describe_tdm(obj):
    """Measures grouped by path in order of first appearance (a TDM holds one segment per path)."""
    from beyond.utils.measures import MeasureSet

    sets = [obj] if isinstance(obj, MeasureSet) else list(obj)
    groups = {}
    for s in sets:
        for m in s:
            groups.setdefault(tuple(m.path), []).append(
                dict(kind=type(m).__name__, epoch=_epoch(m.date), value=float(m.value)))
    return dict(groups=[dict(path=list(p), measures=ms) for p, ms in groups.items()])


def describe(obj, typ):
    if typ == "opm":
        from beyond.orbits import StateVector

        if not isinstance(obj, StateVector):
            raise TypeError(f"OPM decodes to a StateVector, got {type(obj).__name__}")
        return describe_state(obj)
    if typ == "omm":
        return describe_omm(obj)
    if typ == "oem":
        return describe_oem(obj)
    if typ == "tdm":
        return describe_tdm(obj)
    raise ValueError(typ)


# ------------------------------------------------------------------ diff


def _d_epoch(out, where, a, b, tol):
    if a["scale"] != b["scale"]:
        out.append((f"{where}scale", f"time scale {a['scale']} -> {b['scale']}"))
    dt = (b["d"] - a["d"]) * 86400.0 + (b["s"] - a["s"])
    if not tol.see(abs(dt), tol.epoch + 1e-9):
        out.append((f"{where}epoch", f"instant differs by {dt:.9g} s"))


def _d_text(out, field, a, b):
    if a != b:
        out.append((field, f"{a!r} -> {b!r}"))


def _local(name):
    return LOCAL_ALIAS.get(name, name)


def _d_cov(out, where, a, b, tol, state_frame):
    if (a is None) != (b is None):
        out.append((f"{where}cov-presence", f"covariance {'lost' if b is None else 'appeared'}"))
        return
    if a is None:
        return
    fa, fb = _local(a["frame"]), _local(b["frame"])
    if fa != fb:
        kind = "cov-frame-dropped" if fb == state_frame else "cov-frame"
        out.append((f"{where}cov-frame", f"{where}{kind}",
                    f"covariance frame {a['frame']} -> {b['frame']} (state in {state_frame})"))
    va, vb = a["values"], b["values"]
    if not (np.all(np.isfinite(vb))):
        out.append((f"{where}cov-values", "non-finite covariance"))
        return
    # the message carries the lower triangle; the decoded matrix is that triangle mirrored
    for i in range(6):
        for j in range(i + 1):
            for (p, q) in ((i, j), (j, i)):
                if not tol.see(abs(vb[p, q] - va[i, j]), 1e-12 * abs(va[i, j]) + 1e-300):
                    out.append((f"{where}cov-values",
                                f"C[{i},{j}] {va[i, j]!r} -> C[{p},{q}] {vb[p, q]!r} "
                                f"(rel {abs(vb[p, q] - va[i, j]) / max(abs(va[i, j]), 1e-300):.3g})"))
                    return


def _d_mans(out, a, b, tol):
    if len(a) != len(b):
        out.append(("man-count", f"{len(a)} maneuvers -> {len(b)}"))
        return
    for k, (ma, mb) in enumerate(zip(a, b)):
        w = f"man[{k}] "
        if ma["kind"] != mb["kind"]:
            out.append(("man-kind", f"{w}{ma['kind']} -> {mb['kind']}"))
        _d_epoch(out, "man-", ma["epoch"], mb["epoch"], tol)
        if not tol.see(abs(ma["duration"] - mb["duration"]), 0.5e-3 * (1 + 1e-9) + 1e-12):
            out.append(("man-duration", f"{w}{ma['duration']!r} s -> {mb['duration']!r} s"))
        for i in range(3):
            if not tol.see(abs(ma["dv"][i] - mb["dv"][i]), HALF * 1e-3 + 8 * EPS * abs(ma["dv"][i])):
                out.append(("man-dv", f"{w}dv[{i}] {ma['dv'][i]!r} -> {mb['dv'][i]!r} m/s"))
                break
        if ma["frame"] != mb["frame"]:
            out.append(("man-frame", f"man-frame:{ma['frame']}->{mb['frame']}",
                        f"{w}frame {ma['frame']!r} -> {mb['frame']!r}"))
        if ma["comment"] != mb["comment"]:
            out.append(("man-comment", f"{w}comment {ma['comment']!r} -> {mb['comment']!r}"))


def _d_state(out, a, b, tol, where="", coords=True):
    _d_epoch(out, where, a["epoch"], b["epoch"], tol)
    for f in ("frame", "center", "orientation", "name", "cospar_id"):
        _d_text(out, where + f, a[f], b[f])
    if coords:
        ca, cb = a["cart"], b["cart"]
        if not np.all(np.isfinite(cb)):
            out.append((where + "coord", f"non-finite {cb.tolist()}"))
        else:
            for i in range(6):
                if not tol.see(abs(ca[i] - cb[i]), HALF * tol.coord + 8 * EPS * abs(ca[i])):
                    out.append((where + "coord", f"component {i}: {ca[i]!r} -> {cb[i]!r} (|d|={abs(ca[i] - cb[i]):.3g}, "
                                                 f"resolution {tol.coord:g})"))
                    break
    _d_cov(out, where, a["cov"], b["cov"], tol, a["frame"])
    _d_mans(out, a["mans"], b["mans"], tol)
    if a["user"] != b["user"]:
        out.append((where + "user-defined", f"{a['user']!r} -> {b['user']!r}"))


def angdiff(a, b):
    d = (a - b) % (2 * math.pi)
    return min(d, 2 * math.pi - d)


def _d_omm(out, a, b, tol):
    _d_state(out, a, b, tol, coords=False)
    deg = math.pi / 180.0
    names = ["i", "raan", "e", "argp", "M", "n"]
    res = [1e-4 * deg, 1e-4 * deg, 1e-7, 1e-4 * deg, 1e-4 * deg, 1e-8 * 2 * math.pi / 86400.0]
    for k, nm in enumerate(names):
        x, y = a["elements"][k], b["elements"][k]
        err = angdiff(x, y) if nm in ("i", "raan", "argp", "M") else abs(x - y)
        if not tol.see(err, HALF * res[k] + 16 * EPS * max(abs(x), 1.0 if nm != "n" else 0.0)):
            out.append((f"omm-{nm}", f"{nm} {x!r} -> {y!r} (written resolution {res[k]:.3g})"))
    for nm, r in (("bstar", 1e-9), ("ndot", 2e-8), ("ndotdot", 0.6)):
        if not tol.see(abs(a[nm] - b[nm]), HALF * r + 16 * EPS * abs(a[nm])):
            out.append((f"omm-{nm}", f"{nm} {a[nm]!r} -> {b[nm]!r} (written resolution {r:g})"))
    for nm in ("norad_id", "element_nb", "revolutions"):
        if a[nm] != b[nm]:
            out.append((f"omm-{nm}", f"{nm} {a[nm]!r} -> {b[nm]!r}"))
    for nm in ("classification", "ephemeris_type"):
        if a[nm] is not None and b[nm] is not None and str(a[nm]) != str(b[nm]):
            out.append((f"omm-{nm}", f"{nm} {a[nm]!r} -> {b[nm]!r}"))


def _d_oem(out, a, b, tol):
    ea, eb = a["ephems"], b["ephems"]
    if len(ea) != len(eb):
        out.append(("ephem-count", f"{len(ea)} ephemerides -> {len(eb)}"))
        return
    for k, (x, y) in enumerate(zip(ea, eb)):
        w = f"ephem[{k}]."
        _d_text(out, "name", x["name"], y["name"])
        _d_text(out, "cospar_id", x["cospar_id"], y["cospar_id"])
        _d_text(out, "interp-method", x["method"], y["method"])
        if x["method"] == "lagrange" and x["order"] != y["order"]:
            out.append(("interp-order", f"{w} order {x['order']} -> {y['order']}"))
        if len(x["points"]) != len(y["points"]):
            out.append(("point-count", f"{w} {len(x['points'])} points -> {len(y['points'])}"))
            continue
        for n, (p, q) in enumerate(zip(x["points"], y["points"])):
            sub = []
            # the points of an Ephem carry no name of their own in the message: OBJECT_NAME is the Ephem's
            p = dict(p, name=None, cospar_id=None)
            q = dict(q, name=None, cospar_id=None)
            _d_state(sub, p, q, tol)
            out.extend((e[0], e[-2] if len(e) == 3 else e[0], f"{w}point[{n}] {e[-1]}") for e in sub)


def _d_tdm(out, a, b, tol):
    ga, gb = a["groups"], b["groups"]
    if [g["path"] for g in ga] != [g["path"] for g in gb]:
        out.append(("tdm-paths", f"{[g['path'] for g in ga]} -> {[g['path'] for g in gb]}"))
        return
    res = {"Range": 1e-3, "Azimut": math.radians(1e-2), "Elevation": math.radians(1e-2), "Doppler": 1e-6}
    for g, h in zip(ga, gb):
        if len(g["measures"]) != len(h["measures"]):
            out.append(("tdm-count", f"path {g['path']}: {len(g['measures'])} measures -> {len(h['measures'])}"))
            continue
        for n, (m, q) in enumerate(zip(g["measures"], h["measures"])):
            w = f"path {g['path']} measure[{n}] "
            if m["kind"] != q["kind"]:
                out.append(("tdm-kind", f"{w}{m['kind']} -> {q['kind']}"))
                continue
            _d_epoch(out, "tdm-", m["epoch"], q["epoch"], tol)
            if m["kind"] in ("Azimut", "Elevation"):
                err = angdiff(m["value"], q["value"])
            else:
                err = abs(m["value"] - q["value"])
            if not math.isfinite(q["value"]) or not tol.see(err, HALF * res[m["kind"]] + 16 * EPS * abs(m["value"])):
                out.append((f"tdm-value-{m['kind']}", f"{w}{m['value']!r} -> {q['value']!r}"))


def diff(want, got, typ, tol):
    """-> list of (field, kind, message); empty when equal to the written precision."""
    out = []
    if typ == "opm":
        _d_state(out, want, got, tol)
    elif typ == "omm":
        _d_omm(out, want, got, tol)
    elif typ == "oem":
        _d_oem(out, want, got, tol)
    elif typ == "tdm":
        _d_tdm(out, want, got, tol)
    else:
        raise ValueError(typ)
    # (field, kind, message): field = what differs, kind = root-cause bucket (defaults to the field)
    return [e if len(e) == 3 else (e[0], e[0], e[1]) for e in out]


# ------------------------------------------------------------------ bit-exact snapshot


def _snap_date(d):
    return (int(d._d), float(d._s).hex(), d.scale.name)


def _snap_state(sv):
    from beyond.orbits.man import ContinuousMan

    cov = sv._data.get("cov")
    mans = []
    for m in sv._data.get("maneuvers", []) or []:
        item = [type(m).__name__, _snap_date(m.date), np.asarray(m._dv, float).tobytes().hex(), m.frame, m.comment]
        if isinstance(m, ContinuousMan):
            item += [m.duration.total_seconds(), _snap_date(m.start), m.date_pos]
        mans.append(tuple(item))
    rest = {}
    for k, v in sv._data.items():
        if k in ("date", "form", "frame", "cov", "maneuvers", "infos", "propagator", "tle"):
            continue
        rest[k] = repr(sorted(v.items())) if isinstance(v, dict) else repr(v)
    return dict(
        type=type(sv).__name__,
        coord=np.asarray(sv.base, float).tobytes().hex(),
        form=sv.form.name, frame=sv.frame.name, date=_snap_date(sv.date),
        cov=None if cov is None else (_frame_name(cov.frame), np.asarray(cov.base, float).tobytes().hex(),
                                      cov.orb.frame.name, np.asarray(cov.orb.base, float).tobytes().hex()),
        mans=mans, ids=[id(m) for m in sv._data.get("maneuvers", []) or []],
        propagator=type(sv._data.get("propagator")).__name__ if "propagator" in sv._data else None,
        rest=rest,
    )


def snapshot(obj, typ):
    if typ in ("opm", "omm"):
        return _snap_state(obj)
    if typ == "oem":
        from beyond.orbits import Ephem

        ephs = [obj] if isinstance(obj, Ephem) else list(obj)
        return [dict(name=_attr(e, "name", None), cospar_id=_attr(e, "cospar_id", None), method=e.method,
                     order=e.order, n=len(e), points=[_snap_state(p) for p in e._orbits]) for e in ephs]
    if typ == "tdm":
        from beyond.utils.measures import MeasureSet

        sets = [obj] if isinstance(obj, MeasureSet) else list(obj)
        return [[(type(m).__name__, tuple(m.path), _snap_date(m.date), float(m.value).hex()) for m in s]
                for s in sets]
    raise ValueError(typ)


def snapshot_diff(a, b, path=""):
    """first difference between two snapshots as text, or None"""
    if type(a) is not type(b):
        return f"{path}: {a!r} -> {b!r}"
    if isinstance(a, dict):
        for k in a:
            if k not in b:
                return f"{path}.{k} removed"
            r = snapshot_diff(a[k], b[k], f"{path}.{k}")
            if r:
                return r
        for k in b:
            if k not in a:
                return f"{path}.{k} added"
        return None
    if isinstance(a, (list, tuple)):
        if len(a) != len(b):
            return f"{path}: length {len(a)} -> {len(b)}"
        for i, (x, y) in enumerate(zip(a, b)):
            r = snapshot_diff(x, y, f"{path}[{i}]")
            if r:
                return r
        return None
    return None if a == b else f"{path}: {a!r} -> {b!r}"
