"""Independent reference integration of the two-body problem with thrust (no import of beyond).

* ``rk4_step``            one step of the classical Runge-Kutta method (1/6, 1/3, 1/3, 1/6) for the pure
                          two-body field - the method beyond documents for ``KeplerNum(method="rk4")``.
* ``triad``               local orbital axes (rows) of a cartesian state: QSW = (r^, h^ x r^, h^),
                          TNW = (v^, h^ x v^, h^).
* ``burn``                state after a constant-acceleration burn given in QSW / TNW / inertial axes,
                          by fixed-step RK4 at <= 1 s, with Richardson error estimate (step halving).
* ``propagate_with_burns`` piecewise: exact two-body arcs (universal variables) between burns and
                          impulses, fine-step integration inside the burns (break points at the edges).

SI units.  States are sequences of 6 floats.
"""

import math

import numpy as np

from . import twobody as tb


def triad(state, kind):
    """3x3 matrix whose rows are the local axes expressed in the inertial frame."""
    r = np.asarray(state[:3], float)
    v = np.asarray(state[3:], float)
    h = np.cross(r, v)
    w = h / np.linalg.norm(h)
    kind = kind.upper()
    if kind == "QSW":
        x = r / np.linalg.norm(r)
    elif kind == "TNW":
        x = v / np.linalg.norm(v)
    else:
        raise ValueError(kind)
    return np.array([x, np.cross(w, x), w])


def to_inertial(vec, state, frame):
    """Components given in `frame` (None = inertial, 'QSW', 'TNW') -> inertial components."""
    vec = np.asarray(vec, float)
    if frame is None:
        return vec
    return triad(state, frame).T @ vec


def _deriv(y, mu, acc, frame):
    """d/dt of (r, v) with central gravity and a thrust acceleration `acc` given in `frame`. Plain floats."""
    x, yy, z, vx, vy, vz = y
    r2 = x * x + yy * yy + z * z
    k = -mu / (r2 * math.sqrt(r2))
    ax, ay, az = k * x, k * yy, k * z
    if acc is not None:
        if frame is None:
            ax += acc[0]
            ay += acc[1]
            az += acc[2]
        else:
            hx, hy, hz = yy * vz - z * vy, z * vx - x * vz, x * vy - yy * vx
            hn = math.sqrt(hx * hx + hy * hy + hz * hz)
            wx, wy, wz = hx / hn, hy / hn, hz / hn
            if frame == "QSW":
                n = math.sqrt(r2)
                qx, qy, qz = x / n, yy / n, z / n
            else:
                n = math.sqrt(vx * vx + vy * vy + vz * vz)
                qx, qy, qz = vx / n, vy / n, vz / n
            sx, sy, sz = wy * qz - wz * qy, wz * qx - wx * qz, wx * qy - wy * qx
            ax += acc[0] * qx + acc[1] * sx + acc[2] * wx
            ay += acc[0] * qy + acc[1] * sy + acc[2] * wy
            az += acc[0] * qz + acc[1] * sz + acc[2] * wz
    return (vx, vy, vz, ax, ay, az)


def rk4_step(y, h, mu, acc=None, frame=None):
    """Classical RK4 (Butcher: c = 0, 1/2, 1/2, 1; b = 1/6, 1/3, 1/3, 1/6). Autonomous right-hand side."""
    y = tuple(float(c) for c in y)
    k1 = _deriv(y, mu, acc, frame)
    k2 = _deriv(tuple(a + 0.5 * h * b for a, b in zip(y, k1)), mu, acc, frame)
    k3 = _deriv(tuple(a + 0.5 * h * b for a, b in zip(y, k2)), mu, acc, frame)
    k4 = _deriv(tuple(a + h * b for a, b in zip(y, k3)), mu, acc, frame)
    return tuple(a + h / 6.0 * (p + 2 * q + 2 * r + s) for a, p, q, r, s in zip(y, k1, k2, k3, k4))


def _fixed(y, span, n, mu, acc, frame):
    h = span / n
    for _ in range(n):
        y = rk4_step(y, h, mu, acc, frame)
    return y


def burn(y, duration, mu, acc, frame, hmax=1.0, tol_v=1e-7):
    """State after `duration` seconds of thrust `acc` (m/s^2, components in `frame`).

    Returns (state, err) where err = Richardson estimate (|y_h - y_h/2| / 15, position in m and
    velocity in m/s combined as max(dr * n, dv) with n the mean motion scale v/r).  The step is halved
    until err <= tol_v (at most 3 times).
    """
    if isinstance(frame, str):
        frame = frame.upper()
    acc = tuple(float(c) for c in acc)
    n = max(1, int(math.ceil(duration / hmax)))
    coarse = _fixed(tuple(y), duration, n, mu, acc, frame)
    for _ in range(4):
        fine = _fixed(tuple(y), duration, 2 * n, mu, acc, frame)
        dr = math.sqrt(sum((a - b) ** 2 for a, b in zip(coarse[:3], fine[:3]))) / 15
        dv = math.sqrt(sum((a - b) ** 2 for a, b in zip(coarse[3:], fine[3:]))) / 15
        rr = math.sqrt(sum(c * c for c in fine[:3]))
        vv = math.sqrt(sum(c * c for c in fine[3:]))
        err = max(dr * vv / rr, dv)
        if err <= tol_v:
            break
        coarse, n = fine, 2 * n
    # Richardson extrapolation (order 4)
    out = np.array([f + (f - c) / 15 for f, c in zip(fine, coarse)])
    return out, err


def propagate_with_burns(y0, t_end, mu, burns=(), impulses=(), hmax=1.0):
    """State at t_end (seconds from the epoch of y0).

    burns:    iterable of (t_start, t_stop, acc_vector, frame) - thrust on [t_start, t_stop)
    impulses: iterable of (t, dv_vector, frame) - velocity jump at t, axes taken from the state at t
    Events must not overlap each other.  Returns (state, err) with err the largest Richardson estimate.
    hmax: first step size tried inside burns (halved until the Richardson estimate is small enough).
    """
    events = [(b[0], 0, b) for b in burns] + [(i[0], 1, i) for i in impulses]
    events.sort(key=lambda e: (e[0], e[1]))
    y = np.asarray(y0, float)
    t = 0.0
    err = 0.0
    for when, kind, ev in events:
        if when > t_end:
            break
        if when < t:
            raise ValueError("overlapping events")
        y = tb.propagate_uv(y, when - t, mu)
        t = when
        if kind == 1:
            y = y.copy()
            y[3:] += to_inertial(ev[1], y, ev[2].upper() if isinstance(ev[2], str) else None)
        else:
            stop = min(ev[1], t_end)
            y, e = burn(y, stop - t, mu, ev[2], ev[3], hmax=hmax)
            err = max(err, e)
            t = stop
    y = tb.propagate_uv(y, t_end - t, mu)
    return np.asarray(y, float), err


# ---------------------------------------------------------------- several thrusts firing at the same time


def _thrust_inertial(y, acc, frame):
    """inertial components of the acceleration `acc` given along `frame` axes (None, 'QSW', 'TNW') at state y"""
    if frame is None:
        return acc
    x, yy, z, vx, vy, vz = y
    hx, hy, hz = yy * vz - z * vy, z * vx - x * vz, x * vy - yy * vx
    hn = math.sqrt(hx * hx + hy * hy + hz * hz)
    wx, wy, wz = hx / hn, hy / hn, hz / hn
    if frame == "QSW":
        n = math.sqrt(x * x + yy * yy + z * z)
        qx, qy, qz = x / n, yy / n, z / n
    else:
        n = math.sqrt(vx * vx + vy * vy + vz * vz)
        qx, qy, qz = vx / n, vy / n, vz / n
    sx, sy, sz = wy * qz - wz * qy, wz * qx - wx * qz, wx * qy - wy * qx
    return (acc[0] * qx + acc[1] * sx + acc[2] * wx,
            acc[0] * qy + acc[1] * sy + acc[2] * wy,
            acc[0] * qz + acc[1] * sz + acc[2] * wz)


def _deriv_multi(y, mu, thrusts):
    """central gravity + the SUM of the accelerations of every thrust of the list [(acc, frame), ...]"""
    x, yy, z, vx, vy, vz = y
    r2 = x * x + yy * yy + z * z
    k = -mu / (r2 * math.sqrt(r2))
    ax, ay, az = k * x, k * yy, k * z
    for acc, frame in thrusts:
        tx, ty, tz = _thrust_inertial(y, acc, frame)
        ax += tx
        ay += ty
        az += tz
    return (vx, vy, vz, ax, ay, az)


def _rk4_multi(y, h, mu, thrusts):
    k1 = _deriv_multi(y, mu, thrusts)
    k2 = _deriv_multi(tuple(a + 0.5 * h * b for a, b in zip(y, k1)), mu, thrusts)
    k3 = _deriv_multi(tuple(a + 0.5 * h * b for a, b in zip(y, k2)), mu, thrusts)
    k4 = _deriv_multi(tuple(a + h * b for a, b in zip(y, k3)), mu, thrusts)
    return tuple(a + h / 6.0 * (p + 2 * q + 2 * r + s) for a, p, q, r, s in zip(y, k1, k2, k3, k4))


def burn_multi(y, duration, mu, thrusts, hmax=1.0, tol_v=1e-7):
    """State after `duration` seconds during which every thrust of `thrusts` = [(acc, frame), ...] fires (the
    accelerations add up, each along its own axes).  Same scheme and error estimate as `burn`."""
    thrusts = [(tuple(float(c) for c in a), f.upper() if isinstance(f, str) else None) for a, f in thrusts]
    y = tuple(float(c) for c in y)
    n = max(1, int(math.ceil(duration / hmax)))

    def fixed(m):
        s, hh = y, duration / m
        for _ in range(m):
            s = _rk4_multi(s, hh, mu, thrusts)
        return s

    coarse = fixed(n)
    for _ in range(4):
        fine = fixed(2 * n)
        dr = math.sqrt(sum((a - b) ** 2 for a, b in zip(coarse[:3], fine[:3]))) / 15
        dv = math.sqrt(sum((a - b) ** 2 for a, b in zip(coarse[3:], fine[3:]))) / 15
        rr = math.sqrt(sum(c * c for c in fine[:3]))
        vv = math.sqrt(sum(c * c for c in fine[3:]))
        err = max(dr * vv / rr, dv)
        if err <= tol_v:
            break
        coarse, n = fine, 2 * n
    return np.array([f + (f - c) / 15 for f, c in zip(fine, coarse)]), err


def propagate_with_schedule(y0, t_end, mu, burns, hmax=1.0):
    """State at t_end under burns = [(t_start, t_stop, acc, frame), ...] that MAY overlap: the time line is cut at
    every edge; between two cuts the set of firing thrusts is fixed and their accelerations add up."""
    cuts = sorted({0.0, float(t_end)} | {min(max(float(t), 0.0), float(t_end)) for b in burns for t in b[:2]})
    y = np.asarray(y0, float)
    err = 0.0
    for a, b in zip(cuts, cuts[1:]):
        if b <= a:
            continue
        active = [(bb[2], bb[3]) for bb in burns if bb[0] <= a and b <= bb[1]]
        if active:
            y, e = burn_multi(y, b - a, mu, active, hmax=hmax)
            err = max(err, e)
        else:
            y = tb.propagate_uv(y, b - a, mu)
    return np.asarray(y, float), err
