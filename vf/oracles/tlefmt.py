"""Independent two-line-element formatter, checksum and column parser (no import of beyond).

Written from the NORAD / CelesTrak format definition (columns are 1-based, inclusive):

    Line 1
    01      line number "1"                      02  blank
    03-07   satellite catalogue number           08  classification (U, C, S)
    09      blank
    10-11   international designator: launch year (2 digits)
    12-14   international designator: launch number of the year
    15-17   international designator: piece of the launch (left justified letters)
    18      blank
    19-20   epoch year (2 digits; 57-99 -> 19xx, 00-56 -> 20xx)
    21-32   epoch day of year and fraction DDD.DDDDDDDD (day 1.0 = 1 January 0h)
    33      blank
    34-43   first derivative of mean motion / 2 [rev/day^2]: sign, then .DDDDDDDD
    44      blank
    45-52   second derivative of mean motion / 6 [rev/day^3]: sign, 5-digit mantissa (decimal
            point assumed in front), sign of exponent, one exponent digit
    53      blank
    54-61   B* drag term [1/earth radii], same layout
    62      blank
    63      ephemeris type                       64  blank
    65-68   element set number (right justified)
    69      checksum

    Line 2
    01      line number "2"                      02  blank
    03-07   satellite catalogue number           08  blank
    09-16   inclination [deg] DDD.DDDD           17  blank
    18-25   right ascension of ascending node [deg] DDD.DDDD     26  blank
    27-33   eccentricity, decimal point assumed  34  blank
    35-42   argument of perigee [deg] DDD.DDDD   43  blank
    44-51   mean anomaly [deg] DDD.DDDD          52  blank
    53-63   mean motion [rev/day] DD.DDDDDDDD
    64-68   revolution number at epoch (right justified)
    69      checksum

    checksum = (sum of all digits in columns 1-68, each minus sign counting 1, everything else
    counting 0) modulo 10.

A TLE is described here by a dict of *integers on the printed grid* (so every comparison with
what a parser returns is exact up to one correctly-rounded division):

    name    str or None           cat     0..99999          cls   one letter
    desig   None or {"yy": 0..99, "launch": 1..999, "piece": "A".."ZZZ"}
    eyy     0..99                 eday    day-of-year * 1e8  (1_00000000 .. 366_99999999)
    ndot    ndot/2 * 1e8, signed  nddot / bstar  {"s": +1|-1, "m": 0..99999, "x": -9..9}
                                   value = s * m * 1e-5 * 10**x
    etype   0..9                  elnum   0..9999
    inc raan argp ma   degrees * 1e4      ecc  e * 1e7      n  rev/day * 1e8     rev 0..99999
    style   optional dict of non-canonical but legal encodings (see `format_lines`)
"""

import math
from fractions import Fraction

DIGITS = "0123456789"

# 1-based inclusive columns that are always blank
BLANK_1 = (2, 9, 18, 33, 44, 53, 62, 64)
BLANK_2 = (2, 8, 17, 26, 34, 43, 52)


def checksum(line):
    """Checksum digit (as a str) of the first 68 columns of `line`."""
    total = 0
    for ch in line[:68]:
        if ch in DIGITS:
            total += DIGITS.index(ch)
        elif ch == "-":
            total += 1
    return DIGITS[total % 10]


def _exp_field(v, plus, x0sign):
    """sign + 5 digit mantissa + exponent sign + exponent digit (8 columns)."""
    s, m, x = v["s"], v["m"], v["x"]
    sign = "-" if s < 0 else ("+" if plus else " ")
    if x < 0:
        xs = "-"
    elif x > 0:
        xs = "+"
    else:
        xs = x0sign if x0sign else ("-" if m == 0 else "+")
    return f"{sign}{m:05d}{xs}{abs(x):d}"


def format_lines(f):
    """(line1, line2), 69 columns each, checksums included.

    style keys (all optional, default = canonical):
      ndot_plus / nddot_plus / bstar_plus : explicit "+" in the sign column of a positive value
      nddot_x0 / bstar_x0 : "+" or "-" printed for a zero exponent (canonical: "-" for the value
                            zero, "+" otherwise)
      cat_pad / elnum_pad / rev_pad / day_pad : "0" or " " padding
    """
    st = f.get("style") or {}
    cat = f"{f['cat']:d}".rjust(5, st.get("cat_pad", "0"))
    d = f.get("desig")
    desig = f"{d['yy']:02d}{d['launch']:03d}{d['piece']:<3s}" if d else " " * 8
    day_i, day_f = divmod(f["eday"], 10**8)
    day = f"{day_i:d}".rjust(3, st.get("day_pad", "0")) + f".{day_f:08d}"
    nd = f["ndot"]
    nd_sign = "-" if nd < 0 else ("+" if st.get("ndot_plus") else " ")
    ndot = f"{nd_sign}.{abs(nd):08d}"
    nddot = _exp_field(f["nddot"], st.get("nddot_plus"), st.get("nddot_x0"))
    bstar = _exp_field(f["bstar"], st.get("bstar_plus"), st.get("bstar_x0"))
    elnum = f"{f['elnum']:d}".rjust(4, st.get("elnum_pad", " "))
    l1 = (f"1 {cat}{f.get('cls', 'U')} {desig} {f['eyy']:02d}{day} {ndot} {nddot} {bstar} "
          f"{f.get('etype', 0):d} {elnum}")

    def ang(v):
        i, fr = divmod(v, 10**4)
        return f"{i:3d}.{fr:04d}"

    n_i, n_f = divmod(f["n"], 10**8)
    rev = f"{f['rev']:d}".rjust(5, st.get("rev_pad", " "))
    l2 = (f"2 {cat} {ang(f['inc'])} {ang(f['raan'])} {f['ecc']:07d} {ang(f['argp'])} "
          f"{ang(f['ma'])} {n_i:2d}.{n_f:08d}{rev}")
    if len(l1) != 68 or len(l2) != 68:
        raise ValueError(f"field out of range for the format: {len(l1)}, {len(l2)}: {f}")
    return l1 + checksum(l1), l2 + checksum(l2)


def format_text(f):
    l1, l2 = format_lines(f)
    if f.get("name"):
        return f"{f['name']}\n{l1}\n{l2}"
    return f"{l1}\n{l2}"


# ---------------------------------------------------------------- expected values


def year4(yy):
    return 1900 + yy if yy >= 57 else 2000 + yy


def mjd_of_civil(y, m, d):
    """Modified Julian Day of a Gregorian calendar date (Fliegel - Van Flandern)."""
    a = (14 - m) // 12
    yy = y + 4800 - a
    mm = m + 12 * a - 3
    jdn = d + (153 * mm + 2) // 5 + 365 * yy + yy // 4 - yy // 100 + yy // 400 - 32045
    return jdn - 2400001  # JDN is the Julian day at noon; MJD = JD - 2400000.5


def is_leap(y):
    return y % 4 == 0 and (y % 100 != 0 or y % 400 == 0)


def epoch_mjd(eyy, eday):
    """(integer MJD, seconds of day as Fraction) of the epoch."""
    day_i, day_f = divmod(eday, 10**8)
    mjd = mjd_of_civil(year4(eyy), 1, 1) + day_i - 1
    return mjd, Fraction(day_f * 86400, 10**8)


def exp_value(v):
    """Exact value of a mantissa/exponent field."""
    return v["s"] * Fraction(v["m"], 10**5) * Fraction(10) ** v["x"]


def exp_ulp(v):
    """One unit of the last printed mantissa digit."""
    return Fraction(1, 10**5) * Fraction(10) ** v["x"]


def cospar(f):
    d = f.get("desig")
    if not d:
        return ""
    return f"{year4(d['yy'])}-{d['launch']:03d}{d['piece']}"


def expected(f):
    """Values (exact Fractions, SI-free: degrees, rev/day...) and the printed resolution of
    every numeric field: name -> (value, unit of last place)."""
    return {
        "ndot_half": (Fraction(f["ndot"], 10**8), Fraction(1, 10**8)),
        "nddot_sixth": (exp_value(f["nddot"]), exp_ulp(f["nddot"])),
        "bstar": (exp_value(f["bstar"]), exp_ulp(f["bstar"])),
        "inc": (Fraction(f["inc"], 10**4), Fraction(1, 10**4)),
        "raan": (Fraction(f["raan"], 10**4), Fraction(1, 10**4)),
        "argp": (Fraction(f["argp"], 10**4), Fraction(1, 10**4)),
        "ma": (Fraction(f["ma"], 10**4), Fraction(1, 10**4)),
        "ecc": (Fraction(f["ecc"], 10**7), Fraction(1, 10**7)),
        "n": (Fraction(f["n"], 10**8), Fraction(1, 10**8)),
    }


# ---------------------------------------------------------------- column parser


class FormatError(Exception):
    pass


def _int(text, what):
    t = text.lstrip(" ")  # right justified: blanks may only pad on the left
    if not t or any(c not in DIGITS for c in t):
        raise FormatError(f"{what}: {text!r} is not an unsigned integer")
    return int(t)


def _fixed(text, what, point):
    """Unsigned fixed-point field with the decimal point at column index `point`."""
    if text[point] != ".":
        raise FormatError(f"{what}: no decimal point at its column in {text!r}")
    ip, fp = text[:point].lstrip(" "), text[point + 1:]  # blanks may only pad on the left
    if any(c not in DIGITS for c in ip + fp) or not fp:
        raise FormatError(f"{what}: {text!r}")
    return Fraction(int(ip or "0") * 10 ** len(fp) + int(fp), 10 ** len(fp))


def _expf(text, what):
    if len(text) != 8 or text[0] not in " +-" or text[6] not in "+-":
        raise FormatError(f"{what}: {text!r}")
    if any(c not in DIGITS for c in text[1:6] + text[7]):
        raise FormatError(f"{what}: {text!r}")
    s = -1 if text[0] == "-" else 1
    x = int(text[7]) * (-1 if text[6] == "-" else 1)
    return s * Fraction(int(text[1:6]), 10**5) * Fraction(10) ** x, Fraction(1, 10**5) * Fraction(10) ** x


def parse_lines(l1, l2, same_catalogue=True):
    """Strict column parser: returns a dict of exact values, raises FormatError if the lines do
    not follow the table above (length, blanks, decimal points, checksums).  `same_catalogue`:
    also require the catalogue numbers of the two lines to agree."""
    for k, (ln, blanks) in enumerate(((l1, BLANK_1), (l2, BLANK_2)), 1):
        if len(ln) != 69:
            raise FormatError(f"line {k} has {len(ln)} columns")
        if ln[0] != str(k):
            raise FormatError(f"line {k} is numbered {ln[0]!r}")
        if any(not (" " <= ch <= "~") for ch in ln):
            raise FormatError(f"line {k} holds a character that is not printable ASCII")
        for c in blanks:
            if ln[c - 1] != " ":
                raise FormatError(f"line {k} column {c} is {ln[c - 1]!r}, not blank")
        if checksum(ln) != ln[68]:
            raise FormatError(f"line {k} checksum is {ln[68]}, columns 1-68 give {checksum(ln)}")
    out = {}
    out["cat"] = _int(l1[2:7], "catalogue number")
    if _int(l2[2:7], "catalogue number (line 2)") != out["cat"] and same_catalogue:
        raise FormatError("catalogue numbers of the two lines differ")
    out["cls"] = l1[7]
    if not ("A" <= l1[7] <= "Z"):
        raise FormatError(f"classification {l1[7]!r}")
    des = l1[9:17]
    if des == " " * 8:
        out["cospar"] = ""
    else:
        piece = des[5:].rstrip(" ")
        if (any(c not in DIGITS for c in des[:5]) or not piece
                or any(not ("A" <= c <= "Z") for c in piece)):
            raise FormatError(f"international designator {des!r}")
        out["cospar"] = f"{year4(int(des[0:2]))}-{des[2:5]}{piece}"
    eyy = _int(l1[18:20], "epoch year")
    day = _fixed(l1[20:32], "epoch day", 3)
    mjd0 = mjd_of_civil(year4(eyy), 1, 1)
    out["epoch_mjd"] = mjd0 + day - 1  # Fraction, days
    if l1[33] not in " +-":
        raise FormatError(f"ndot sign {l1[33]!r}")
    nd = _fixed(l1[34:43], "ndot", 0)
    out["ndot_half"] = -nd if l1[33] == "-" else nd
    out["nddot_sixth"], out["nddot_ulp"] = _expf(l1[44:52], "nddot")
    out["bstar"], out["bstar_ulp"] = _expf(l1[53:61], "bstar")
    out["etype"] = _int(l1[62], "ephemeris type")
    out["elnum"] = _int(l1[64:68], "element number")
    out["inc"] = _fixed(l2[8:16], "inclination", 3)
    out["raan"] = _fixed(l2[17:25], "raan", 3)
    if any(c not in DIGITS for c in l2[26:33]):
        raise FormatError(f"eccentricity {l2[26:33]!r}")
    out["ecc"] = Fraction(int(l2[26:33]), 10**7)
    out["argp"] = _fixed(l2[34:42], "argument of perigee", 3)
    out["ma"] = _fixed(l2[43:51], "mean anomaly", 3)
    out["n"] = _fixed(l2[52:63], "mean motion", 2)
    out["rev"] = _int(l2[63:68], "revolution number")
    return out


def digit_columns(line):
    """0-based indices of the columns of `line` that hold a digit."""
    return [k for k, ch in enumerate(line) if ch in DIGITS]


DEG = math.pi / 180.0
REVDAY = 2 * math.pi / 86400.0
