"""Conical shadow of a spherical body lit by a spherical Sun (no import of beyond).

Geometry (Montenbruck & Gill 3.4 / Vallado 5.3), everything seen from the centre of the occulting
body of radius Rb; the Sun (radius Rs) is at vector s, |s| = d; the satellite at r.

    axis      a = -s/d                       (unit vector from the body towards the anti-Sun side)
    h         = r . a                        distance of the satellite behind the terminator plane
    rho       = |r - h a|                    distance of the satellite from the shadow axis

    umbra     cone converging behind the body: half-angle au = asin((Rs - Rb)/d),
              apex at h = xu = Rb / sin(au);  radius at h:  Ru(h) = (xu - h) tan(au)
    penumbra  cone diverging behind the body: half-angle ap = asin((Rs + Rb)/d),
              apex on the Sun side at h = -xp, xp = Rb / sin(ap);  radius Rp(h) = (xp + h) tan(ap)

The functions return a *signed distance-like* quantity in metres: positive outside the shadow
region (lit side), negative inside, zero on the cone.  In front of the terminator plane (h <= 0)
the satellite is lit: the value is then the (positive) distance to the axis or |r|.
"""

import math

import numpy as np


def _split(r, s):
    r = np.asarray(r, float)
    s = np.asarray(s, float)
    d = float(np.linalg.norm(s))
    axis = -s / d
    h = float(r @ axis)
    rho = float(np.linalg.norm(r - h * axis))
    return d, h, rho


def umbra(r, s, r_body, r_sun):
    """> 0 outside the umbra, < 0 inside."""
    d, h, rho = _split(r, s)
    if h <= 0:
        return max(rho, 1.0) + abs(h)
    au = math.asin((r_sun - r_body) / d)
    xu = r_body / math.sin(au)
    return rho - (xu - h) * math.tan(au)


def penumbra(r, s, r_body, r_sun, umbra_half_angle=False):
    """> 0 in full sunlight, < 0 inside the penumbra cone (umbra included).

    umbra_half_angle=True evaluates the same diverging cone with the *umbra* half-angle
    asin((Rs - Rb)/d): not a physical quantity, only the description of a listed known finding of
    the library (used to recognise that finding, never as the reference)."""
    d, h, rho = _split(r, s)
    if h <= 0:
        return max(rho, 1.0) + abs(h)
    ap = math.asin(((r_sun - r_body) if umbra_half_angle else (r_sun + r_body)) / d)
    xp = r_body / math.sin(ap)
    return rho - (xp + h) * math.tan(ap)


def self_test():
    """Sun on +x at 1 AU, Earth at the origin: a point on the -x axis behind the Earth is in umbra up
    to the apex (~1.38e9 m), a point far off-axis is lit, the two cones meet the body tangentially."""
    rs, rb, d = 6.96e8, 6.378e6, 1.496e11
    s = np.array([d, 0.0, 0.0])
    assert umbra([-7e6, 0, 0], s, rb, rs) < 0 and penumbra([-7e6, 0, 0], s, rb, rs) < 0
    assert umbra([-7e6, 7e6, 0], s, rb, rs) > 0 and penumbra([-7e6, 7e6, 0], s, rb, rs) > 0
    assert umbra([7e6, 0, 0], s, rb, rs) > 0 and penumbra([7e6, 0, 0], s, rb, rs) > 0
    xu = rb / ((rs - rb) / d)
    assert umbra([-(xu * 0.999), 0, 0], s, rb, rs) < 0 < umbra([-(xu * 1.001), 1.0, 0], s, rb, rs)
    # between the cones: in penumbra, not in umbra
    y = rb + 10e3
    assert penumbra([-4.2e7, y + 150e3, 0], s, rb, rs) < 0 < umbra([-4.2e7, y + 150e3, 0], s, rb, rs)
    # penumbra is the larger region everywhere behind the body
    for h in (1e6, 7e6, 4.2e7, 4e8):
        for rho in np.linspace(0, 2 * rb, 41):
            p = [-h, rho, 0]
            assert not (umbra(p, s, rb, rs) < 0 and penumbra(p, s, rb, rs) > 0)
    return True
