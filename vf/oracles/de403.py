"""Direct reading of a JPL SPK kernel with jplephem (no beyond code involved): chaining of
segments between any two bodies, an independent UTC -> TDB conversion, and a reader for the
GM values of a text PCK file.

Conventions of the file format (NAIF SPK required reading): a segment (center, target) gives the
position of `target` relative to `center` in km (type 2: velocity from the derivative of the same
Chebyshev polynomials, km/day in jplephem) for an epoch in TDB, orientation ICRF/J2000.
"""

import math
import re

import numpy as np

S_PER_DAY = 86400.0
JD_MJD = 2400000.5
J2000_JD = 2451545.0

# TAI-UTC in seconds, valid from the given MJD (IERS Bulletin C), for 1999..2020
LEAP = [(51179, 32.0), (53736, 33.0), (54832, 34.0), (56109, 35.0), (57204, 36.0), (57754, 37.0)]


def tai_minus_utc(mjd_utc):
    val = None
    for start, v in LEAP:
        if mjd_utc >= start:
            val = v
    if val is None:
        raise ValueError("date before 1999")
    return val


def tdb_minus_tt(jd_tt):
    """Explanatory Supplement to the Astronomical Almanac (1992), eq. 2.222-1:
    TDB - TT = 0.001657 sin g + 0.000022 sin(L - LJ),  g = mean anomaly of the Earth,
    L - LJ = difference of the mean longitudes of the Sun and Jupiter; d = days from J2000."""
    d = jd_tt - J2000_JD
    g = math.radians(357.53 + 0.98560028 * d)
    llj = math.radians(246.11 + 0.90251792 * d)
    return 0.001657 * math.sin(g) + 0.000022 * math.sin(llj)


def tdb_jd(mjd, sec, label, tai_utc):
    """Two-part TDB Julian date (day part, fraction) of the instant labelled (mjd, sec) in `label`.
    tai_utc: TAI-UTC in seconds to use for a UTC label."""
    if label == "UTC":
        off = tai_utc + 32.184
    elif label == "TAI":
        off = 32.184
    elif label == "TT":
        off = 0.0
    elif label == "TDB":
        return mjd + JD_MJD, sec / S_PER_DAY
    else:
        raise ValueError(label)
    jd_tt = mjd + JD_MJD + (sec + off) / S_PER_DAY
    off += tdb_minus_tt(jd_tt)
    return mjd + JD_MJD, (sec + off) / S_PER_DAY


class Kernel:
    def __init__(self, path):
        from jplephem.spk import SPK

        self.spk = SPK.open(path)
        self.parent = {}
        self.segment = {}
        for seg in self.spk.segments:
            if seg.target in self.parent:
                raise ValueError("several segments for one target: not handled by this oracle")
            self.parent[seg.target] = seg.center
            self.segment[seg.target] = seg
        self.bodies = sorted(set(self.parent) | set(self.parent.values()))

    def span(self):
        return (max(s.start_jd for s in self.spk.segments), min(s.end_jd for s in self.spk.segments))

    def _to_root(self, body):
        path = []
        while body in self.parent:
            path.append(body)
            body = self.parent[body]
        return path, body

    def state(self, target, center, jd1, jd2):
        """Position (m) and velocity (m/s) of `target` relative to `center` at TDB jd1 + jd2."""
        pa, ra = self._to_root(target)
        pb, rb = self._to_root(center)
        if ra != rb:
            raise ValueError("bodies not connected")
        # drop the common tail of the two chains
        while pa and pb and pa[-1] == pb[-1]:
            pa.pop()
            pb.pop()
        pv = np.zeros(6)
        for sign, chain in ((1.0, pa), (-1.0, pb)):
            for b in chain:
                pos, vel = self.segment[b].compute_and_differentiate(jd1, jd2)
                pv[:3] += sign * np.asarray(pos, float)
                pv[3:] += sign * np.asarray(vel, float) / S_PER_DAY
        return pv * 1000.0

    def hops(self, a, b):
        pa, _ = self._to_root(a)
        pb, _ = self._to_root(b)
        while pa and pb and pa[-1] == pb[-1]:
            pa.pop()
            pb.pop()
        return len(pa) + len(pb)


def read_gm(path):
    """{naif id: GM in m^3/s^2} from the data blocks of a text PCK."""
    out = {}
    data = False
    with open(path, encoding="ascii") as fh:
        for line in fh:
            s = line.strip()
            if s == "\\begindata":
                data = True
                continue
            if s == "\\begintext":
                data = False
                continue
            if data:
                m = re.match(r"BODY(\d+)_GM\s*=\s*\(\s*([-+0-9.EeDd]+)\s*\)", s)
                if m:
                    out[int(m.group(1))] = float(m.group(2).replace("D", "E").replace("d", "e")) * 1e9
    return out


def angle(u, v):
    """Angle between two 3-vectors (rad), accurate for small angles."""
    u = np.asarray(u, float)
    v = np.asarray(v, float)
    return math.atan2(float(np.linalg.norm(np.cross(u, v))), float(u @ v))


def write_type3(src, dst, which=lambda target: True):
    """Write to `dst` a kernel holding the same trajectories as the type-2 kernel `src`, in which the segments
    whose target satisfies `which` are re-encoded as SPK data type 3 (NAIF SPK required reading, "Type 3:
    Chebyshev (position and velocity)"): each record [MID, RADIUS, X, Y, Z coefficients] gets three more sets of
    coefficients, those of the velocity in km/s - here the exact derivative of the position polynomials,
    d/dt sum c_k T_k(s) with s = (t - MID)/RADIUS, i.e. chebder(c)/RADIUS - so that both encodings describe the
    same states to rounding.  The other segments are copied as they are.  Only jplephem's DAF layer is used."""
    from jplephem.daf import DAF
    from numpy.polynomial import chebyshev

    with open(src, "rb") as fs:
        sdaf = DAF(fs)
        first = sdaf.read_record(1)
        arrays = []
        for name, values in sdaf.summaries():
            start_s, end_s, target, center, frame, dtype, start_i, end_i = values
            words = np.array(sdaf.read_array(start_i, end_i), float)
            if dtype == 2 and which(target):
                init, intlen, rsize, n = words[-4:]
                rsize, n = int(rsize), int(n)
                ncoef = (rsize - 2) // 3
                rec = words[:-4].reshape(n, rsize)
                out = np.zeros((n, 2 + 6 * ncoef))
                out[:, :rsize] = rec
                for k in range(n):
                    radius = rec[k, 1]
                    for ax in range(3):
                        c = rec[k, 2 + ax * ncoef:2 + (ax + 1) * ncoef]
                        d = chebyshev.chebder(c) / radius
                        out[k, 2 + (3 + ax) * ncoef:2 + (3 + ax) * ncoef + len(d)] = d
                words = np.concatenate([out.ravel(), [init, intlen, 2 + 6 * ncoef, n]])
                dtype = 3
            arrays.append((name, (start_s, end_s, target, center, frame, dtype, 0, 0), words))
    with open(dst, "w+b") as fd:
        fd.write(first + b"\0" * 2048)
        fd.flush()
        ddaf = DAF(fd)
        ddaf.fward = ddaf.bward = 2
        ddaf.free = 3 * 128 + 1
        ddaf.write_file_record()
        ddaf.write_record(2, ddaf.summary_control_struct.pack(0, 0, 0).ljust(1024, b"\0"))
        ddaf.write_record(3, b" " * 1024)
        for name, values, words in arrays:
            ddaf.add_array(name, values, words)
        fd.flush()
    return dst
