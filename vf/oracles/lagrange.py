"""Independent reference for polynomial interpolation (no import of beyond).

* Lagrange interpolation in barycentric form (Berrut & Trefethen 2004), basis values,
  Lebesgue function (the condition number of the interpolant w.r.t. the data),
* the node polynomial and the Cauchy remainder bound
      |f(x) - p(x)| <= max|f^(k)| / k! * prod |x - x_j|,
* which windows of k consecutive nodes *interpolate* (contain the query's interval),
* Taylor coefficients of the two-body problem (Steffensen recurrences), to bound the k-th
  time derivative of a Kepler orbit, needed by the remainder bound.

Everything that serves as "truth" is evaluated in extended precision (x87 long double, 64-bit
mantissa) when the platform has it, else with exact rationals.
"""

import math
from fractions import Fraction

import numpy as np

LD = np.longdouble
HAVE_LD = np.finfo(LD).eps < 2e-19
EPS = float(np.finfo(float).eps)


# ---------------------------------------------------------------- barycentric Lagrange


def bary_weights(xs):
    """w_j = 1 / prod_{m != j} (x_j - x_m), in extended precision."""
    xs = np.asarray(xs, LD)
    d = xs[:, None] - xs[None, :]
    np.fill_diagonal(d, 1)
    return 1 / d.prod(axis=1)


def basis(xs, x):
    """Values l_j(x) of the k Lagrange basis polynomials on the nodes xs (float array)."""
    xs_l = np.asarray(xs, LD)
    x_l = LD(x)
    diff = x_l - xs_l
    hit = np.nonzero(diff == 0)[0]
    if len(hit):
        out = np.zeros(len(xs_l))
        out[hit[0]] = 1.0
        return out
    w = bary_weights(xs)
    t = w / diff
    return np.asarray(t / t.sum(), float)


def bary_eval(xs, ys, x):
    """Value at x of the polynomial of degree < k through (xs, ys); ys is (k,) or (k, m)."""
    lj = basis(xs, x).astype(LD)
    return np.asarray(lj @ np.asarray(ys, LD), float)


def lebesgue(xs, x):
    """sum_j |l_j(x)|: amplification of data / abscissa perturbations at x."""
    return float(np.abs(basis(xs, x)).sum())


def cond_sum(xs, ys, x):
    """sum_j |l_j(x)| |y_j| (componentwise): scale of the rounding error of any evaluation."""
    lj = np.abs(basis(xs, x))
    return lj @ np.abs(np.asarray(ys, float))


def node_poly(xs, x):
    """prod_j (x - x_j)."""
    return float(np.prod(LD(x) - np.asarray(xs, LD)))


def remainder_bound(xs, x, mk):
    """Cauchy bound of the interpolation error at x given mk >= max |f^(k)| over the hull."""
    k = len(xs)
    return mk * abs(node_poly(xs, x)) / math.factorial(k)


# ---------------------------------------------------------------- windows


def brackets(xs, x):
    """Indices i with xs[i] <= x <= xs[i+1] (two of them when x is an interior node)."""
    xs = np.asarray(xs, float)
    n = len(xs)
    out = [i for i in range(n - 1) if xs[i] <= x <= xs[i + 1]]
    return out


def admissible_windows(xs, k, x):
    """Start indices s of the windows xs[s:s+k] of k consecutive nodes that contain an interval
    bracketing x, i.e. for which evaluating at x is interpolation and not extrapolation."""
    n = len(xs)
    out = set()
    for i in brackets(xs, x):
        for s in range(max(0, i + 2 - k), min(i, n - k) + 1):
            out.add(s)
    return sorted(out)


# ---------------------------------------------------------------- exact polynomials


def poly_eval(coeffs, taus, raw=False):
    """sum_m coeffs[m, c] * taus[i]**m  ->  (n, ncomp) float array rounded once from an
    extended-precision (or exact rational) Horner evaluation.  coeffs is (d+1, ncomp),
    taus a length-n vector as returned by `scaled`.  raw=True returns the unrounded values
    (so that sums of several polynomials are rounded once)."""
    c = np.asarray(coeffs, float)
    if HAVE_LD:
        t = np.asarray(taus, LD).reshape(-1, 1)
        cl = c.astype(LD)
        acc = np.zeros((t.shape[0], c.shape[1]), LD) + cl[-1]
        for m in range(len(c) - 2, -1, -1):
            acc = acc * t + cl[m]
        return acc if raw else np.asarray(acc, float)
    out = np.empty((len(taus), c.shape[1]), object if raw else float)
    for a, tv in enumerate(taus):
        for b in range(c.shape[1]):
            acc = Fraction(0)
            for m in range(len(c) - 1, -1, -1):
                acc = acc * tv + Fraction(float(c[m, b]))
            out[a, b] = acc if raw else float(acc)
    return out


def scaled(xs, centre, half):
    """(xs - centre) / half for a vector of floats, in extended precision / exact rationals."""
    xs = np.atleast_1d(np.asarray(xs, float))
    if HAVE_LD:
        return (xs.astype(LD) - LD(centre)) / LD(half)
    return [(Fraction(float(v)) - Fraction(float(centre))) / Fraction(float(half)) for v in xs]


# ---------------------------------------------------------------- two-body Taylor series


def kepler_taylor(rv, mu, order):
    """Taylor coefficients R_m (m = 0..order) of r(t0 + tau) = sum R_m tau^m for r'' = -mu r/|r|^3.

    rv is (6,) or (N, 6) (a batch of states); returns (order+1, 3) or (N, order+1, 3).
    Steffensen's recurrences: u = r.r, s = u^(-3/2) by the power rule
    m U_0 S_m = sum_{j=1..m} (p j - (m - j)) U_j S_{m-j}  with p = -3/2, and
    (m+1)(m+2) R_{m+2} = -mu sum_j R_j S_{m-j}.
    The k-th derivative at t0 is k! R_k.
    """
    rv = np.asarray(rv, float)
    single = rv.ndim == 1
    rv = np.atleast_2d(rv)
    N = rv.shape[0]
    R = np.zeros((N, order + 1, 3))
    R[:, 0] = rv[:, :3]
    if order >= 1:
        R[:, 1] = rv[:, 3:]
    U = np.zeros((N, order + 1))
    S = np.zeros((N, order + 1))
    p = -1.5
    for m in range(0, order - 1):
        U[:, m] = sum((R[:, j] * R[:, m - j]).sum(axis=1) for j in range(m + 1))
        if m == 0:
            S[:, 0] = U[:, 0] ** p
        else:
            S[:, m] = sum((p * j - (m - j)) * U[:, j] * S[:, m - j] for j in range(1, m + 1)) / (m * U[:, 0])
        acc = sum(R[:, j] * S[:, m - j, None] for j in range(m + 1))
        R[:, m + 2] = -mu * acc / ((m + 1) * (m + 2))
    return R[0] if single else R


def kepler_deriv_norms(rv, mu, k):
    """|d^k r/dt^k| and |d^(k+1) r/dt^(k+1)| (euclidean norms) at each state of the batch."""
    R = kepler_taylor(rv, mu, k + 1)
    return (np.linalg.norm(R[..., k, :], axis=-1) * math.factorial(k),
            np.linalg.norm(R[..., k + 1, :], axis=-1) * math.factorial(k + 1))
