"""Known findings: KNOWN_FINDINGS.txt lines  `finding: property=<id> key=<key> <what fails>`
activate the predicate registered here under <key>.  `fixed:` lines suppress nothing.
The file is read-only at run time."""

import os
import re

HERE = os.path.dirname(os.path.dirname(os.path.abspath(__file__)))

_active = None
_desc = {}

# key -> predicate(facet, case, kind, msg, data) -> bool
PREDICATES = {}


def predicate(key):
    def deco(fn):
        PREDICATES[key] = fn
        return fn

    return deco


def _load():
    global _active
    if _active is not None:
        return
    _active = {}
    path = os.path.join(HERE, "KNOWN_FINDINGS.txt")
    if not os.path.exists(path):
        return
    with open(path) as fh:
        for line in fh:
            m = re.match(r"finding:\s+property=(\S+)\s+key=(\S+)\s+(.*)", line.strip())
            if m:
                prop, key, what = m.groups()
                _active.setdefault(prop, []).append(key)
                _desc[key] = what


def match(prop, facet, case, kind, msg, data):
    """Predicates live next to the check: vf/props/<id>.py may define FINDINGS = {key: predicate}."""
    _load()
    keys = _active.get(prop, ())
    if not keys:
        return None
    import importlib

    mod = importlib.import_module(f"vf.props.{prop.lower()}")
    local = getattr(mod, "FINDINGS", {})
    for key in keys:
        pred = local.get(key) or PREDICATES.get(key)
        if pred and pred(facet, case, kind, msg, data):
            return key
    return None


def describe(key):
    _load()
    return _desc.get(key, "")


def active_keys(prop):
    """Keys of the findings listed for this property in KNOWN_FINDINGS.txt."""
    _load()
    return list(_active.get(prop, ()))
