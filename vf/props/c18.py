"""C18 - solar-system body positions match the JPL ephemeris."""

import math
import os

import numpy as np
from hypothesis import strategies as st

from ..core import Facet, Violation
from ..gen import orbits as go
from ..oracles import de403 as od

RULE = ("Dates drawn evenly over 2000-01-01 .. 2020-12-31 (to 2017-02 with the real IERS tables), "
        "four date bands walked through by the shards; for the kernel facets every ordered pair of "
        "the 16 bodies of de403_2000-2020.bsp (+ the built-in EME2000 frame) is enumerated at every "
        "drawn date, with and without PCK files.")
ASSUMPTIONS = [
    "dates carry a drawn scale label (6 scales, same instant), a quarter fall 5-20 min from 0h UTC on the turn of a "
    "year, a leap-second day or its eve, or at the ends of what the EOP tables / the kernel cover; the Date handed over "
    "may be a pickle / deepcopy / copy clone; bodies are named in lower, Title or UPPER case; kernel states are asked "
    "through get_orbit(), get_body().propagate() or frame.center.body.propagate(); frames are named by object or by "
    "name on both the source and the target side",
    "tabulate facet: real IERS tables; the samples of a range stay >= 230 s away from 0h UTC (leap-second windows "
    "and which day's UT1-UTC serves next to midnight are C03 / C04 matters), the ranges themselves straddle the five "
    "leap-second midnights of 2006-2017, ordinary midnights, or none",
    "history facet: what a caller does to an object it was handed (frame / form / values / date changed in "
    "place) must not reach any later answer; later answers are compared bit for bit with the first ones",
    "oracle: the type-2 segments of tests/data/jpl/de403_2000-2020.bsp evaluated with jplephem and "
    "chained through the file's own centre/target tree by vf/oracles/de403.py (km -> m, km/day -> m/s)",
    "TDB of the oracle: UTC + (TAI-UTC) + 32.184 s + 0.001657 sin g + 0.000022 sin(L-LJ) "
    "(Explanatory Supplement 1992, 2.222-1); TAI-UTC from an own table for the Sun/Moon facets, "
    "from date.eop (the configured policy, 0 under 'missing: pass') for the kernel facets",
    "series accuracies are those the property names (Sun 0.02 deg / 1e-4, Moon 0.7 deg / 0.5 %); a dense "
    "scan (every 2.8 h, 2000-2020) of the unchanged tree gave 0.0115 deg / 7.1e-5 and 0.61 deg / 0.33 %",
    "the library hands jplephem a single-float Julian date (resolution 40 us): positions are compared "
    "to |v| x 250 us + 1 mm",
]

SUN_ANG, SUN_DIST = 0.02, 1e-4  # degrees, relative
MOON_ANG, MOON_DIST = 0.7, 5e-3
SUN_VEL, MOON_VEL = 5e-3, 3e-2  # its +-5 d / +-1 d differencing truncates at 0.13 % / 1.1 %
TIMING = 250e-6

MJD_2000 = 51544
MJD_REAL_END = 57790  # the shipped finals tables stop at 2017-02-19; the Sun differencing needs +5 d
MJD_2020_END = 59214

_kernel = {}


def kernel():
    from .. import env

    if "k" not in _kernel:
        _kernel["k"] = od.Kernel(os.path.join(env.repo(), "tests", "data", "jpl", "de403_2000-2020.bsp"))
    return _kernel["k"]


def eop_of(shard):
    return "real" if shard % 2 == 0 else "missing-pass"


def setup_series(shard):
    from .. import env

    env.eop(eop_of(shard))


def pck_of(shard):
    return (shard // 2) % 2 == 0


def encoding_of(shard):
    """The two Chebyshev encodings an SPK file can use for the same trajectory: the shipped kernel is all type 2
    (position polynomials, velocity by differentiation); one shard in four is given a type-3 re-encoding (position
    and velocity polynomials) of the same kernel, one in four a file mixing both."""
    return ["type2", "type3", "mixed", "type2"][(shard // 4) % 4]


def setup_jpl(shard):
    from .. import env

    env.eop(eop_of(shard))
    env.jpl(with_pck=pck_of(shard))
    from beyond.env import jpl

    enc = encoding_of(shard)
    tmp = None
    if enc != "type2":
        import tempfile
        from beyond.config import config

        tmp = tempfile.mkdtemp(prefix="vf-spk-")
        src = os.path.join(env.repo(), "tests", "data", "jpl", "de403_2000-2020.bsp")
        dst = od.write_type3(src, os.path.join(tmp, "de403_2000-2020_t3.bsp"),
                             (lambda t: True) if enc == "type3" else (lambda t: t % 2 == 1))
        files = [dst if f == src else f for f in config.get("env", "jpl", "files")]
        assert dst in files
        config.set("env", "jpl", "files", files)
    jpl.create_frames()
    if tmp is not None:
        # the library has opened the file by now (jplephem keeps the descriptor): nothing is left behind on disk
        assert jpl.Bsp().spk and {s.data_type for s in jpl.Bsp().segments} == ({3} if enc == "type3" else {2, 3})
        import shutil

        shutil.rmtree(tmp, ignore_errors=True)


@st.composite
def date(draw, shard, bands=4, shift=1):
    """Even over the span allowed by the shard's EOP configuration; band chosen by the shard
    (Hypothesis favours small values in the first examples of every run)."""
    hi = MJD_REAL_END if eop_of(shard) == "real" else MJD_2020_END
    band = (shard // 2 // shift) % bands
    width = (hi - MJD_2000) / bands
    lo = MJD_2000 + band * width
    mjd = lo + draw(go.unit()) * width
    d = int(mjd)
    out = dict(shard=shard, mjd=d, sec=draw(go.uniform(0.0, 86399.0)), edge="none",
               ilabel=SIX[(draw(st.integers(0, 5)) + shard) % 6],
               clone=("none", "none", "pickle", "deepcopy", "copy")[(draw(st.integers(0, 4)) + shard) % 5],
               spell=("lower", "title", "upper")[draw(st.integers(0, 2))])
    if draw(st.integers(0, 3)) == 0:
        # days on which something changes: turn of a year, a leap-second day and its eve, the ends of what the
        # EOP tables (real) or the kernel (missing: pass) cover; 5 .. 20 min from 0h UTC on either side
        import datetime

        k = draw(st.integers(0, 20))
        edge = ("year", "leap", "leap-eve", "end")[(draw(st.integers(0, 3)) + shard) % 4]
        last_year = 2016 if eop_of(shard) == "real" else 2020
        leaps = [m for m, _ in od.LEAP if 53000 < m <= (57754 if eop_of(shard) != "real" else 57204)]
        if edge == "year":
            out["mjd"] = (datetime.date(2001 + (k + shard) % (last_year - 2000), 1, 1) - datetime.date(1858, 11, 17)).days - k % 2
        elif edge == "leap":
            out["mjd"] = leaps[(k + shard) % len(leaps)]
        elif edge == "leap-eve":
            out["mjd"] = leaps[(k + shard) % len(leaps)] - 1
        elif eop_of(shard) == "real":
            out["mjd"] = (MJD_2000 + 5, MJD_REAL_END + 5, MJD_REAL_END + 6)[k % 3]
        else:
            out["mjd"] = (51543, 51544, 59209, 59210)[k % 4]  # kernel: 1999-12-24 12h .. 2021-01-02 12h, Sun needs +-5 d
        out["sec"] = float(draw(st.integers(300, 1200)) if k % 3 else draw(st.integers(85200, 86100)))
        out["edge"] = edge
    return out


SIX = ("UTC", "TAI", "TT", "GPS", "UT1", "TDB")


def mkinstant(case):
    """The instant whose UTC reading is (mjd, sec), under the scale label the case asks for and, if it
    says so, as a clone (pickle / copy) of the Date that was built."""
    import copy
    import pickle

    from beyond.dates import Date

    dt = Date(int(case["mjd"]), float(case["sec"]))
    if case.get("ilabel", "UTC") != "UTC":
        dt = dt.change_scale(case["ilabel"])
    how = case.get("clone", "none")
    if how == "pickle":
        dt = pickle.loads(pickle.dumps(dt))
    elif how == "deepcopy":
        dt = copy.deepcopy(dt)
    elif how == "copy":
        dt = copy.copy(dt)
    return dt


def spelled(name, case):
    return dict(lower=name.lower(), title=name.title(), upper=name.upper())[case.get("spell", "lower")]


def mkdate(case, label="UTC"):
    from beyond.dates import Date

    return Date(int(case["mjd"]), float(case["sec"]), scale=label)


def date_classes(case):
    y = 2000 + (case["mjd"] - MJD_2000) / 365.25
    c = [f"{2000 + (int(y) - 2000) // 3 * 3}-{2000 + (int(y) - 2000) // 3 * 3 + 2}"]
    if "ilabel" in case:
        c += [f"label:{case['ilabel']}", f"edge:{case.get('edge', 'none')}", f"date-clone:{case.get('clone', 'none')}"]
    return c


def true_tdb(case):
    """TDB of a UTC instant whatever EOP configuration the library runs with."""
    return od.tdb_jd(case["mjd"], case["sec"], "UTC", od.tai_minus_utc(case["mjd"]))


# ----------------------------------------------------------------- analytical Sun and Moon

BODY = {"sun": (10, SUN_ANG, SUN_DIST, "MOD"), "moon": (301, MOON_ANG, MOON_DIST, "EME2000")}


def series_check(name):
    idx, tol_ang, tol_dist, native = BODY[name]

    def check(case):
        from beyond.env import solarsystem

        dt = mkinstant(case)
        body = solarsystem.get_body(spelled(name, case))
        orb = body.propagate(dt)
        if orb.frame.name != native or orb.form.name != "cartesian":
            raise Violation("series-meta", f"{name}: state returned in {orb.frame.name}/{orb.form.name}")
        got = np.asarray(orb.copy(frame="EME2000", form="cartesian").base, float)
        if not np.all(np.isfinite(got)):
            raise Violation("non-finite", f"{name}: {got.tolist()}")
        ref = kernel().state(idx, 399, *true_tdb(case))
        ang = math.degrees(od.angle(got[:3], ref[:3]))
        dist = abs(float(np.linalg.norm(got[:3])) / float(np.linalg.norm(ref[:3])) - 1.0)
        if ang > tol_ang:
            raise Violation(f"{name}-direction",
                            f"{name} at {dt}: {ang:.4f} deg from DE403 (series accuracy {tol_ang} deg); "
                            f"library {got[:3].tolist()} DE403 {ref[:3].tolist()}")
        if dist > tol_dist:
            raise Violation(f"{name}-distance",
                            f"{name} at {dt}: distance off by {dist:.3g} relative (series accuracy {tol_dist})")
        return dict(nt=True, cls=date_classes(case) + [f"eop:{eop_of(case['shard'])}", f"name:{case.get('spell', 'lower')}"],
                    ratio=max(ang / tol_ang, dist / tol_dist))

    return check


def check_velocity(case):
    from beyond.dates import timedelta
    from beyond.env import solarsystem

    name = case["body"]
    tol = SUN_VEL if name == "sun" else MOON_VEL
    dt = mkinstant(case)
    h = 600.0
    body = solarsystem.get_body(spelled(name, case))
    here = np.asarray(body.propagate(dt).base, float)
    plus = np.asarray(body.propagate(dt + timedelta(seconds=h)).base, float)
    minus = np.asarray(body.propagate(dt - timedelta(seconds=h)).base, float)
    if not (np.all(np.isfinite(here)) and np.all(np.isfinite(plus)) and np.all(np.isfinite(minus))):
        raise Violation("non-finite", f"{name}: {here.tolist()}")
    fd = (plus[:3] - minus[:3]) / (2 * h)
    # the second difference bounds what the +-600 s derivative itself can be off by
    acc = (plus[:3] - 2 * here[:3] + minus[:3]) / h**2
    err = float(np.linalg.norm(here[3:] - fd)) / float(np.linalg.norm(fd))
    if err > tol:
        raise Violation(f"{name}-velocity",
                        f"{name} at {dt}: velocity {here[3:].tolist()} m/s, derivative of its own position "
                        f"{fd.tolist()} m/s ({100 * err:.3g} % apart, allowed {100 * tol} %)")
    # position continuity: the three states lie on one smooth curve
    if float(np.linalg.norm(acc)) * h > 0.05 * float(np.linalg.norm(fd)):
        raise Violation(f"{name}-jump", f"{name} at {dt}: position not smooth over +-{h} s")
    cls = []
    tab = case.get("table")
    hi_ = (MJD_REAL_END if eop_of(case["shard"]) == "real" else MJD_2020_END) - 8
    if tab and not (MJD_2000 + 25 < case["mjd"] - 20 and case["mjd"] + 20 < hi_):
        tab = None                 # (the tabulation and its +-5 d differencing must stay inside the tables)
    if tab:
        # the same body tabulated (forward or backward, step of several days): every tabulated state - velocity
        # included - is the state the body has at that date when asked directly
        orb = body.propagate(dt)
        step = timedelta(days=tab["step_days"])
        kw = dict(start=dt, stop=timedelta(days=tab["dir"] * tab["step_days"] * tab["n"]),
                  step=step if (tab["dir"] > 0 or not tab["neg_step"]) else -step)
        pts = list({"iter": orb.iter, "ephemeris": orb.ephemeris, "ephem": lambda **k: iter(orb.ephem(**k))}[tab["route"]](**kw))
        # (the bodies' states are dated in UT1 / TDB: whether start + n steps still is <= stop costs 1-2 us - not decided
        #  by any listed property; one date short is accepted)
        if len(pts) not in (tab["n"], tab["n"] + 1):
            raise Violation(f"{name}-table-count", f"{name} tabulated from {dt} over {tab['dir'] * tab['step_days'] * tab['n']} d "
                            f"every {tab['step_days']} d: {len(pts)} states")
        for p_ in pts:
            direct = np.asarray(body.propagate(p_.date).base, float)
            got_ = np.asarray(p_.base, float)
            dp_ = float(np.linalg.norm(got_[:3] - direct[:3])) / float(np.linalg.norm(direct[:3]))
            dv_ = float(np.linalg.norm(got_[3:] - direct[3:])) / float(np.linalg.norm(direct[3:]))
            if not (dp_ <= 1e-9 and dv_ <= 1e-4):   # (the velocity is a difference over +-1 d / +-5 d of dates that carry 1-2 us of UT1 / TDB arithmetic)
                raise Violation(f"{name}-table-state", f"{name} tabulated by {tab['route']} ({'forward' if tab['dir'] > 0 else 'backward'}, "
                                f"every {tab['step_days']} d): the state dated {p_.date} is {dp_:.3g} (position) / {dv_:.3g} "
                                f"(velocity) relative away from the body's state at that date")
        cls.append(f"table:{'forward' if tab['dir'] > 0 else 'backward'}")
    return dict(nt=True, cls=date_classes(case) + [name, f"eop:{eop_of(case['shard'])}"] + cls, ratio=err / tol)


@st.composite
def velocity_case(draw, shard, tier):
    c = draw(date(shard))
    c["body"] = "sun" if (shard // 8) % 2 == 0 else "moon"
    if draw(st.integers(0, 3)) == 0:
        c["body"] = "moon" if c["body"] == "sun" else "sun"
    if draw(st.integers(0, 2)) == 0:
        c["table"] = dict(dir=draw(st.sampled_from([1, -1, -1])), n=1,
                          step_days=draw(st.sampled_from([2, 3, 5, 8] if c["body"] == "moon" else [9, 12, 15, 3])),
                          neg_step=draw(st.booleans()), route=draw(st.sampled_from(["iter", "iter", "ephemeris", "ephem"])))
    return c


# ----------------------------------------------------------------- frames / orbits from the kernel


def frame_name(idx):
    from jplephem.names import target_names

    return target_names[idx].title().replace(" ", "")


@st.composite
def jpl_case(draw, shard, tier):
    c = draw(date(shard, bands=4, shift=2))
    c["label"] = draw(st.sampled_from(["UTC", "UTC", "UTC", "TT", "TDB"]))
    c.pop("ilabel", None)  # here the reading itself is given in c["label"]
    return c


def check_jpl_pairs(case):
    from beyond.env import jpl
    from beyond.frames import frames
    from beyond.orbits import StateVector

    K = kernel()
    dt = mkdate(case, case["label"])
    if case.get("clone", "none") != "none":
        import copy
        import pickle

        dt = {"pickle": lambda d: pickle.loads(pickle.dumps(d)), "deepcopy": copy.deepcopy, "copy": copy.copy}[case["clone"]](dt)
    j1, j2 = od.tdb_jd(case["mjd"], case["sec"], case["label"], float(dt.eop.tai_utc))
    with_pck = pck_of(case["shard"])
    ssb = {b: K.state(b, 0, j1, j2) for b in K.bodies}
    names = {b: frame_name(b) for b in K.bodies}
    fr = {b: frames.get_frame(names[b]) for b in K.bodies}
    worst = 0.0

    if len(jpl.list_frames()) != len(K.bodies):
        raise Violation("jpl-frames", f"{len(jpl.list_frames())} frames for {len(K.bodies)} bodies in the kernel")

    if with_pck:
        from .. import env

        gm = od.read_gm(os.path.join(env.repo(), "tests", "data", "jpl", "gm_de431.tpc"))
        for b in K.bodies:
            want = gm[10 if b == 0 else b]
            mu = float(fr[b].center.body.mu)
            if not abs(mu - want) <= 1e-12 * want:
                raise Violation("pck-mu", f"frame {names[b]}: body.mu = {mu!r}, GM of gm_de431.tpc = {want!r} m3/s2")

    def compare(got, ref, scale, what):
        nonlocal worst
        got = np.asarray(got, float)
        if not np.all(np.isfinite(got)):
            raise Violation("non-finite", f"{what}: {got.tolist()}")
        dp = float(np.linalg.norm(got[:3] - ref[:3]))
        dv = float(np.linalg.norm(got[3:] - ref[3:]))
        speed = float(np.linalg.norm(ref[3:]))
        tol_p = speed * TIMING + 1e-3 + 1e-14 * scale
        tol_v = 2e-5 + 1e-13 * speed
        worst = max(worst, dp / tol_p, dv / tol_v)
        if dp > tol_p:
            raise Violation("jpl-position",
                            f"{what} at {dt}: {dp:.6g} m from the chained segments (tol {tol_p:.3g} m = "
                            f"{TIMING * 1e6:.0f} us of motion); library {got[:3].tolist()} segments {ref[:3].tolist()}",
                            equivalent_seconds=dp / max(speed, 1e-9))
        if dv > tol_v:
            raise Violation("jpl-velocity",
                            f"{what} at {dt}: velocity {dv:.6g} m/s from the chained segments; library "
                            f"{got[3:].tolist()} segments {ref[3:].tolist()}")

    targets = list(K.bodies) + ["EME2000"]
    zero = {}
    spellings = set()
    for na, a in enumerate(targets):
        # the same requests spelled differently: frames by object or by name, the body's state through
        # get_orbit(), get_body().propagate() or the body attached to the frame
        by_name = (na + case["mjd"]) % 2 == 0
        src = "EME2000" if a == "EME2000" else (names[a] if by_name else fr[a])
        ia = 399 if a == "EME2000" else a
        orbit = None
        if a not in ("EME2000", 0):
            way = ("get_orbit", "get_body", "frame.body")[(na + case["mjd"]) % 3]
            if way == "get_body" and (not with_pck or K.parent[a] == 0 and a != 10):
                # jpl.get_body() looks the name up in the PCK data ("Mars Barycenter") and among the propagators
                # ("MarsBarycenter"): no spelling serves both, and without PCK files it knows no body at all -
                # it refuses cleanly (UnknownBodyError), so that spelling is only used where the API accepts it
                way = "get_orbit"
            spellings.add(way)
            if way == "get_orbit":
                orbit = jpl.get_orbit(names[a], dt)
            elif way == "get_body":
                orbit = jpl.get_body(names[a]).propagate(dt)
            else:
                orbit = jpl.get_frame(names[a]).center.body.propagate(dt)
            if orbit.frame.name != names[K.parent[a]]:
                raise Violation("jpl-orbit-frame",
                                f"get_orbit({names[a]}) is given in {orbit.frame.name}, the segment's centre is "
                                f"{names[K.parent[a]]}")
            native = ssb[a] - ssb[K.parent[a]]
            compare(orbit.base, native, float(np.linalg.norm(ssb[a][:3])), f"get_orbit({names[a]})")
        for nb, b in enumerate(targets):
            if a == b:
                continue
            dst = "EME2000" if b == "EME2000" else names[b]
            ib = 399 if b == "EME2000" else b
            dst_arg = dst if b == "EME2000" or (na + nb) % 2 else fr[b]
            ref = ssb[ia] - ssb[ib]
            scale = float(np.linalg.norm(ssb[ia][:3]) + np.linalg.norm(ssb[ib][:3]))
            sv = StateVector([0.0] * 6, dt, "cartesian", src)
            got = np.asarray(sv.copy(frame=dst_arg).base, float)
            compare(got, ref, scale, f"centre of {a if a == 'EME2000' else names[a]} seen from {dst}")
            zero[a, b] = got
            if orbit is not None:
                got2 = orbit.copy(frame=dst_arg)
                if got2.frame.name != dst:
                    raise Violation("jpl-orbit-frame", f"get_orbit({names[a]}).copy(frame={dst}) is in {got2.frame.name}")
                compare(got2.base, ref, scale, f"get_orbit({names[a]}) seen from {dst}")
    # every segment of the file taken BACKWARDS (the centre of the segment as seen from its target) through the public
    # JplPropagator(<centre>, <frame of the target>), which the library documents for pairs the file does not hold
    for t_ in K.bodies:
        if t_ == 0:
            continue
        c_ = K.parent[t_]
        rev = jpl.JplPropagator(fr[c_].center, fr[t_]).propagate(dt)
        if rev.frame.name != names[t_]:
            raise Violation("jpl-orbit-frame", f"JplPropagator({names[c_]}, frame {names[t_]}) answers in {rev.frame.name}")
        compare(rev.base, ssb[c_] - ssb[t_], float(np.linalg.norm(ssb[t_][:3])), f"{names[c_]} seen from {names[t_]} (segment reversed)")
    # the root of the kernel is the target of no segment: asking for its orbit is refused - or answered rightly
    try:
        root = jpl.get_orbit(names[0], dt)
    except Exception:
        root = None
    if root is not None:
        ic = next((b for b in K.bodies if names[b] == root.frame.name), None)
        if ic is None:
            raise Violation("jpl-orbit-frame", f"get_orbit({names[0]}) is given in the unknown frame {root.frame.name}")
        compare(root.base, ssb[0] - ssb[ic], float(np.linalg.norm(ssb[ic][:3])), f"get_orbit({names[0]}) (about {names[ic]})")
    if with_pck and 301 in K.bodies and 399 in K.bodies and 3 in K.bodies:
        # the Moon held in an element form (its elements depend on the GM of the frame's central body - different
        # for Earth and EarthBarycenter once the PCK files are configured), sent from one centre to the other
        forms = ["keplerian", "equinoctial", "keplerian_mean", "keplerian_eccentric"]
        form = forms[case["mjd"] % len(forms)]
        moon = jpl.get_orbit(names[301], dt)                  # given about the segment's centre (EarthBarycenter)
        for start, dst in ((names[K.parent[301]], names[399]), (names[399], names[K.parent[301]])):
            held = moon.copy(frame=start).copy(form=form) if moon.frame.name != start else moon.copy(form=form)
            moved = held.copy(frame=dst)
            if moved.form.name != form or moved.frame.name != dst:
                raise Violation("jpl-orbit-frame", f"Moon in {form} form sent to {dst} comes back as {moved.form.name} in {moved.frame.name}")
            ib = next(b for b in K.bodies if names[b] == dst)
            ref = ssb[301] - ssb[ib]
            got = np.asarray(moved.copy(form="cartesian").base, float)
            dp = float(np.linalg.norm(got[:3] - ref[:3])) / float(np.linalg.norm(ref[:3]))
            dv = float(np.linalg.norm(got[3:] - ref[3:])) / float(np.linalg.norm(ref[3:]))
            worst = max(worst, dp / 1e-9, dv / 1e-9)
            if not (dp <= 1e-9 and dv <= 1e-9):
                raise Violation("jpl-form-across-centres", f"Moon held in {form} form about {start}, sent to {dst}: read back in "
                                f"cartesian it is {dp:.3g} (position) / {dv:.3g} (velocity) relative from the chained segments")
    # either direction
    for (a, b), v in zero.items():
        w = zero[b, a]
        scale = float(np.linalg.norm(v[:3]))
        if float(np.linalg.norm(v[:3] + w[:3])) > 1e-3 + 1e-13 * scale * 10 or \
                float(np.linalg.norm(v[3:] + w[3:])) > 1e-9 + 1e-12 * float(np.linalg.norm(v[3:])):
            raise Violation("jpl-antisymmetry", f"{a}->{b} is not the opposite of {b}->{a} at {dt}")
    return dict(nt=True,
                cls=date_classes(case) + [f"eop:{eop_of(case['shard'])}", f"pck:{'on' if with_pck else 'off'}",
                                          f"spk:{encoding_of(case['shard'])}", f"label:{case['label']}", f"edge:{case.get('edge', 'none')}",
                                          f"date-clone:{case.get('clone', 'none')}"] + sorted("by:" + w for w in spellings),
                ratio=worst)


# ----------------------------------------------------------------- call histories (value semantics)

HIST_STEP = {"sun": 5, "moon": 1}  # days: the differencing step of the body's own velocity
HIST_JPL = [("Mars", 499), ("Moon", 301), ("EarthBarycenter", 3)]
MUTATIONS = ["frame:EME2000", "frame:MOD", "frame:ITRF", "form:spherical", "form:keplerian", "zero", "date",
             "scale"]


def hist_is_jpl(shard):
    return shard % 4 >= 2


def setup_history(shard):
    if hist_is_jpl(shard):
        from .. import env

        env.eop(eop_of(shard))
        env.jpl(with_pck=True)
        from beyond.env import jpl

        jpl.create_frames()
    else:
        setup_series(shard)


@st.composite
def history_case(draw, shard, tier):
    from ..gen.draws import D

    d = D(draw)
    hi = (MJD_REAL_END if eop_of(shard) == "real" else MJD_2020_END) - 25
    band = (shard // 4) % 4
    width = (hi - MJD_2000 - 25) // 4
    mjd = MJD_2000 + 25 + band * width + d.int(0, width - 1)
    bodies = ["sun", "moon"] + ([n for n, _ in HIST_JPL] if hist_is_jpl(shard) else [])
    body = bodies[d.int(0, len(bodies) - 1)]
    ops = []
    for _ in range(d.int(3, 12)):
        if d.int(0, 9) < 6:
            # the same date again is as likely as a neighbour one, two or three steps away
            ops.append(dict(op="query", k=d.pick(0, 0, 0, 1, -1, 1, -1, 2, -2, 3, -3)))
        else:
            ops.append(dict(op="mutate", what=MUTATIONS[d.int(0, len(MUTATIONS) - 1)], idx=d.int(0, 11)))
        if d.int(0, 4) == 0:
            # the caller goes on working with something he was handed: propagates it, tabulates from it
            ops.append(dict(op="use", how=d.pick("propagate", "iter", "ephem", "propagate-same"), idx=d.int(0, 11),
                            k=d.pick(0, 1, -1, 2), clone=d.pick("none", "none", "pickle", "copy()", "copy.copy", "deepcopy")))
    if d.int(0, 2) == 0:
        # a typical session: get the state, bring it to one's working frame, propagate / tabulate from it,
        # then ask again for the very first date
        k0 = d.pick(0, 0, 1, -1)
        ops = [dict(op="query", k=k0),
               dict(op="mutate", what=d.pick("frame:EME2000", "frame:MOD", "scale", "form:spherical"), idx=-1),
               dict(op="use", how=d.pick("propagate", "iter", "ephem", "propagate-same"), idx=-1, k=d.pick(1, 2, 0),
                    clone=d.pick("none", "none", "pickle", "copy()", "deepcopy")),
               dict(op="query", k=k0)] + ops
    if not any(o["op"] == "query" for o in ops):
        ops.append(dict(op="query", k=0))
    return dict(shard=shard, body=body, mjd=mjd, sec=float(d.int(0, 86399)) + d.int(0, 999) / 1000.0, ops=ops)


def _mutate(obj, what, other_date):
    """What a caller may do with an object it was handed: all documented in-place idioms.  Whether
    the change itself succeeds is not the subject here (a Sun 'orbit' has no Earth-keplerian form)."""
    try:
        if what.startswith("frame:"):
            obj.frame = what[6:]
        elif what.startswith("form:"):
            obj.form = what[5:]
        elif what == "zero":
            obj.base[:] = 0.0
        elif what == "scale":
            obj.base[:] = np.asarray(obj.base, float) * 1.5 + 7.0
        elif what == "date":
            obj.date = other_date
    except Exception:
        pass


def check_history(case):
    from beyond.dates import Date, timedelta
    from beyond.env import solarsystem

    def fail(kind, msg):
        # one raise site for the whole history: with a cache that outlives the case the *first*
        # symptom differs between a run and its replay in the same process; Hypothesis takes the
        # raise location as the identity of a failure
        raise Violation(kind, msg)

    name = case["body"]
    series = name in HIST_STEP
    step = HIST_STEP.get(name, 1)
    if series:
        idx, tol_ang, tol_dist, native = BODY[name]
        tol_vel = SUN_VEL if name == "sun" else MOON_VEL
        body = solarsystem.get_body(name)

        def ask(dt):
            return body.propagate(dt)
    else:
        from beyond.env import jpl

        idx = dict(HIST_JPL)[name]
        native = frame_name(kernel().parent[idx])

        def ask(dt):
            return jpl.get_orbit(name, dt)

    def date_of(k):
        return Date(int(case["mjd"]) + k * step, float(case["sec"]))

    if not series:
        # every history starts from the same library state (the propagators of kernel bodies are shared
        # objects that remember the orbit last attached to them): attach one of a far date first
        warm = ask(date_of(-20))
        warm.propagate(date_of(-19))
    first = {}  # k -> (values, frame name, form name) of the first answer in this history
    handed = []  # every object the library handed out
    touched = set()  # ... those the caller changed in place
    worst = 0.0
    cls = set()
    for n, op in enumerate(case["ops"]):
        if op["op"] == "mutate":
            if handed:
                tgt = handed[op["idx"] if op["idx"] < 0 else op["idx"] % len(handed)]
                _mutate(tgt, op["what"], date_of(7))
                touched.add(id(tgt))
                cls.add("mutated:" + op["what"].split(":")[0])
            continue
        if op["op"] == "use":
            # the object handed out earlier (changed or not) is used as an orbit: this attaches it to the
            # body's propagator; what comes out is not judged here, later queries and conversions are
            if handed:
                obj = handed[op["idx"] if op["idx"] < 0 else op["idx"] % len(handed)]
                pristine = id(obj) not in touched
                how_clone = op.get("clone", "none")
                if how_clone != "none":
                    # ... or a copy of it that travelled (to a worker process and back, into a container)
                    import copy
                    import pickle

                    obj = {"pickle": lambda o: pickle.loads(pickle.dumps(o)), "copy()": lambda o: o.copy(),
                           "copy.copy": copy.copy, "deepcopy": copy.deepcopy}[how_clone](obj)
                    cls.add("used-clone:" + how_clone)
                if pristine and op["how"] in ("propagate", "iter"):
                    # an object nobody changed is the body's own state: extrapolated, it is the body at the other date
                    if op["how"] == "propagate":
                        out = obj.propagate(date_of(op["k"]))
                        want_d = date_of(op["k"])
                    else:
                        out = list(obj.iter(start=obj.date, stop=timedelta(days=2 * step), step=timedelta(days=step)))[-1]
                        want_d = out.date  # (in UT1, the Sun's native label, start + 2 steps need not be the stop)
                    ref_ = ask(want_d)
                    a_ = np.asarray(out.copy(frame=ref_.frame, form="cartesian").base, float)
                    b_ = np.asarray(ref_.copy(form="cartesian").base, float)
                    if not np.all(np.isfinite(a_)) or float(np.linalg.norm(a_[:3] - b_[:3])) > 1e-3 + 1e-12 * float(np.linalg.norm(b_[:3])) \
                            or float(np.linalg.norm(a_[3:] - b_[3:])) > 1e-6 + 1e-12 * float(np.linalg.norm(b_[3:])):
                        fail("history-use", f"step {n + 1} ({name}): a state handed out earlier"
                             + (f", cloned by {how_clone}," if how_clone != "none" else "")
                             + f" and extrapolated by {op['how']} to {want_d} gives {a_.tolist()}, the body is at {b_.tolist()}")
                    cls.add("used-judged")
                    continue
                try:
                    if op["how"] == "propagate":
                        obj.propagate(date_of(op["k"]))
                    elif op["how"] == "propagate-same":
                        obj.propagate(obj.date)
                    elif op["how"] == "iter":
                        list(obj.iter(start=obj.date, stop=timedelta(days=2 * step), step=timedelta(days=step)))
                    else:
                        obj.ephem(start=obj.date, stop=timedelta(days=2 * step), step=timedelta(days=step))
                except Exception:
                    pass
                cls.add("used:" + op["how"])
            continue
        k = op["k"]
        dt = date_of(k)
        fd = None
        if series and k not in first:
            # the neighbours for the derivative are asked *before* the query proper, and only the
            # first time: nothing of the harness then stands between two consecutive queries
            h = 600.0
            plus = np.asarray(ask(dt + timedelta(seconds=h)).base, float)
            minus = np.asarray(ask(dt - timedelta(seconds=h)).base, float)
            fd = (plus[:3] - minus[:3]) / (2 * h)
        res = ask(dt)
        where = f"step {n + 1} ({name}, date {k:+d} x {step} d)"
        vals = np.array(res.base, float)
        if not np.all(np.isfinite(vals)):
            fail("non-finite", f"{where}: {vals.tolist()}")
        for old in handed:
            if res is old:
                fail("history-same-object", f"{where}: the library handed out an object it had handed out before")
            if np.shares_memory(np.asarray(res.base), np.asarray(old.base)):
                fail("history-shared-buffer", f"{where}: the result shares its buffer with an earlier result")
        if res.frame.name != native or res.form.name != "cartesian":
            fail("history-frame-form",
                            f"{where}: state comes in {res.frame.name}/{res.form.name}, a fresh one is {native}/cartesian")
        if abs((res.date - dt).total_seconds()) > 1.0:
            fail("history-date", f"{where}: state dated {res.date} for a request at {dt}")
        if k in first:
            if not np.array_equal(vals, first[k]):
                fail("history-value",
                                f"{where}: {vals.tolist()} now, {first[k].tolist()} the first time this date was asked")
            cls.add("repeat")
        else:
            first[k] = vals
        # the answer itself, against the ephemeris (what the plain facets check on a pristine process)
        sub = dict(shard=case["shard"], mjd=case["mjd"] + k * step, sec=case["sec"])
        if series:
            got = np.asarray(res.copy(frame="EME2000", form="cartesian").base, float)
            ref = kernel().state(idx, 399, *true_tdb(sub))
            ang = math.degrees(od.angle(got[:3], ref[:3]))
            dist = abs(float(np.linalg.norm(got[:3])) / float(np.linalg.norm(ref[:3])) - 1.0)
            # a repeated answer is bit-identical to the first one, whose velocity was checked
            verr = 0.0 if fd is None else float(np.linalg.norm(vals[3:] - fd)) / float(np.linalg.norm(fd))
            worst = max(worst, ang / tol_ang, dist / tol_dist, verr / tol_vel)
            if ang > tol_ang or dist > tol_dist:
                fail("history-position",
                                f"{where}: {ang:.4f} deg / {dist:.3g} from DE403 (allowed {tol_ang} deg / {tol_dist})")
            if verr > tol_vel:
                fail("history-velocity",
                                f"{where}: velocity {vals[3:].tolist()} m/s is {100 * verr:.3g} % away from the derivative "
                                f"of the position {fd.tolist()} (allowed {100 * tol_vel} %)")
        else:
            j1, j2 = od.tdb_jd(sub["mjd"], sub["sec"], "UTC", float(dt.eop.tai_utc))
            K = kernel()
            ref = K.state(idx, K.parent[idx], j1, j2)
            speed = float(np.linalg.norm(ref[3:]))
            dp = float(np.linalg.norm(vals[:3] - ref[:3]))
            dv = float(np.linalg.norm(vals[3:] - ref[3:]))
            tol_p = speed * TIMING + 1e-3 + 1e-14 * float(np.linalg.norm(ref[:3]))
            worst = max(worst, dp / tol_p, dv / (2e-5 + 1e-13 * speed))
            if dp > tol_p or dv > 2e-5 + 1e-13 * speed:
                fail("history-position", f"{where}: {dp:.4g} m, {dv:.4g} m/s from the kernel segment")
        if not series:
            # a conversion that crosses the body's leg of the kernel tree, at the same date
            from beyond.orbits import StateVector

            seen = np.asarray(StateVector([0.0] * 6, dt, "cartesian", name).copy(frame="EME2000").base, float)
            ref_e = K.state(idx, 399, j1, j2)
            speed_e = float(np.linalg.norm(ref_e[3:]))
            dpe = float(np.linalg.norm(seen[:3] - ref_e[:3]))
            tol_e = speed_e * TIMING + 1e-3 + 1e-14 * (float(np.linalg.norm(K.state(idx, 0, j1, j2)[:3])) + 1.5e11)
            worst = max(worst, dpe / tol_e)
            if dpe > tol_e:
                fail("history-conversion", f"{where}: centre of {name} seen from EME2000 is {dpe:.4g} m from the chained "
                                           f"kernel segments")
        handed.append(res)
        cls.add(f"k:{abs(k)}")
    nq = sum(1 for o in case["ops"] if o["op"] == "query")
    return dict(nt=nq >= 2 and any(o["op"] == "mutate" for o in case["ops"]),
                cls=sorted(cls) + [name if series else "kernel-body", f"eop:{eop_of(case['shard'])}"], ratio=worst)


# ----------------------------------------------------------------- tabulations (iter / ephem)

TAB_LABELS = ["UTC", "UT1", "TAI", "TT", "TDB", "GPS"]
TAB_MODES = ["iter", "iter-stop-delta", "dates", "dates-reversed", "ephem", "ephemeris", "backward", "backward-negstep",
             "iter-exact-stop"]
# 0h UTC of these days follows an inserted leap second (own table, 2000-2017 = span of the shipped EOP files)
LEAP_MIDNIGHTS = [m for m, _ in od.LEAP if 53000 < m <= 57754]
TAB_STEPS = [600, 900, 1800, 3600, 7200, 21600]


def setup_tab(shard):
    from .. import env

    env.eop("real")
    env.jpl(with_pck=shard % 2 == 0)
    from beyond.env import jpl

    jpl.create_frames()


@st.composite
def tab_case(draw, shard, tier):
    from ..gen.draws import D

    d = D(draw)
    kind = ("leap", "leap", "midnight", "ordinary")[(d.int(0, 3) + shard) % 4]
    n = d.int(3, 10)
    step = TAB_STEPS[d.int(0, len(TAB_STEPS) - 1)]
    if kind == "leap":
        day = LEAP_MIDNIGHTS[(d.int(0, len(LEAP_MIDNIGHTS) - 1) + shard) % len(LEAP_MIDNIGHTS)]
    else:
        day = d.int(MJD_2000 + 30, MJD_REAL_END - 30)
        while day in LEAP_MIDNIGHTS:
            day += 1
    if kind == "ordinary":
        step = min(step, 3600)
        start_ms = day * 86400000 + d.int(7200, 12000) * 1000 + d.int(0, 999)
    else:
        # midnight between samples j0 and j0 + 1, every sample >= 300 s (label reading) away from it
        j0 = d.int(0, n - 2)
        slack = step // 2 - 300
        start_ms = day * 86400000 - (2 * j0 + 1) * step * 500 + d.int(-slack, slack) * 1000 + d.int(0, 999)
    names = [frame_name(b) for b in sorted(kernel().parent)]
    return dict(shard=shard, kind=kind, body=names[(d.int(0, len(names) - 1) + shard) % len(names)],
                label=TAB_LABELS[(d.int(0, 5) + shard) % 6], mode=TAB_MODES[(d.int(0, 8) + shard // 2) % 9],
                start_ms=start_ms, step=step, n=n, origin=d.int(-3, 3))


def check_tabulate(case):
    """Every state of a tabulation is the kernel's state at that state's own date."""
    from beyond.dates import Date, timedelta
    from beyond.env import jpl

    from ..oracles import iers
    from .. import env

    K = kernel()
    name, label, n, step = case["body"], case["label"], case["n"], case["step"]
    idx = {frame_name(b): b for b in K.parent}[name]
    parent = frame_name(K.parent[idx])
    tab = iers.tables(env.repo())

    def reading(k):
        ms = case["start_ms"] + k * step * 1000
        return ms // 86400000, (ms % 86400000) / 1000.0

    def date_of(k):
        m, sec = reading(k)
        return Date(int(m), sec, scale=label)

    def tdb_of(k):
        m, sec = reading(k)
        if label == "UTC":
            return od.tdb_jd(m, sec, "UTC", od.tai_minus_utc(m))
        if label == "UT1":
            # UT1 reading -> UTC reading with the tabulated UT1-UTC of the day (samples stay >= 230 s from 0h)
            tot = sec - tab.days[m]["ut1_utc"]
            return od.tdb_jd(m, tot, "UTC", od.tai_minus_utc(m))
        if label == "GPS":
            return od.tdb_jd(m, sec + 19.0, "TAI", 0.0)
        return od.tdb_jd(m, sec, label, 0.0)

    order = list(range(n))
    mode = case["mode"]
    if mode == "iter-exact-stop" and label in ("UT1", "TDB"):
        # (date arithmetic on a UT1 / TDB label costs 1-2 us per step - the library keeps such readings through a float
        # day count: whether start + (n - 1) steps still is <= stop is not decided by any listed property)
        mode = "iter"
    orb0 = jpl.get_orbit(name, date_of(case["origin"]))
    dt_step = timedelta(seconds=step)
    half = timedelta(seconds=step / 2.0)
    if mode == "iter":
        got = list(orb0.iter(start=date_of(0), stop=date_of(n - 1) + half, step=dt_step))
    elif mode == "iter-exact-stop":
        # documented: start / stop / step work as Date.range(start, stop, step, inclusive=True)
        got = list(orb0.iter(start=date_of(0), stop=date_of(n - 1), step=dt_step))
    elif mode == "iter-stop-delta":
        got = list(orb0.iter(start=date_of(0), stop=timedelta(seconds=step * (n - 1) + step / 2.0), step=dt_step))
    elif mode == "dates":
        got = list(orb0.iter(dates=[date_of(k) for k in order]))
    elif mode == "dates-reversed":
        order = order[::-1]
        got = list(orb0.iter(dates=[date_of(k) for k in order]))
    elif mode == "ephem":
        got = list(orb0.ephem(start=date_of(0), stop=date_of(n - 1) + half, step=dt_step))
    elif mode == "ephemeris":
        got = list(orb0.ephemeris(start=date_of(0), stop=date_of(n - 1) + half, step=dt_step))
    elif mode == "backward":
        order = order[::-1]
        got = list(orb0.iter(start=date_of(n - 1), stop=date_of(0) - half, step=dt_step))
    else:
        order = order[::-1]
        got = list(orb0.iter(start=date_of(n - 1), stop=date_of(0) - half, step=timedelta(seconds=-step)))

    def fail(kind, msg):
        raise Violation(kind, f"{name} tabulated by {mode} ({label} dates, {case['kind']} range): {msg}")

    if len(got) != n:
        fail("tab-count", f"{len(got)} states for {n} dates")
    worst = 0.0
    for pos, (k, orb) in enumerate(zip(order, got)):
        want_date = date_of(k)
        if abs((orb.date - want_date).total_seconds()) > 2e-6:
            fail("tab-dates", f"state {pos} is dated {orb.date}, asked for {want_date}")
        if orb.frame.name != parent or orb.form.name != "cartesian":
            fail("tab-frame", f"state {pos} comes in {orb.frame.name}/{orb.form.name}")
        vals = np.asarray(orb.base, float)
        if not np.all(np.isfinite(vals)):
            fail("non-finite", f"state {pos}: {vals.tolist()}")
        ref = K.state(idx, K.parent[idx], *tdb_of(k))
        speed = float(np.linalg.norm(ref[3:]))
        dp = float(np.linalg.norm(vals[:3] - ref[:3]))
        dv = float(np.linalg.norm(vals[3:] - ref[3:]))
        tol_p = speed * TIMING + 1e-3 + 1e-14 * float(np.linalg.norm(ref[:3]))
        tol_v = 2e-5 + 1e-13 * speed
        worst = max(worst, dp / tol_p, dv / tol_v)
        if dp > tol_p or dv > tol_v:
            fail("tab-state", f"state {pos} of {n} (dated {orb.date}) is {dp:.6g} m, {dv:.3g} m/s from the kernel at its "
                              f"own date = {dp / max(speed, 1e-9):.6f} s of motion (tol {tol_p:.3g} m)")
    return dict(nt=True, cls=[f"range:{case['kind']}", f"label:{label}", f"mode:{mode}"], ratio=worst)


LEVEL_TEXT = ("Property-based search over dates of 2000-2020: the analytical Sun and Moon against DE403 "
              "read directly with jplephem, their velocities against the derivative of their own "
              "positions; every ordered pair of kernel bodies (enumerated) against the chained segments, "
              "under two EOP configurations and with / without PCK files.")
LEVEL_NOTE = ("Exploration, not proof: dates are sampled (the series errors vary over days, the sampling "
              "of the thorough tier is much denser than that). The series are validated to the accuracy "
              "the property names, not coefficient by coefficient.")
TECHNIQUE = "hypothesis strategies + differential oracle (jplephem on the same kernel, own chaining and TDB)"

FACETS = [
    Facet("sun", lambda s, t: date(s), series_check("sun"), setup=setup_series,
          rule="every case", quick=(8, 250), thorough=(16, 4000)),
    Facet("moon", lambda s, t: date(s), series_check("moon"), setup=setup_series,
          rule="every case", quick=(8, 250), thorough=(16, 4000)),
    Facet("velocity", velocity_case, check_velocity, setup=setup_series,
          rule="every case", quick=(16, 100), thorough=(16, 2500)),
    Facet("history", history_case, check_history, setup=setup_history,
          rule="at least two queries and one in-place change of a returned object in the history",
          quick=(8, 120), thorough=(16, 2000)),
    Facet("tabulate", tab_case, check_tabulate, setup=setup_tab,
          rule="every case: 3-10 states of one tabulation, each against the kernel at its own date",
          quick=(8, 80), thorough=(16, 1500)),
    Facet("jpl_pairs", jpl_case, check_jpl_pairs, setup=setup_jpl,
          rule="every case = 272 ordered (from, to) pairs x {zero state, get_orbit} at one date",
          quick=(16, 5), thorough=(48, 60)),
]
