"""C01 - orbital element forms are lossless, definition-true views of one state."""

import math

import numpy as np
from hypothesis import assume, strategies as st

from ..core import Facet, Violation
from ..gen import orbits as go
from ..oracles import twobody as tb

RULE = ("Orbits drawn as (rp,e,i,raan,argp,anomaly,body) and turned into coordinates by the "
        "oracle (never by the library); all 100 (source,target) form pairs plus a drawn "
        "intermediate form.")
ASSUMPTIONS = [
    "oracle: vector-formula element extraction and perifocal construction in vf/oracles/twobody.py",
    "e within (0.99,1.001) and i within 0.01 rad of 0/pi are outside the quantifier",
    "hyperbolic orbits only in the 8 forms defined for them (not tle, not keplerian_mean_circular)",
]

FORMS = ["cartesian", "spherical", "cylindrical", "keplerian", "keplerian_eccentric",
         "keplerian_mean", "keplerian_circular", "keplerian_mean_circular", "equinoctial", "tle"]
HYP_FORMS = [f for f in FORMS if f not in ("tle", "keplerian_mean_circular")]
TWO_PI = 2 * math.pi

_frames = {}


def frame_for(body):
    """A non-rotating frame centred on `body` (form conversions only read frame.center.body)."""
    if body == "Earth":
        return "EME2000"
    if body not in _frames:
        from beyond import constants
        from beyond.frames import center, frames, orient

        c = center.Center(f"VF{body}C", body=getattr(constants, body))
        _frames[body] = frames.Frame(f"VF{body}", orient.EME2000, c)
    return _frames[body]


SISTER_K = (0.7, 1.3)


def sister_frame(body, k):
    """A frame with the same origin and axes as frame_for(body), whose central body is k times as massive:
    changing to it leaves position and velocity alone and changes every mu-dependent element."""
    name = f"VF{body}x{k}"
    if name not in _frames:
        from beyond import constants
        from beyond.frames import center, frames, orient

        import copy

        from beyond.dates import Date
        from beyond.orbits import StateVector

        base = frames.get_frame(frame_for(body)) if isinstance(frame_for(body), str) else frame_for(body)
        b = getattr(constants, body)
        # the new body is DERIVED from one that has already served (the way beyond.env.solarsystem derives its
        # bodies: a copy, then other attributes), not built from scratch: nothing the first body picked up while
        # serving may stick to the second
        r0 = 3 * b.equatorial_radius
        StateVector([r0, 0, 0, 0, math.sqrt(b.mu / r0), 1.0], Date(2010, 1, 1), "cartesian", base).copy(form="tle")
        b2 = copy.deepcopy(b)
        b2.name = name
        b2.mass = b.mass * k
        c = center.Center(name + "C", body=b2)
        c.add_link(base.center, orient.EME2000, np.zeros(6))
        _frames[name] = frames.Frame(name, orient.EME2000, c)
    return _frames[name]


def mu_of(body):
    from beyond import constants

    return getattr(constants, body).mu


def oracle_coords(el, form, mu, cart):
    """The six numbers of `form` computed from the drawn elements (raw, unwrapped anomalies)."""
    a, e, i, O, w, nu, an = el["a"], el["e"], el["i"], el["raan"], el["argp"], el["nu"], el["anom"]
    if form == "cartesian":
        return list(cart)
    if form == "keplerian":
        return [a, e, i, O, w, nu]
    if e < 1:
        E = tb.solve_kepler_E(an, e)
        M = an
    else:
        E = an
        M = e * math.sinh(an) - an
    if form == "keplerian_eccentric":
        return [a, e, i, O, w, E]
    if form == "keplerian_mean":
        return [a, e, i, O, w, M]
    if form == "keplerian_circular":
        return [a, e * math.cos(w), e * math.sin(w), i, O, w + nu]
    if form == "keplerian_mean_circular":
        return [a, e * math.cos(w), e * math.sin(w), i, O, w + M]
    if form == "equinoctial":
        return [a, e * math.cos(O + w), e * math.sin(O + w), math.tan(i / 2) * math.cos(O),
                math.tan(i / 2) * math.sin(O), O + w + nu]
    if form == "tle":
        return [i, O, e, w, M, math.sqrt(mu / a**3)]
    x, y, z, vx, vy, vz = cart
    if form == "spherical":
        r = math.sqrt(x * x + y * y + z * z)
        rho2 = x * x + y * y
        return [r, math.atan2(y, x), math.asin(z / r), (x * vx + y * vy + z * vz) / r,
                (x * vy - y * vx) / rho2,
                (vz * rho2 - z * (x * vx + y * vy)) / (r * r * math.sqrt(rho2))]
    if form == "cylindrical":
        rho = math.hypot(x, y)
        return [rho, math.atan2(y, x), z, (x * vx + y * vy) / rho, (x * vy - y * vx) / rho**2, vz]
    raise ValueError(form)


def kappa(el):
    """Conditioning of the element <-> cartesian maps at this point."""
    e = el["e"]
    k = 1.0 / abs(1 - e)
    if e > 1:
        # atanh(tanh H) in keplerian->eccentric loses cosh^2 H
        k *= math.cosh(el["anom"]) ** 2
    k *= 1 / math.sin(el["i"])
    return k


def kappa_polar(cart):
    """spherical / cylindrical rates divide by x^2+y^2."""
    r = math.sqrt(cart[0] ** 2 + cart[1] ** 2 + cart[2] ** 2)
    rho = math.hypot(cart[0], cart[1])
    return (r / rho) ** 2 if rho > 0 else float("inf")


def cart_err(got, ref):
    got = np.asarray(got, float)
    ref = np.asarray(ref, float)
    if not np.all(np.isfinite(got)):
        return float("inf"), float("inf")
    return (float(np.linalg.norm(got[:3] - ref[:3]) / np.linalg.norm(ref[:3])),
            float(np.linalg.norm(got[3:] - ref[3:]) / np.linalg.norm(ref[3:])))


def classes(el):
    c = []
    e = el["e"]
    if e > 1:
        c.append("hyperbolic")
        if e >= 3.6:
            c.append("e>=3.6")
        elif e >= 1.6:
            c.append("e>=1.6")
        if abs(el["anom"]) > 3:
            c.append("|H|>3")
    else:
        if el["anom"] < 0:
            c.append("M<0")
        if el["anom"] > math.pi:
            c.append("M>pi")
        if e < 1e-2:
            c.append("e<1e-2")
    if el["i"] > math.pi / 2:
        c.append("retrograde")
    return c


# ------------------------------------------------------------------ round trips

BODIES = ("Earth", "Earth", "Moon", "Sun", "Mars")


@st.composite
def rt_case(draw, shard, nshards):
    hyp = draw(st.integers(0, 9)) < 4
    el = draw(go.elements(elliptic=not hyp, hyperbolic=hyp, bodies=BODIES))
    forms = HYP_FORMS if hyp else FORMS
    # all ordered pairs enumerated: the shard walks through them cyclically
    pair = draw(st.integers(0, len(forms) ** 2 - 1))
    src, tgt = forms[pair // len(forms)], forms[pair % len(forms)]
    via = draw(st.sampled_from(forms))
    mode = draw(st.sampled_from(["copy", "setter", "direct"]))
    return dict(el=el, src=src, tgt=tgt, via=via, mode=mode)


def check_roundtrip(case):
    from beyond.dates import Date
    from beyond.orbits import StateVector

    el = case["el"]
    mu = mu_of(el["body"])
    cart = tb.kep2cart(el["a"], el["e"], el["i"], el["raan"], el["argp"], el["nu"], mu)
    coords = oracle_coords(el, case["src"], mu, cart)
    sv = StateVector(coords, Date(2020, 1, 1), case["src"], frame_for(el["body"]))
    if case["mode"] == "copy":
        out = sv.copy(form=case["via"]).copy(form=case["tgt"]).copy(form="cartesian")
    elif case["mode"] == "setter":
        out = sv.copy()
        out.form = case["via"]
        out.form = case["tgt"]
        if out.form.name != case["tgt"]:
            raise Violation("form-name", f"form is {out.form.name} after set to {case['tgt']}")
        out.form = "cartesian"
    else:
        out = sv.copy(form=case["tgt"]).copy(form="cartesian")
    if out.form.name != "cartesian":
        raise Violation("form-name", f"{out.form.name}")
    k = kappa(el)
    if {"spherical", "cylindrical"} & {case["src"], case["via"], case["tgt"]}:
        assume(kappa_polar(cart) < 1e6)  # the polar axis is a coordinate singularity of these forms
        k *= kappa_polar(cart)
    dr, dv = cart_err(out.base, cart)
    tol = 1e-11 * k + 1e-10
    if dr > tol or dv > tol:
        raise Violation(
            "roundtrip",
            f"{case['src']}->{case['via']}->{case['tgt']}->cartesian off by dr={dr:.3g} dv={dv:.3g} "
            f"(tol {tol:.3g}) e={el['e']:.6g} anom={el['anom']:.6g}",
            dr=dr, dv=dv, tol=tol)
    # the source object must be untouched by copy()
    if case["mode"] != "setter" and not np.array_equal(np.asarray(sv.base), np.asarray(coords, float)):
        raise Violation("source-mutated", "copy(form=) changed the receiver")
    return dict(nt=True, cls=classes(el) + [f"mode:{case['mode']}"], ratio=max(dr, dv) / tol)


# ------------------------------------------------------------------ definitions

ANGLE_IDX = {
    "keplerian": {3, 4, 5}, "keplerian_eccentric": {3, 4, 5}, "keplerian_mean": {3, 4, 5},
    "keplerian_circular": {4, 5}, "keplerian_mean_circular": {4, 5}, "equinoctial": {5},
    "tle": {1, 3, 4}, "spherical": {1}, "cylindrical": {1},
}


@st.composite
def def_case(draw, shard, nshards):
    hyp = draw(st.integers(0, 9)) < 4
    el = draw(go.elements(elliptic=not hyp, hyperbolic=hyp, bodies=BODIES))
    return dict(el=el)


def check_definitions(case):
    from beyond.dates import Date
    from beyond.orbits import StateVector

    el = case["el"]
    e = el["e"]
    mu = mu_of(el["body"])
    cart = tb.kep2cart(el["a"], e, el["i"], el["raan"], el["argp"], el["nu"], mu)
    # reference elements re-derived from the cartesian state by vector formulas
    ref = tb.cart2elements(cart, mu)
    rel = dict(el)
    rel.update(a=ref["a"], e=ref["e"], i=ref["i"], raan=ref["raan"], argp=ref["argp"], nu=ref["nu"])
    rel["anom"] = ref["M"] if e < 1 else ref["E"]
    sv = StateVector(cart, Date(2020, 1, 1), "cartesian", frame_for(el["body"]))
    k = kappa(el)
    forms = HYP_FORMS if e > 1 else FORMS
    worst = 0.0
    for form in forms:
        if form in ("spherical", "cylindrical") and kappa_polar(cart) >= 1e6:
            continue
        got = np.asarray(sv.copy(form=form).base, float)
        want = oracle_coords(rel, form, mu, cart)
        if not np.all(np.isfinite(got)):
            raise Violation("non-finite", f"{form}: {got.tolist()}")
        names = sv.copy(form=form).form.param_names
        for j, (g, w) in enumerate(zip(got, want)):
            if j in ANGLE_IDX.get(form, ()) and not (e > 1 and form in ("keplerian_eccentric", "keplerian_mean") and j == 5):
                d = abs(tb.angdiff(g, w))
                scale = 1.0
                # perigee-related angles are ill-conditioned as 1/e
                if names[j] in ("ω", "ν", "E", "M"):
                    scale = 1.0 / min(1.0, e)
            else:
                d = abs(g - w) / max(abs(w), 1e-300)
                scale = 1.0
                if names[j] == "e" or (names[j] in ("ex", "ey")):
                    # e = sqrt(1 - h^2/(a mu)) carries an absolute error eps/e
                    d = abs(g - w)
                    scale = 1.0 / min(1.0, e)
                if names[j] in ("E", "M"):  # hyperbolic anomalies pass through zero
                    d = abs(g - w) / max(abs(w), 1.0)
                if form in ("spherical", "cylindrical"):
                    scale = kappa_polar(cart)
                if names[j] in ("ix", "iy", "φ_dot", "r_dot", "z", "vz", "φ"):
                    # components that can legitimately pass through zero: compare absolutely
                    ref_mag = {"ix": 1.0, "iy": 1.0,
                               "φ_dot": ref["v"] / ref["r"], "r_dot": ref["v"], "z": ref["r"],
                               "vz": ref["v"], "φ": 1.0}[names[j]]
                    d = abs(g - w) / ref_mag
            tol = (1e-10 * k + 1e-9) * scale
            worst = max(worst, d / tol)
            if d > tol:
                raise Violation(
                    "definition",
                    f"{form}.{names[j]} = {g!r}, textbook value {w!r} (diff {d:.3g}, tol {tol:.3g}) e={e:.6g}",
                    form=form, name=names[j])
    return dict(nt=True, cls=classes(el), ratio=worst)


# ------------------------------------------------------------------ infos


def check_infos(case):
    """Infos of the state as built, then of the same object after it was changed in place (its derived
    quantities had been read before: they must follow the new values, not a cached conversion)."""
    from beyond.dates import Date
    from beyond.orbits import StateVector

    el = case["el"]
    mu = mu_of(el["body"])
    cart = tb.kep2cart(el["a"], el["e"], el["i"], el["raan"], el["argp"], el["nu"], mu)
    form = case.get("form", "cartesian")
    sv = StateVector(cart, Date(2020, 1, 1), "cartesian", frame_for(el["body"])).copy(form=form)
    out = _infos_of(sv, cart, el, mu, form)
    # in-place change through the public API: cartesian form, velocity scaled (stays elliptic / hyperbolic)
    k = 0.97 if el["e"] < 1 else 1.05
    sv.form = "cartesian"
    sv[3:] = np.asarray(sv.base, float)[3:] * k
    cart2 = np.array(sv.base, float)
    el2 = tb.cart2elements(cart2, mu)
    if (el["e"] < 1) == (el2["e"] < 1) and abs(1 - el2["e"]) > 1e-2 and el2["a"] * (1 - el2["e"]) > 0:
        el2 = dict(el, a=el2["a"], e=el2["e"], i=el2["i"], raan=el2["raan"], argp=el2["argp"], nu=el2["nu"],
                   anom=el2["M"] if el2["e"] < 1 else el2["E"])
        out2 = _infos_of(sv, cart2, el2, mu, "cartesian")
        out["ratio"] = max(out["ratio"], out2["ratio"])
        out["cls"] = out["cls"] + ["re-read-after-change"]
    return out


def _infos_of(sv, cart, el, mu, form):
    e = el["e"]
    ref = tb.cart2elements(cart, mu)
    inf = sv.infos
    k = kappa(el)
    if form in ("spherical", "cylindrical"):
        assume(kappa_polar(cart) < 1e6)
        k *= kappa_polar(cart)
    tol = 1e-10 * k + 1e-9

    worst = [0.0]

    def close(name, got, want, t=tol, absolute=None):
        got = float(got)
        if not math.isfinite(got):
            raise Violation("infos-nonfinite", f"infos.{name} = {got}")
        d = abs(got - want) / (absolute if absolute else max(abs(want), 1e-300))
        worst[0] = max(worst[0], d / t)
        if d > t:
            raise Violation(f"infos-{name}", f"infos.{name} = {got!r}, defining relation gives {want!r} (e={e:.6g})")

    a = ref["a"]
    close("r", inf.r, ref["r"])
    close("v", inf.v, ref["v"])
    close("energy", inf.energy, ref["v"] ** 2 / 2 - mu / ref["r"])
    close("n", inf.n, math.sqrt(mu / abs(a) ** 3))
    close("rp", inf.rp, a * (1 - ref["e"]))
    close("pericenter", inf.pericenter, a * (1 - ref["e"]))
    close("vp", inf.vp, math.sqrt(mu * (2 / (a * (1 - ref["e"])) - 1 / a)))
    body_r = sv.frame.center.body.r
    close("zp", inf.zp, a * (1 - ref["e"]) - body_r, absolute=abs(a))
    sin_fpa = ref["rdotv"] / (ref["r"] * ref["v"])
    fpa = math.asin(max(-1.0, min(1.0, sin_fpa)))
    ftol = 1e-9 * k + 1e-9
    close("fpa", inf.fpa, fpa, t=ftol, absolute=1.0)
    close("sin_fpa", inf.sin_fpa, math.sin(fpa), t=ftol, absolute=1.0)
    close("cos_fpa", inf.cos_fpa, math.cos(fpa), t=ftol, absolute=1.0)
    if e < 1:
        if not (inf.elliptic and not inf.hyperbolic and inf.type == "elliptic"):
            raise Violation("infos-type", f"type {inf.type}")
        close("period", inf.period.total_seconds(), TWO_PI * math.sqrt(a**3 / mu), t=tol + 1e-6 / (TWO_PI * math.sqrt(a**3 / mu)))
        close("ra", inf.ra, a * (1 + ref["e"]))
        close("apocenter", inf.apocenter, a * (1 + ref["e"]))
        close("za", inf.za, a * (1 + ref["e"]) - body_r, absolute=abs(a))
        close("va", inf.va, math.sqrt(mu * (2 / (a * (1 + ref["e"])) - 1 / a)))
        for nm in ("vinf", "dinf"):
            try:
                getattr(inf, nm)
            except ValueError:
                pass
            else:
                raise Violation("infos-raise", f"infos.{nm} did not raise for an ellipse")
    else:
        if not (inf.hyperbolic and not inf.elliptic and inf.type == "hyperbolic"):
            raise Violation("infos-type", f"type {inf.type}")
        close("vinf", inf.vinf, math.sqrt(2 * ref["energy"]))
        # distance focus <-> asymptote = semi-minor axis |a| sqrt(e^2-1) = h / vinf
        close("dinf", inf.dinf, ref["h"] / math.sqrt(2 * ref["energy"]))
        for nm in ("period", "apocenter", "ra", "va", "za"):
            try:
                getattr(inf, nm)
            except ValueError:
                pass
            else:
                raise Violation("infos-raise", f"infos.{nm} did not raise for a hyperbola")
    return dict(nt=True, cls=classes(el), ratio=worst[0])


@st.composite
def infos_case(draw, shard, nshards):
    hyp = draw(st.integers(0, 9)) < 4
    el = draw(go.elements(elliptic=not hyp, hyperbolic=hyp, bodies=BODIES))
    form = draw(st.sampled_from(HYP_FORMS if hyp else FORMS))
    return dict(el=el, form=form)


# ------------------------------------------------------------------ walks (history of form changes)


@st.composite
def walk_case(draw, shard, nshards):
    """Two or three states around different bodies, walked through the forms in an interleaved order."""
    n = draw(st.integers(2, 3))
    objs = []
    for _ in range(n):
        hyp = draw(st.integers(0, 9)) < 3
        objs.append(draw(go.elements(elliptic=not hyp, hyperbolic=hyp, bodies=BODIES)))
    ops = []
    for _ in range(draw(st.integers(4, 14))):
        ops.append(dict(op=draw(st.sampled_from(["set", "set", "copy", "infos", "twin", "reframe", "clone"])),
                        how=draw(st.sampled_from(["copy", "deepcopy", "pickle"])), by_object=draw(st.booleans()),
                        obj=draw(st.integers(0, n - 1)), form=draw(st.integers(0, 9)),
                        k=draw(st.integers(0, len(SISTER_K))), inplace=draw(st.booleans())))
    return dict(objs=objs, ops=ops)


def check_walk(case):
    from beyond.dates import Date
    from beyond.orbits import StateVector

    svs, refs, ks, polar = [], [], [], []
    els = [dict(el) for el in case["objs"]]  # the elements of each state around its *current* central body
    mus = [mu_of(el["body"]) for el in els]
    reframed = cloned = 0
    # every frame of this case exists before the first state is built (a pickle / deepcopy clone carries its
    # own copy of the frame graph as it was when the clone was made)
    for el in case["objs"]:
        for k_ in SISTER_K:
            sister_frame(el["body"], k_)
    for el in case["objs"]:
        mu = mu_of(el["body"])
        cart = tb.kep2cart(el["a"], el["e"], el["i"], el["raan"], el["argp"], el["nu"], mu)
        assume(kappa_polar(cart) < 1e6)
        if len(svs) % 2:
            # every other state is an Orbit (a StateVector with a propagator given by name): same views
            from beyond.orbits import Orbit

            svs.append(Orbit(cart, Date(2020, 1, 1), "cartesian", frame_for(el["body"]), "Kepler"))
        else:
            svs.append(StateVector(cart, Date(2020, 1, 1), "cartesian", frame_for(el["body"])))
        refs.append(cart)
        ks.append(kappa(el))
        polar.append(kappa_polar(cart))
    steps = [0] * len(svs)
    worst = 0.0
    for n, op in enumerate(case["ops"]):
        i = op["obj"]
        el = els[i]
        forms = HYP_FORMS if el["e"] > 1 else FORMS
        form = forms[op["form"] % len(forms)]
        if form in ("spherical", "cylindrical"):
            ks[i] = max(ks[i], kappa(el) * polar[i])
        expect_form = form if op["op"] in ("set", "copy") else None
        if op["op"] == "reframe":
            # same origin, same axes, another central body: position and velocity stay, the elements are
            # those around the new body
            body = case["objs"][i]["body"]
            k = op.get("k", 0)
            mu2 = mu_of(body) * (SISTER_K[k - 1] if k else 1.0)
            try:
                e2 = tb.cart2elements(refs[i], mu2)
            except (ZeroDivisionError, ValueError):
                # exactly parabolic around the new body, or so close to it that the oracle's e < 1 meets an energy > 0
                # (math domain error in sqrt(mu / a^3)): outside the quantifier
                e2 = dict(e=1.0)
            ok = (1e-4 <= e2["e"] <= 0.99 or 1.001 <= e2["e"] <= 20) and \
                (e2["e"] < 1 or svs[i].form.name in HYP_FORMS)
            if ok and mu2 != mus[i]:
                new = sister_frame(body, SISTER_K[k - 1]) if k else frame_for(body)
                expect_form = svs[i].form.name  # a change of frame keeps the form
                if op.get("inplace"):
                    svs[i].frame = new
                else:
                    svs[i] = svs[i].copy(frame=new)
                mus[i] = mu2
                els[i] = el = dict(el, a=e2["a"], e=e2["e"], anom=e2["M"] if e2["e"] < 1 else e2["E"])
                ks[i] = max(ks[i], kappa(el) * (polar[i] if svs[i].form.name in ("spherical", "cylindrical") else 1))
                steps[i] += 1
                reframed += 1
        elif op["op"] == "clone":
            # the state is replaced by its stdlib copy / deepcopy / pickle clone: same numbers, same form
            import copy
            import pickle

            old = svs[i]
            svs[i] = {"copy": copy.copy, "deepcopy": copy.deepcopy,
                      "pickle": lambda x: pickle.loads(pickle.dumps(x))}[op.get("how", "pickle")](old)
            if not np.array_equal(np.asarray(svs[i]), np.asarray(old)) or svs[i].form.name != old.form.name:
                raise Violation("clone-differs", f"op {n}: the {op.get('how')} clone of object {i} ({old.form.name}) holds "
                                f"{np.asarray(svs[i]).tolist()} ({svs[i].form.name}), the original {np.asarray(old).tolist()}", op=n)
            cloned += 1
        elif op["op"] == "set":
            from beyond.orbits.forms import get_form

            # the form spelled by name or given as the Form object itself
            svs[i].form = get_form(form) if op.get("by_object") else form
            steps[i] += 1
        elif op["op"] == "copy":
            from beyond.orbits.forms import get_form

            if op.get("k", 0) == 2 and not op.get("by_object"):
                # the form (and frame) taken from a template object: copy(same=...)
                template = svs[i].copy(form=form)
                svs[i] = svs[i].copy(same=template)
            else:
                svs[i] = svs[i].copy(form=get_form(form) if op.get("by_object") else form)
            steps[i] += 1
        elif op["op"] == "twin":
            # a copy in another form, dropped: the original must not follow it
            svs[i].copy(form=form)
        else:
            mu = mus[i]
            got = float(svs[i].infos.energy)
            want = -mu / (2 * el["a"])
            if abs(got - want) > (1e-9 * ks[i] + 1e-9) * (steps[i] + 1) * abs(want):
                raise Violation("walk-infos", f"op {n}: energy {got!r} of object {i} ({svs[i].form.name}), "
                                f"defining relation gives {want!r}", op=n)
        # every object, not only the one touched, still is the state it was built from
        for j, sv in enumerate(svs):
            if expect_form is not None and j == i and sv.form.name != expect_form:
                raise Violation("form-name", f"op {n}: form is {sv.form.name} after {op['op']}, expected {expect_form}", op=n)
            dr, dv = cart_err(sv.copy(form="cartesian").base, refs[j])
            tol = (1e-11 * ks[j] + 1e-10) * (steps[j] + 2)
            worst = max(worst, max(dr, dv) / tol)
            if dr > tol or dv > tol:
                raise Violation("walk", f"after op {n} ({op['op']} object {i} -> {form if op['op'] != 'reframe' else 'k=' + str(op.get('k'))}) object {j} "
                                f"({sv.form.name}, body {case['objs'][j]['body']}) is off by dr={dr:.3g} dv={dv:.3g} "
                                f"(tol {tol:.3g})", op=n, dr=dr, dv=dv)
    bodies = {el["body"] for el in case["objs"]}
    cls = [f"objects:{len(svs)}"] + (["mixed-bodies"] if len(bodies) > 1 else [])
    if any(el["e"] > 1 for el in case["objs"]) and any(el["e"] < 1 for el in case["objs"]):
        cls.append("ellipse+hyperbola")
    if reframed:
        cls.append("central-body-changed")
    if cloned:
        cls.append("cloned")
    return dict(nt=max(steps) >= 2, cls=cls, ratio=worst)


# ------------------------------------------------------------------ containers (how the six numbers are handed over)

CONTAINERS = ["list-int", "tuple-float", "list-mixed", "int64", "float32", "float64", "list-np-scalars", "float64-view"]


@st.composite
def container_case(draw, shard, nshards):
    # (every coordinate must stay below 2**24 m to be exact in single precision)
    el = draw(go.elements(elliptic=True, hyperbolic=False, bodies=("Earth", "Earth", "Moon", "Mars"),
                          emax_ell=0.2, rp_range=(1.03, 1.6)))
    return dict(el=el, container=draw(st.sampled_from(CONTAINERS)), form=draw(st.sampled_from(FORMS)),
                via=draw(st.sampled_from(FORMS)))


def check_container(case):
    """The same six numbers (integer-valued metres and metres per second, exactly representable in every type
    used) handed over as python ints, tuples, integer / single-precision / double-precision arrays: the state
    is the same, to the last bit, and the caller's container is never written to."""
    from beyond.dates import Date
    from beyond.orbits import StateVector

    el = case["el"]
    mu = mu_of(el["body"])
    cart = np.round(tb.kep2cart(el["a"], el["e"], el["i"], el["raan"], el["argp"], el["nu"], mu))
    assume(np.all(np.abs(cart) < 2**24))  # integer-valued and exact in float32
    e2 = tb.cart2elements(cart, mu)
    assume(1e-4 <= e2["e"] <= 0.99 and 0.01 < e2["i"] < math.pi - 0.01 and kappa_polar(cart) < 1e6)
    ints = [int(v) for v in cart]
    kind = case["container"]
    given = {
        "list-int": lambda: ints,
        "tuple-float": lambda: tuple(float(v) for v in ints),
        "list-mixed": lambda: [v if k % 2 else float(v) for k, v in enumerate(ints)],
        "int64": lambda: np.array(ints, dtype=np.int64),
        "float32": lambda: np.array(ints, dtype=np.float32),
        "float64": lambda: np.array(ints, dtype=np.float64),
        "list-np-scalars": lambda: [np.float64(v) for v in ints],
        "float64-view": lambda: np.array([0.0] + [float(v) for v in ints] + [0.0])[1:7],
    }[kind]()
    before = np.array(given, dtype=float).copy()
    frame = frame_for(el["body"])
    ref = StateVector([float(v) for v in ints], Date(2020, 1, 1), "cartesian", frame)
    sv = StateVector(given, Date(2020, 1, 1), "cartesian", frame)
    if np.asarray(sv).dtype != np.float64:
        raise Violation("container-dtype", f"state built from {kind} has dtype {np.asarray(sv).dtype}")
    for f in (case["via"], case["form"], "cartesian"):
        a, b = sv.copy(form=f), ref.copy(form=f)
        if not np.array_equal(np.asarray(a), np.asarray(b)):
            raise Violation("container-value", f"state given as {kind}: {f} coordinates {np.asarray(a).tolist()} differ from those of "
                            f"the same numbers given as a list of floats {np.asarray(b).tolist()}")
    sv.form = case["via"]
    sv.form = case["form"]
    ref.form = case["via"]
    ref.form = case["form"]
    if not np.array_equal(np.asarray(sv), np.asarray(ref)):
        raise Violation("container-value", f"state given as {kind}, set in place to {case['via']} then {case['form']}: "
                        f"{np.asarray(sv).tolist()} vs {np.asarray(ref).tolist()} for a list of floats")
    if not np.array_equal(np.array(given, dtype=float), before):
        raise Violation("container-modified", f"the caller's {kind} was changed by the state built from it: "
                        f"{np.array(given, dtype=float).tolist()}, was {before.tolist()}")
    # and the state is the right one
    k = kappa(dict(e=e2["e"], i=e2["i"], anom=0.0))
    if {"spherical", "cylindrical"} & {case["via"], case["form"]}:
        k *= kappa_polar(cart)
    dr, dv = cart_err(sv.copy(form="cartesian").base, cart)
    tol = 3 * (1e-11 * k + 1e-10)
    if dr > tol or dv > tol:
        raise Violation("container-roundtrip", f"state given as {kind}: back in cartesian off by dr={dr:.3g} dv={dv:.3g}")
    return dict(nt=True, cls=["given:" + kind], ratio=max(dr, dv) / tol)


FACETS = [
    Facet("roundtrip", lambda s, t: rt_case(s, 16), check_roundtrip,
          rule="every case (A != B or via != A)", quick=(16, 1500), thorough=(32, 8000)),
    Facet("definitions", lambda s, t: def_case(s, 16), check_definitions,
          rule="every case: 10 (8 for hyperbolas) forms x 6 numbers compared with textbook values",
          quick=(12, 600), thorough=(16, 5000)),
    Facet("infos", lambda s, t: infos_case(s, 16), check_infos,
          rule="every case: all Infos quantities vs. their defining relations",
          quick=(8, 600), thorough=(16, 5000)),
    Facet("containers", lambda s, t: container_case(s, 16), check_container,
          rule="every case: eight ways of handing over the same six numbers",
          quick=(4, 300), thorough=(8, 3000)),
    Facet("walk", lambda s, t: walk_case(s, 16), check_walk,
          rule="some object changed form at least twice; all objects re-read after every op",
          quick=(8, 300), thorough=(16, 3000)),
]
