"""C15 - state vectors have value semantics and change atomically.

A case is a history {"init": [object specs], "ops": [{"op", "i", ...}]} interpreted on a pool (<= 6) of
StateVector / Orbit objects.  Every pool member has a shadow (vf/oracles/sv_shadow.py: array bytes, form /
frame by name, date, metadata, maneuver contents, covariance bytes + frame, propagator class).  After every
op: (i) every object the op does not name equals its shadow bit for bit, (ii) the named object equals the
shadow updated by the model (assignments exactly, conversions = the same conversion of a pristine rebuild),
(iii) the receiver of copy / as_orbit / as_statevector / pickle is untouched, (iv) a failing op raises the
documented exception and leaves the object as it was and convertible, (v) name / alias / index access agree,
(vi) pickle / as_orbit / as_statevector preserve everything, (vii) a copy behaves like its source: right after
every maker op, and again at the end for pairs nobody modified, the same covariance conversions (QSW, TNW,
EME2000) applied to deep throw-away twins (pickle round trips) of source and copy give the same numbers;
cov.copy(frame) agrees with the in-place cov.frame = frame.  All discrepancies of a history are collected
under root-cause kinds; the first one that is not a listed known finding is raised.

Development aid: VERIF_C15_ASSUME=all (or a comma separated list of FINDINGS keys) activates the predicates
below as if they were listed in KNOWN_FINDINGS.txt.
"""

import copy as _copy
import os
import pickle

import numpy as np

from .. import env
from ..core import Facet, Violation, library_frame
from ..gen import orbits as go
from ..gen import sv_histories as H
from ..oracles import sv_shadow as S

RULE = ("Histories of 2..6 operations (copy with/without form/frame/same, in-place form/frame change, coordinate "
        "assignment by index/name/alias, metadata / maneuver / covariance edits incl. cov.frame and cov.copy, refused "
        "operations, pickle, as_orbit, as_statevector) on a pool of 1..6 generated StateVector/Orbit objects; one "
        "history in four starts with a covariance moved in place to a rotating frame and then copied.")
ASSUMPTIONS = [
    "shadow model: vf/oracles/sv_shadow.py; form and frame are compared by name, the date by (day, seconds, scale)",
    "expected result of a conversion = the same conversion applied to a pristine object rebuilt from the shadow "
    "(the formulas themselves are C01 / C02 / C14); agreement required to 1e-12 relative, bit-identical in practice",
    "after a refused in-place frame change values may differ by the rounding of the form round trip "
    "(<= 1e-10 relative to the component, angles to 1e-10 rad; generated orbits have e >= 0.01, 0.1 <= i <= pi-0.1)",
    "Man objects are shared between a copy and its source (documented shallow copy of the list): maneuvers are "
    "never modified in place, only the list is; nested metadata is modified at its first level only",
    "parameter names and aliases are those of the forms' documentation",
    "orbits are low (perigee 1.03-1.8 Re, e <= 0.3) so that every form is defined in every frame incl. rotating ones",
    "the 'infos' cache key is ignored",
    "behavioural equality of a copy and its source: covariance conversions on pickle twins, each term compared in "
    "units of its own sigmas (1e-9); conversions that involve an unpickled (cloned) Frame are allowed 1e-10",
]
LEVEL_TEXT = ("Model-based generation of operation histories (drawn by Hypothesis, interpreted on a pool of shared "
              "objects, shadow model consulted after every step). Exploration only.")
LEVEL_NOTE = ("Exploration only: histories of <= 6 operations over <= 6 objects as the property quantifies; in-place "
              "modification of a Man object and of nested metadata below the first level are outside the property.")
TECHNIQUE = "model-based / stateful property-based testing (Hypothesis-generated histories vs. bit-exact shadow models)"

CONV_TOL = 1e-12   # conversion vs the same conversion of a pristine rebuild
FAIL_TOL = 1e-10   # values after a refused in-place frame change (form round trip rounding)
COV_TOL = 1e-9     # covariance after a frame change, relative to the largest entry
CART_TOL = 1e-9    # (form, frame, values) agree: position / velocity read back in cartesian, relative to |r|, |v|
TWIN_TOL = 1e-9    # same covariance conversion on source and copy, each term in units of its own sigmas
TWIN_STEPS = ("QSW", "TNW", "EME2000")
CLONE_TOL = 1e-10  # conversions involving an unpickled Frame (a clone of the registered one: name -> same name costs rounding)
T0_MJD = 51544     # 2000-01-01


def sister_frames():
    """Two frames with the origin and axes of EME2000 whose central body is 1.3 / 1.7 times as massive as the
    Earth (as vf.props.c01.sister_frame): registered once per process, found by name afterwards."""
    from beyond import constants
    from beyond.frames import center, frames, orient

    for name in H.SISTERS:
        if name not in frames.dynamic:
            k = float(name.split("x")[1])
            c = center.Center(name + "C", body=constants.Body(name, constants.Earth.mass * k,
                                                               constants.Earth.equatorial_radius))
            c.add_link(frames.EME2000.center, orient.EME2000, np.zeros(6))
            frames.Frame(name, orient.EME2000, c)


_late = []
LATE_CAP = 25  # registrations per process (registries get slow beyond a few dozen)


def late_frame():
    """Registers one more frame (origin, axes and body of EME2000) NOW, i.e. after the pool members and their
    clones were made; past the cap the last one is re-used."""
    from beyond import constants
    from beyond.frames import center, frames, orient

    if len(_late) < LATE_CAP:
        name = f"VF15late{os.getpid()}x{len(_late)}"
        c = center.Center(name + "C", body=constants.Earth)
        c.add_link(frames.EME2000.center, orient.EME2000, np.zeros(6))
        frames.Frame(name, orient.EME2000, c)
        _late.append(name)
    return _late[-1]


def failing_frames():
    """Frames whose axes are known but whose origin is not defined at the dates of the generated objects:
    VF15chief (a two-hour table of 1990 registered with Ephem.as_frame), VF15mute (an orbit without propagator);
    VF15chiefQ has local QSW axes, so the rotation needs the reference as well (fails before anything moved)."""
    from beyond.dates import Date, timedelta
    from beyond.frames import frames
    from beyond.orbits import Orbit

    if "VF15chief" in frames.dynamic:
        return
    t0 = Date(1990, 1, 1)
    el = [7000e3, 0.001, 0.9, 0.3, 0.2, 0.1]
    chief = Orbit(el, t0, "keplerian", "EME2000", "Kepler")
    chief.ephem(start=t0, stop=timedelta(hours=2), step=timedelta(minutes=3)).as_frame("VF15chief", exists_warning=False)
    chief.ephem(start=t0, stop=timedelta(hours=2), step=timedelta(minutes=3)).as_frame(
        "VF15chiefQ", orientation="QSW", exists_warning=False)
    Orbit(el, t0, "keplerian", "EME2000", None).as_frame("VF15mute", exists_warning=False)
    # origin and axes of EME2000, but about a point that is no body (as the library's Lagrange-point frames)
    from beyond.frames import center, orient

    nobody = center.Center("VF15nobodyC")
    nobody.add_link(frames.EME2000.center, orient.EME2000, np.zeros(6))
    frames.Frame("VF15nobody", orient.EME2000, nobody)


def setup(shard):
    env.eop("missing-pass")
    sister_frames()
    failing_frames()


# ------------------------------------------------------------------ building objects


def mkdate(spec, offset_s=0):
    from beyond.dates import Date

    us = spec["us"] + offset_s * 10**6
    day, rem = divmod(us, 86400 * 10**6)
    return Date(T0_MJD + int(day), rem / 1e6, scale=spec["scale"])


def mkman(m, date_spec):
    from beyond.orbits.man import ImpulsiveMan

    return ImpulsiveMan(mkdate(date_spec, m["dt_s"]), list(m["dv"]), frame=m["frame"], comment=m["comment"])


def cov_values(c):
    L = np.zeros((6, 6))
    for i, row in enumerate(c["L"]):
        L[i, : len(row)] = row
    return L @ L.T


def mkprop(name):
    """None / a registered name (string, as the Orbit constructor accepts) / an instance"""
    if name is None:
        return None
    if name.startswith("KeplerNum:"):
        from beyond.dates import timedelta
        from beyond.env.solarsystem import get_body
        from beyond.propagators.keplernum import KeplerNum

        _, step, method, tol = name.split(":")
        return KeplerNum(timedelta(seconds=float(step)), get_body("Earth"), method=method, tol=float(tol))
    if name.endswith("()"):
        from beyond.propagators import get_propagator

        return get_propagator(name[:-2])()
    return name


def prop_expected(name):
    """the fingerprint (vf/oracles/sv_shadow.py:prop_fp) an orbit carrying propagator `name` must show"""
    if name is None:
        return "NoneType"
    if name.startswith("KeplerNum:"):
        _, step, method, tol = name.split(":")
        return f"KeplerNum(step={float(step):g},method={method},frame=EME2000,tol={float(tol):g},bodies=Earth)"
    return name.rstrip("()")


def cov_container(vals, how):
    """the 36 numbers as the container `how`; -> (object to hand over, the float64 array it stands for)"""
    if how == "list":
        return vals.tolist(), vals
    if how == "tuple":
        return tuple(tuple(r) for r in vals.tolist()), vals
    if how == "ints":
        return [[int(x) for x in r] for r in vals.tolist()], vals
    if how == "int64":
        return vals.astype(np.int64), vals
    return vals.copy(), vals


BUILD_ISSUES = []


def build(spec):
    from beyond.orbits import Orbit, StateVector
    from beyond.orbits.cov import Cov

    date = mkdate(spec["date"])
    cart = go.cart_of(spec["el"])
    how = spec.get("coords_as", "list")
    if how == "tuple":
        coords = tuple(cart)
    elif how == "ndarray":
        coords = np.array(cart, dtype=float)
    elif how == "view":
        coords = np.array([0.0] + list(cart) + [0.0])[1:7]
    else:
        coords = list(cart)
    meta = _copy.deepcopy(spec["meta"])
    mans = [mkman(m, spec["date"]) for m in spec["mans"]]
    if len(mans) == 1 and spec.get("man_as") == "ctor":
        meta["maneuvers"] = mans[0]
    form0, frame0 = "cartesian", spec["frame"]
    if spec.get("ctor_objects"):
        from beyond.frames.frames import get_frame
        from beyond.orbits.forms import get_form

        form0, frame0 = get_form(form0), get_frame(frame0)
    if spec["klass"] == "Orbit":
        o = Orbit(coords, date, form0, frame0, mkprop(spec["prop"]), **meta)
    else:
        o = StateVector(coords, date, form0, frame0, **meta)
    if isinstance(coords, np.ndarray):
        # the caller goes on using its array: the object must not follow
        before = np.array(o, dtype=float).tobytes()
        coords[:] = -1.0
        if np.array(o, dtype=float).tobytes() != before:
            BUILD_ISSUES.append(("caller-array-kept:coords", f"StateVector({how}) follows later changes of the caller's array"))
    if spec["form"] != "cartesian":
        o.form = spec["form"]
    if mans and "maneuvers" not in meta:
        o.maneuvers = mans[0] if len(mans) == 1 and spec.get("man_as") == "setter" else mans
    if spec["cov"]:
        given, vals = cov_container(cov_values(spec["cov"]), spec["cov"].get("as", "ndarray"))
        o.cov = Cov(o, given, spec["cov"]["frame"] or o.frame)
        if isinstance(given, np.ndarray):
            given[:] = 0
        got = np.array(o.cov, dtype=float)
        if got.tobytes() != vals.tobytes():
            BUILD_ISSUES.append((f"cov-values-as-given:{spec['cov'].get('as', 'ndarray')}",
                                 f"Cov(..., values as {spec['cov'].get('as')}) holds {got[0].tolist()} ... for "
                                 f"{vals[0].tolist()} ..."))
            o.cov = Cov(o, vals.copy(), spec["cov"]["frame"] or o.frame)  # go on with what was meant
    if spec.get("touch"):
        o.maneuvers, o.cov  # noqa: B018 - the getters insert their default ([] / None) into _data
    return o


def rebuild(s, date, mans=()):
    """A pristine object with the state described by shadow ``s`` (own buffers, nothing shared)."""
    from beyond.frames.frames import get_frame
    from beyond.orbits import StateVector
    from beyond.orbits.cov import Cov

    o = StateVector(S.coords_of(s).copy(), date, s["form"], s["frame"])
    if s["cov"] is not None and np.all(np.isfinite(S.cov_of(s))):
        fr = s["cov"][0]
        if fr not in ("QSW", "TNW"):
            fr = o.frame if fr == s["frame"] else get_frame(fr)
        o.cov = Cov(o, S.cov_of(s).copy(), fr)
    return o


# ------------------------------------------------------------------ the machine


def _nm(x):
    return getattr(x, "name", x)


def root_cause(kind, msg):
    """several symptoms, one bucket"""
    if kind.startswith("access:cylindrical."):
        return "access:cylindrical-theta"
    if kind.startswith("raised:pickle:") and kind.endswith("TypeError@orbits/statevector.py:__new__"):
        return "pickle:base-lost"
    if kind.startswith("raised:clone-") and kind.endswith("TypeError@orbits/statevector.py:__new__"):
        return "clone:base-lost"
    if kind.startswith("raised:") and "NoneType" in msg and "setfield" in msg:
        return "pickle:base-lost"
    if (kind == "model:pickle:cov" and "<no _data>" in msg) or (
            kind.startswith("raised:pickle:") and kind.endswith("AttributeError@orbits/cov.py:orb")):
        return "pickle:cov-data-lost"
    if kind.startswith("model:") and kind.endswith(":prop") and "KeplerNum(" in msg and "tol=" in msg:
        a, _, b = msg.rpartition(" -> ")
        strip = lambda t: __import__("re").sub(r"tol=[^,]*,", "", t[t.rfind("KeplerNum("):])  # noqa: E731
        if strip(a) == strip(b):
            return "keplernum-copy-drops-tol"
    if kind.startswith("cov-values-as-given:int"):
        return "cov-values-as-given:integers"
    if kind.startswith("aliasing:"):
        link = kind.split(":")[1]
        if link and set(link.split("+")) <= {"as_orbit", "as_statevector"}:
            # only as_orbit / as_statevector links between the two objects (parent-child or siblings)
            return "aliasing:as_orbit" if "as_orbit" in link else "aliasing:as_statevector"
    return kind


class Machine:
    def __init__(self, case):
        self.case = case
        del BUILD_ISSUES[:]
        self.pool = [build(s) for s in case["init"]]
        self.build_issues = list(BUILD_ISSUES)
        self.shadow = [S.snap(o) for o in self.pool]
        self.dates = [o.date for o in self.pool]
        self.origin = [("init", None) for _ in self.pool]
        self.date_spec = [s["date"] for s in case["init"]]
        self.viols = []
        self.seen = set()
        self.worst = 0.0
        self.worst_by = {}
        self.cloned = set()      # members that went through pickle (their Frame objects are clones)
        self.clone_op = False
        self.made_at = {}        # (parent, child) -> step of the maker op
        self.equiv = set()       # (parent, child) pairs made by a maker and not modified since
        self.moved_rot = set()   # members whose covariance was moved in place to a rotating frame
        self.labels = []
        self.step = -1

    # -------- bookkeeping

    def add(self, kind, msg, **data):
        kind = root_cause(kind, msg)
        if kind not in self.seen:
            self.seen.add(kind)
            self.viols.append(Violation(kind, f"step {self.step} ({self.opname}): {msg}", step=self.step,
                                        op=self.opname, **data))

    def lib_exc(self, exc, what):
        """an exception out of beyond where the operation is valid"""
        frame = library_frame(exc.__traceback__)
        if frame is None:
            raise exc
        self.add(f"raised:{what}:{type(exc).__name__}@{frame}", f"{what}: {type(exc).__name__}: {str(exc)[:150]}")

    def ratio(self, err, tol):
        r = err / tol
        if np.isfinite(r) and r <= 1:
            self.worst = max(self.worst, r)
            self.worst_by[tol] = max(self.worst_by.get(tol, 0.0), r)
        return r <= 1

    def link(self, a, b):
        """how objects a and b are related: the maker ops on the path between them in the family tree"""
        def chain(x):
            out = [(x, None)]
            while self.origin[x][1] is not None:
                out.append((self.origin[x][1], self.origin[x][0]))
                x = self.origin[x][1]
            return out

        ca, cb = chain(a), chain(b)
        ia = {idx: k for k, (idx, _) in enumerate(ca)}
        for kb, (idx, _) in enumerate(cb):
            if idx in ia:
                ops = [op for _, op in ca[1:ia[idx] + 1]] + [op for _, op in cb[1:kb + 1]]
                return "+".join(sorted(set(ops))) or "self"
        return "unrelated"

    # -------- comparisons

    def compare_touched(self, idx, expected, coord_tol=None, cov_tol=None, what=""):
        """(ii): the named object equals the model's expectation; shadow := what is observed"""
        actual = S.snap(self.pool[idx])
        exp = dict(expected)
        if coord_tol == CONV_TOL and (self.clone_op or idx in self.cloned):
            coord_tol = CLONE_TOL
        if coord_tol is not None and actual["coords"] != exp["coords"]:
            got, want = S.coords_of(actual), S.coords_of(exp)
            floor = np.where(np.abs(want) < 10.0, 1.0, 0.0)  # angles and ratios: absolute
            if self.ratio(S.rel_err(got, want, floor, S.ANGLE_IDX[exp["form"]]), coord_tol):
                exp["coords"] = actual["coords"]
        if exp["cov"] and actual["cov"] and not np.all(np.isfinite(S.cov_of(exp))):
            exp["cov"] = actual["cov"]  # garbage in (reported where it came in), nothing to demand of it
        if cov_tol is not None and actual["cov"] and exp["cov"] and actual["cov"][0] == exp["cov"][0]:
            got, want = S.cov_of(actual), S.cov_of(exp)
            if self.ratio(S.rel_err(got, want, float(np.nanmax(np.abs(want)))), cov_tol):
                exp["cov"] = actual["cov"]
        for field, text in S.diff(exp, actual):
            self.add(f"model:{what or self.opname}:{field}", f"object {idx} after {self.opname}: expected -> observed {text}",
                     field=field)
        self.shadow[idx] = actual

    def compare_others(self, touched, target):
        """(i) / (iii): every object not named by the op is bit-identical to its shadow"""
        for idx, o in enumerate(self.pool):
            if idx in touched:
                continue
            actual = S.snap(o)
            d = S.diff(self.shadow[idx], actual)
            if d:
                fields = "+".join(sorted(f for f, _ in d))
                if self.opname.split("-")[0] in H.MAKERS:
                    kind = f"receiver-changed:{self.opname}:{fields}"
                else:
                    kind = f"aliasing:{self.link(idx, target)}:{fields}"
                self.add(kind, f"object {idx} was not named by {self.opname} on object {target} but changed: "
                               f"{'; '.join(t for _, t in d)[:400]}", link=self.link(idx, target), fields=fields)
                self.shadow[idx] = actual

    def access(self, idx):
        """(v): name / alias / index access agree with the documented ordering of the current form"""
        o = self.pool[idx]
        form = self.shadow[idx]["form"]
        for k, names in S.names_of(form):
            ref = float(np.array(o, dtype=float)[k])
            for nm in names:
                for how, get in (("attr", lambda: getattr(o, nm)), ("item", lambda: o[nm])):
                    try:
                        v = float(get())
                    except (AttributeError, KeyError) as exc:
                        self.add(f"access:{form}.{S.FORM_PARAMS[form][k]}",
                                 f"{how} access to '{nm}' (parameter {k} of {form}) raises {type(exc).__name__}: {exc}",
                                 form=form, name=nm)
                        continue
                    if not (v == ref or (v != v and ref != ref)):
                        self.add(f"access-value:{form}.{nm}", f"{how} '{nm}' = {v!r}, o[{k}] = {ref!r}", form=form, name=nm)

    def foreign(self, idx, names):
        """(v): names of other forms raise"""
        o = self.pool[idx]
        form = self.shadow[idx]["form"]
        for nm in names:
            try:
                getattr(o, nm)
            except AttributeError:
                pass
            else:
                self.add(f"foreign-name:{form}", f"'{nm}' does not belong to {form} but getattr returns a value",
                         form=form, name=nm)
            try:
                o[nm]
            except KeyError:
                pass
            else:
                self.add(f"foreign-name:{form}", f"'{nm}' does not belong to {form} but o['{nm}'] returns a value",
                         form=form, name=nm)

    def convertible(self, idx, what):
        """the object still converts, to the same numbers as a pristine rebuild of its shadow"""
        o = self.pool[idx]
        s = self.shadow[idx]
        try:
            got = np.array(o.copy(form="cartesian"), dtype=float)
        except Exception as exc:
            self.lib_exc(exc, f"{what}:copy(form='cartesian')")
            return False
        want = np.array(rebuild(s, self.dates[idx]).copy(form="cartesian"), dtype=float)
        if not self.ratio(S.rel_err(got, want, 0.0), CLONE_TOL if idx in self.cloned else CONV_TOL):
            self.add(f"inconsistent:{what}", f"object {idx} converts to {got.tolist()}, a pristine object with the same "
                                             f"form/frame/values to {want.tolist()}")
        return True

    # -------- a copy behaves like its source

    @staticmethod
    def twin(o):
        """deep throw-away duplicate (the pool is not disturbed)"""
        return pickle.loads(pickle.dumps(o))

    def twin_check(self, a, b, what):
        """the same covariance conversions on (twins of) source a and copy b give the same numbers"""
        if self.shadow[a]["cov"] is None or self.shadow[b]["cov"] is None:
            return
        try:
            ta, tb = self.twin(self.pool[a]), self.twin(self.pool[b])
            for frame in TWIN_STEPS:
                ta.cov.frame = frame
                tb.cov.frame = frame
                err = S.cov_err(np.array(tb.cov, dtype=float), np.array(ta.cov, dtype=float))
                if not self.ratio(err, TWIN_TOL):
                    self.add(f"copy-diverges:{what}",
                             f"covariance of object {b} ({what} of object {a}) converted to {frame}: differs from the "
                             f"same conversion of its source by {err:.3g} sigma-units "
                             f"(diag {np.diag(np.array(tb.cov, dtype=float)).tolist()} vs "
                             f"{np.diag(np.array(ta.cov, dtype=float)).tolist()})", frame=frame, maker=what)
                    return
        except Exception as exc:
            self.lib_exc(exc, f"twin:{what}")

    def label_bodies(self, s, frame):
        def body(f):
            return f if f in H.SISTERS else "Earth"

        if body(s["frame"]) != body(frame):
            self.labels.append("frame-change-across-central-bodies" if s["form"] in H.MU_FORMS
                               else "frame-change-across-bodies-mu-free-form")

    def forget(self, idx):
        self.equiv = {p for p in self.equiv if idx not in p}

    # -------- the operations

    def new_member(self, obj, expected, parent, coord_tol=None, cov_tol=None, date=None):
        self.pool.append(obj)
        self.shadow.append(expected)
        self.dates.append(date if date is not None else self.dates[parent])
        self.date_spec.append(self.date_spec[parent])
        self.origin.append((self.opname, parent))
        idx = len(self.pool) - 1
        self.compare_touched(idx, expected, coord_tol, cov_tol)
        self.equiv.add((parent, idx))
        self.made_at[(parent, idx)] = self.step
        if self.opname == "pickle" or parent in self.cloned or self.clone_op:
            self.cloned.add(idx)
        if parent in self.moved_rot:
            self.labels.append("cov-moved-to-rotating-then-copied")
            if expected["cov"] is not None and expected["cov"][0] in H.ROTATING:
                self.moved_rot.add(idx)
        self.twin_check(parent, idx, self.opname)
        return idx

    def pop_member(self):
        for lst in (self.pool, self.shadow, self.dates, self.date_spec, self.origin):
            lst.pop()
        self.forget(len(self.pool))
        self.moved_rot.discard(len(self.pool))
        self.cloned.discard(len(self.pool))

    def drop_if_full(self):
        if len(self.pool) > 6:
            self.pop_member()

    def run_op(self, op):
        from beyond.errors import UnknownFormError, UnknownFrameError
        from beyond.frames.frames import get_frame
        from beyond.orbits.cov import Cov
        from beyond.orbits.forms import get_form

        name = op["op"]
        self.opname = name
        i = op["i"] % len(self.pool)
        self.clone_op = i in self.cloned or (name == "copy_same" and op["j"] % len(self.pool) in self.cloned)
        o = self.pool[i]
        s = self.shadow[i]
        touched = set()

        def conv_expected(form=None, frame=None):
            fresh = rebuild(s, self.dates[i])
            res = fresh.copy(form=form, frame=frame)
            rs = S.snap(res)
            e = dict(s)
            # names come from the model, numbers from the pristine conversion
            e.update(form=H.FORM_SHORT.get(form, form) if form else s["form"], frame=frame or s["frame"],
                     coords=rs["coords"])
            if s["cov"] is not None:
                if s["cov"][0] == s["frame"]:
                    # documented: a covariance expressed in the frame of its state follows it
                    e["cov"] = (e["frame"], rs["cov"][1] if rs["cov"] else s["cov"][1])
                else:
                    e["cov"] = s["cov"]
            return e

        def cart_expected(frame):
            """position and velocity the state must have in `frame`: its own cartesian reading (form conversion
            in the frame it is in) moved by the cartesian-only frame change, which involves no central body"""
            from beyond.orbits import StateVector

            cart = np.array(rebuild(dict(s, cov=None), self.dates[i]).copy(form="cartesian"), dtype=float)
            return np.array(StateVector(cart, self.dates[i], "cartesian", s["frame"]).copy(frame=frame), dtype=float)

        def consistent(idx, want, what):
            """(form, frame, values) of object idx agree: read in cartesian it is where it must be"""
            got = np.array(self.pool[idx].copy(form="cartesian"), dtype=float)
            err = max(np.linalg.norm(got[:3] - want[:3]) / np.linalg.norm(want[:3]),
                      np.linalg.norm(got[3:] - want[3:]) / np.linalg.norm(want[3:]))
            if not (np.all(np.isfinite(got)) and self.ratio(err, CART_TOL)):
                sf = self.shadow[idx]
                self.add(f"form-frame-values-disagree:{what}",
                         f"object {idx} ({sf['form']} in {sf['frame']}, was {s['form']} in {s['frame']}) reads in cartesian "
                         f"as {got.tolist()}, the state is at {want.tolist()} (relative error {err:.3g})",
                         form=sf["form"], frame=sf["frame"], old_frame=s["frame"])

        def arg(kind, nm):
            if not op.get("as_object"):
                if kind == "form" and op.get("case", "lower") != "lower":
                    return getattr(nm, op["case"])()
                return nm
            return get_form(nm) if kind == "form" else get_frame(nm)

        if name in ("append_man", "remove_man") and not isinstance(o.maneuvers, list):
            # documented: .maneuvers is a list of Man (a lone Man given as such is wrapped)
            self.add("maneuvers-not-a-list", f"object {i}.maneuvers is a {type(o.maneuvers).__name__}")
            self.labels.append(name)
            return
        try:
            if name in ("copy", "copy_form", "copy_frame", "copy_both", "copy_same"):
                form = frame = None
                if name in ("copy_form", "copy_both"):
                    form = op["form"]
                if name in ("copy_frame", "copy_both"):
                    frame = op["frame"]
                if name == "copy_same":
                    j = op["j"] % len(self.pool)
                    form, frame = self.shadow[j]["form"], self.shadow[j]["frame"]
                    new = o.copy(same=self.pool[j])
                else:
                    kw = {}
                    if form:
                        kw["form"] = arg("form", form)
                    if frame:
                        kw["frame"] = arg("frame", frame)
                    new = o.copy(**kw)
                exp = conv_expected(form, frame) if (form or frame) else dict(s)
                want = cart_expected(frame) if frame else None
                n = self.new_member(new, exp, i, CONV_TOL, COV_TOL)
                if frame:
                    consistent(n, want, name)
                    self.label_bodies(s, frame)
                if new is o:
                    self.add(f"same-object:{name}", "copy returned the receiver itself")
                touched.add(n)
            elif name in ("pickle", "clone"):
                how = op.get("how", "pickle")
                if name == "clone":
                    self.opname = name = f"clone-{how}"
                new = {"pickle": lambda: pickle.loads(pickle.dumps(o)), "copy": lambda: _copy.copy(o),
                       "deepcopy": lambda: _copy.deepcopy(o)}[how]()
                n = self.new_member(new, dict(s), i, date=new._data["date"])
                touched.add(n)
                # the library compares forms and frames with == / != / is (copy(), the frame setter, Sgp4Beta,
                # the CCSDS writers): a clone must pass for its original there
                for what in ("form", "frame"):
                    a, b = new._data[what], o._data[what]
                    if a != b or not (a == b):
                        self.add(f"clone-{what}-not-equal", f"{how}: clone.{what} != original.{what} "
                                                            f"({a!r} vs {b!r}), although both are '{_nm(b)}'", how=how)
                if not self.convertible(n, name):
                    # not usable as a pool member: later ops on it would only repeat this failure
                    self.pop_member()
                    touched.discard(n)
            elif name == "read_infos":
                # reading .infos builds and caches an Infos object: it must describe the state as it is NOW
                # (whatever was read, copied or assigned before) and leave everything else alone
                kep = np.array(o.infos.kep, dtype=float)
                want = np.array(rebuild(dict(s, cov=None), self.dates[i]).copy(form="keplerian"), dtype=float)
                if not self.ratio(S.rel_err(kep, want, np.where(np.abs(want) < 10.0, 1.0, 0.0), (3, 4, 5)), CLONE_TOL):
                    self.add("infos-stale", f"object {i}.infos.kep = {kep.tolist()}, the state is {want.tolist()}")
                touched.add(i)
                self.compare_touched(i, dict(s))
            elif name == "late_frame":
                # a frame registered after every member (and clone) was made is reachable from all of them
                fname = late_frame()
                for idx, member in enumerate(self.pool):
                    sh = self.shadow[idx]
                    try:
                        got = np.array(member.copy(frame=fname, form="cartesian"), dtype=float)
                    except Exception as exc:
                        self.lib_exc(exc, f"late_frame:{self.origin[idx][0]}")
                        continue
                    want = np.array(rebuild(dict(sh, cov=None), self.dates[idx]).copy(frame=fname, form="cartesian"),
                                    dtype=float)
                    if not self.ratio(S.rel_err(got, want, 0.0), CART_TOL):
                        self.add(f"late-frame-differs:{self.origin[idx][0]}",
                                 f"object {idx} ({self.origin[idx][0]}) converted to a frame registered after it was made: "
                                 f"{got.tolist()}, a pristine object with the same state gives {want.tolist()}")
            elif name == "as_orbit":
                new = o.as_orbit(mkprop(op["prop"]))
                exp = dict(s, cls="Orbit", prop=prop_expected(op["prop"]))
                touched.add(self.new_member(new, exp, i))
            elif name == "as_statevector":
                if s["cls"] == "Orbit":
                    new = o.as_statevector()
                    exp = dict(s, cls="StateVector", prop="<none>")
                else:
                    self.opname = name = "copy"
                    new = o.copy()
                    exp = dict(s)
                touched.add(self.new_member(new, exp, i))
            elif name == "cov_copy":
                if s["cov"] is not None:
                    frame = op["frame"]
                    t = self.twin(o)
                    c = o.cov.copy(frame) if frame else o.cov.copy()
                    if frame:
                        t.cov.frame = frame
                    if i in self.moved_rot:
                        self.labels.append("cov-moved-to-rotating-then-copied")
                    steps = (None,) + TWIN_STEPS
                    for step in steps:
                        if step:
                            c.frame = step
                            t.cov.frame = step
                        got, want = np.array(c, dtype=float), np.array(t.cov, dtype=float)
                        fn = (S._name(c.frame), S._name(t.cov.frame))
                        err = S.cov_err(got, want)
                        if fn[0] != fn[1] or not self.ratio(err, TWIN_TOL):
                            self.add("copy-diverges:cov_copy",
                                     f"cov.copy({frame!r}) then -> {step}: frame {fn[0]}, differs by {err:.3g} sigma-units "
                                     f"from the in-place conversion of the source (frame {fn[1]})", frame=step,
                                     maker="cov_copy")
                            break
            elif name == "set_cov_frame":
                touched.add(i)
                exp = dict(s)
                if s["cov"] is not None:
                    frame = op["frame"]
                    via_new = np.array(self.twin(o).cov.copy(frame=frame), dtype=float)
                    o.cov.frame = frame
                    got = np.array(o.cov, dtype=float)
                    err = S.cov_err(got, via_new)
                    if not self.ratio(err, TWIN_TOL):
                        self.add("cov-inplace-vs-copy", f"cov.frame = {frame!r} in place differs by {err:.3g} sigma-units "
                                                        f"from cov.copy(frame={frame!r})", frame=frame)
                    exp["cov"] = (frame, S.hexof(got))
                    if frame in H.ROTATING and s["cov"][0] != frame:
                        self.moved_rot.add(i)
                    elif frame not in H.ROTATING:
                        self.moved_rot.discard(i)
                self.compare_touched(i, exp)
            elif name == "set_form":
                o.form = arg("form", op["form"])
                touched.add(i)
                self.compare_touched(i, conv_expected(form=op["form"]), CONV_TOL, COV_TOL)
            elif name == "set_frame":
                want = cart_expected(op["frame"])
                o.frame = arg("frame", op["frame"])
                touched.add(i)
                self.compare_touched(i, conv_expected(frame=op["frame"]), CONV_TOL, COV_TOL)
                consistent(i, want, name)
                self.label_bodies(s, op["frame"])
                if s["cov"] is not None and s["cov"][0] == s["frame"] and s["frame"] != op["frame"]:
                    if op["frame"] in H.ROTATING:
                        self.moved_rot.add(i)
                    else:
                        self.moved_rot.discard(i)
            elif name == "set_coord":
                k = op["k"]
                cur = S.coords_of(s).copy()
                v = cur[k] * op["factor"] if cur[k] != 0 and np.isfinite(cur[k]) else 1e-3
                tie = op.get("tie")
                if tie == "same":
                    v = cur[k]
                elif tie in ("zero-angle", "full-turn") and k in S.ANGLE_IDX[s["form"]]:
                    v = 0.0 if tie == "zero-angle" else 2 * np.pi
                vt = op.get("vtype", "float") if tie is None else "float"
                if vt == "numpy.float32":
                    given = np.float32(v)
                elif vt == "numpy.float64":
                    given = np.float64(v)
                elif vt == "int" and abs(v) >= 1000:  # lengths and speeds; an angle or a ratio would collapse to 0
                    given = int(v)
                else:
                    given = float(v)
                v = float(given)
                pname = S.FORM_PARAMS[s["form"]][k]
                how = op["how"]
                if how.startswith("alias"):
                    al = S.ALIASES.get(pname)
                    pname = al[op["alias"] % len(al)] if al else pname
                try:
                    if how == "index":
                        o[k] = given
                    elif how.endswith("attr"):
                        setattr(o, pname, given)
                    else:
                        o[pname] = given
                except (AttributeError, KeyError) as exc:
                    self.add(f"access:{s['form']}.{S.FORM_PARAMS[s['form']][k]}",
                             f"assignment to '{pname}' (parameter {k} of {s['form']}) raises {type(exc).__name__}: {exc}",
                             form=s["form"], name=pname)
                    o[k] = given
                cur[k] = v
                touched.add(i)
                self.compare_touched(i, dict(s, coords=S.hexof(cur)))
            elif name == "set_meta":
                value = _copy.deepcopy(op["value"])
                if op["how"] == "attr":
                    setattr(o, op["key"], value)
                else:
                    o[op["key"]] = value
                meta = dict(s["meta"])
                meta[op["key"]] = S.canon(op["value"])
                touched.add(i)
                self.compare_touched(i, dict(s, meta=meta))
            elif name == "mutate_meta":
                cur = o._data.get(op["key"])
                meta = dict(s["meta"])
                if isinstance(cur, list):
                    getattr(o, op["key"]).append(op["item"])
                    meta[op["key"]] = S.canon(cur)
                elif isinstance(cur, dict):
                    o[op["key"]][f"k{op['item']}"] = op["item"]
                    meta[op["key"]] = S.canon(cur)
                touched.add(i)
                self.compare_touched(i, dict(s, meta=meta))
            elif name == "append_man":
                m = mkman(op["man"], self.date_spec[i])
                o.maneuvers.append(m)
                touched.add(i)
                self.compare_touched(i, dict(s, mans=s["mans"] + [S.man_fp(m)]))
            elif name == "remove_man":
                mans = list(s["mans"])
                if mans:
                    o.maneuvers.pop(op["k"] % len(mans))
                    mans.pop(op["k"] % len(mans))
                touched.add(i)
                self.compare_touched(i, dict(s, mans=mans))
            elif name == "set_mans":
                ms = [mkman(m, self.date_spec[i]) for m in op["mans"]]
                o.maneuvers = ms[0] if len(ms) == 1 and op.get("single") else ms
                touched.add(i)
                self.compare_touched(i, dict(s, mans=[S.man_fp(m) for m in ms]))
            elif name == "replace_cov_entry":
                exp = dict(s)
                if s["cov"] is not None:
                    c = S.cov_of(s).copy()
                    a, b = op["a"], op["b"]
                    v = c[a, b] * op["factor"] if c[a, b] != 0 else 1e-3
                    o.cov[a, b] = v
                    o.cov[b, a] = v
                    c[a, b] = c[b, a] = v
                    exp["cov"] = (s["cov"][0], S.hexof(c))
                touched.add(i)
                self.compare_touched(i, exp)
            elif name == "attach_cov":
                given, vals = cov_container(cov_values(op["cov"]), op["cov"].get("as", "ndarray"))
                o.cov = Cov(o, given, op["cov"]["frame"] or o.frame)
                if isinstance(given, np.ndarray):
                    given[:] = 0  # the caller goes on using its array
                touched.add(i)
                if np.array(o.cov, dtype=float).tobytes() != vals.tobytes():
                    self.add(f"cov-values-as-given:{op['cov'].get('as', 'ndarray')}",
                             f"Cov(..., values as {op['cov'].get('as')}) holds {np.array(o.cov, dtype=float)[0].tolist()} ... "
                             f"for {vals[0].tolist()} ...")
                    o.cov = Cov(o, vals.copy(), op["cov"]["frame"] or o.frame)  # go on with what was meant
                self.compare_touched(i, dict(s, cov=(op["cov"]["frame"] or s["frame"], S.hexof(vals))),
                                     what=f"attach_cov-{op['cov'].get('as', 'ndarray')}")
                self.labels.append(f"cov-as:{op['cov'].get('as', 'ndarray')}")
            elif name == "del_cov":
                del o.cov
                touched.add(i)
                self.compare_touched(i, dict(s, cov=None))
            elif name in H.FAILING:
                touched.add(i)
                self.failing(op, i, o, s, UnknownFormError, UnknownFrameError)
            else:
                raise RuntimeError(f"unknown op {name}")
        except Exception as exc:
            self.lib_exc(exc, name)  # re-raises what does not come out of beyond (harness error)
            touched.add(i)
            if i < len(self.pool):
                self.shadow[i] = S.snap(self.pool[i])
        self.compare_others(touched, i)
        for idx in touched:
            if idx < len(self.pool):
                self.access(idx)
        if name in H.MUTATORS:
            self.forget(i)
            if name in ("attach_cov", "del_cov"):
                self.moved_rot.discard(i)
        self.drop_if_full()
        self.labels.append(name)

    def failing(self, op, i, o, s, UnknownFormError, UnknownFrameError):
        name = op["op"]
        tol = None
        if name == "bad_form":
            expect, call = UnknownFormError, (lambda: setattr(o, "form", op["name"])) if op["via"] == "set" else (
                lambda: o.copy(form=op["name"]))
        elif name == "bad_frame":
            expect, call = UnknownFrameError, (lambda: setattr(o, "frame", op["name"])) if op["via"] == "set" else (
                lambda: o.copy(frame=op["name"]))
        elif name == "hill":
            expect = ValueError
            if op["via"] == "set":
                call = lambda: setattr(o, "frame", "Hill")  # noqa: E731
                tol = FAIL_TOL if s["form"] != "cartesian" else None
            else:
                call = lambda: o.copy(frame="Hill")  # noqa: E731
        elif name == "late_fail":
            from beyond.errors import UnknownPropagatorError

            expect = UnknownPropagatorError if op["target"] == "VF15mute" else ValueError
            if op["via"] == "set":
                call = lambda: setattr(o, "frame", op["target"])  # noqa: E731
                tol = FAIL_TOL if s["form"] != "cartesian" else None
            else:
                call = lambda: o.copy(frame=op["target"])  # noqa: E731
            self.labels.append("late-failure:cov-" + ("none" if s["cov"] is None else
                                                    "own-frame" if s["cov"][0] == s["frame"] else
                                                    "local" if s["cov"][0] in ("QSW", "TNW") else "other-frame"))
        elif name == "bodyless":
            expect = AttributeError
            twin = o.copy(form="cartesian")
            if getattr(twin, "cov", None) is not None:
                del twin.cov
            twin.frame = "VF15nobody"
            twin.form = op["geo"]
            held = (twin.form.name, np.array(twin.base, float), twin.frame.name, twin.date)
            call = (lambda: setattr(twin, "form", op["target"])) if op["via"] == "set" else (lambda: twin.copy(form=op["target"]))
        else:
            foreign = S.foreign_names(s["form"])
            nm = foreign[op["k"] % len(foreign)]
            how = op["how"]
            expect = AttributeError if how.endswith("attr") else KeyError
            call = {"get_attr": lambda: getattr(o, nm), "get_item": lambda: o[nm],
                    "set_attr": lambda: setattr(o, nm, 1.0), "set_item": lambda: o.__setitem__(nm, 1.0)}[how]
        label = f"{name}:{op.get('via') or op.get('how')}"
        if name == "late_fail":
            label = f"late_fail:{op['target']}:{op['via']}"
        try:
            call()
        except expect:
            pass
        except Exception as exc:
            if library_frame(exc.__traceback__) is None:
                raise
            self.add(f"wrong-exception:{label}", f"expected {expect.__name__}, got {type(exc).__name__}: {exc}")
        else:
            self.add(f"not-refused:{label}", f"expected {expect.__name__}, nothing was raised")
        if name == "bodyless":
            now = (twin.form.name, np.array(twin.base, float), twin.frame.name, twin.date)
            if now[0] != held[0] or now[2] != held[2] or now[3] != held[3] or not np.array_equal(now[1], held[1]):
                self.add(f"after-refusal:{label}", f"a state held in {held[0]} form about a point without body was refused the "
                         f"form {op['target']} and is left in {now[0]} form {now[1].tolist()} (was {held[1].tolist()})")
            self.labels.append(f"bodyless:{op['geo']}")
        self.compare_touched(i, dict(s), coord_tol=tol, what=f"after-refusal:{label}")
        self.convertible(i, f"after-refusal:{label}")


def classify(case):
    ops = [o["op"] for o in case["ops"]]
    nt = False
    for a in range(len(ops)):
        if ops[a] in H.MAKERS and any(x in H.MUTATORS for x in ops[a + 1:]):
            nt = True
        if ops[a] in H.FAILING and any(x in ("set_form", "set_frame", "copy_form", "copy_frame", "copy_both", "copy_same")
                                       for x in ops[a + 1:]):
            nt = True
    return nt


def collect(case):
    m = Machine(case)
    m.opname = "init"
    for kind, msg in m.build_issues:
        m.add(kind, msg)
    for idx in range(len(m.pool)):
        m.access(idx)
    for k, op in enumerate(case["ops"]):
        m.step = k
        m.run_op(op)
    # end of history: complete name check and convertibility of every member
    m.step = len(case["ops"])
    m.opname = "end"
    for idx in range(len(m.pool)):
        m.foreign(idx, S.foreign_names(m.shadow[idx]["form"]))
        m.convertible(idx, "end")
    m.compare_others(set(), 0)
    # a copy nobody has modified since still behaves like its source
    # (right after the maker this was checked already: only pairs with later ops in between)
    for a, b in sorted(m.equiv):
        if a < len(m.pool) and b < len(m.pool) and m.made_at.get((a, b), -1) < len(case["ops"]) - 1:
            m.twin_check(a, b, f"{m.origin[b][0]}")
    return m


def check(case):
    m = collect(case)
    if m.viols:
        from .. import findings

        for v in m.viols:
            if not findings.match("C15", "histories", case, v.kind, v.msg, v.data):
                raise v
        raise m.viols[0]
    cls = sorted(set(m.labels))
    cls.append(f"pool:{len(m.pool)}")
    # the dimensions of the input space, one label each (evidence shows their share)
    for i in case["init"]:
        cls.append(f"coords-as:{i.get('coords_as', 'list')}")
        if i["klass"] == "Orbit":
            cls.append(f"prop:{str(i['prop']).split(':')[0]}")
        if len(i["mans"]) == 1:
            cls.append(f"lone-man-as:{i.get('man_as', 'list')}")
        if i["cov"]:
            cls.append(f"cov-as:{i['cov'].get('as', 'ndarray')}")
    for o in case["ops"]:
        if o.get("case", "lower") != "lower":
            cls.append("form-name-case:" + o["case"])
        if o["op"] == "set_coord":
            cls.append("value-type:" + o.get("vtype", "float"))
    cls = sorted(set(cls))
    return dict(nt=classify(case), cls=cls, ratio=m.worst)


# ------------------------------------------------------------------ known findings (development aid)



def _ops(case):
    return [o["op"] for o in case["ops"]]


def _has_cyl(case):
    return any(i["form"] == "cylindrical" for i in case["init"]) or any(o.get("form") == "cylindrical"
                                                                        for o in case["ops"])


def _maker_then_mutation(case, makers):
    ops = _ops(case)
    return any(ops[a] in makers and any(x in H.MUTATORS for x in ops[a + 1:]) for a in range(len(ops)))


FINDINGS = {
    "c15-cylindrical-theta-unreachable":
        lambda facet, case, kind, msg, data: kind == "access:cylindrical-theta" and data.get("form") == "cylindrical"
        and _has_cyl(case),
    "c15-pickle-base-lost":
        lambda facet, case, kind, msg, data: kind == "pickle:base-lost" and "pickle" in _ops(case),
    "c15-pickle-cov-data-lost":
        lambda facet, case, kind, msg, data: kind == "pickle:cov-data-lost" and "pickle" in _ops(case)
        and (any(i["cov"] for i in case["init"]) or "attach_cov" in _ops(case)),
    "c15-as-orbit-shares-data":
        lambda facet, case, kind, msg, data: kind in ("aliasing:as_orbit", "aliasing:as_statevector")
        and _maker_then_mutation(case, ("as_orbit", "as_statevector")),
}


def _assume_for_development():
    names = os.environ.get("VERIF_C15_ASSUME", "").strip()
    if not names:
        return
    from .. import findings

    findings._load()
    keys = list(FINDINGS) if names == "all" else [n.strip() for n in names.split(",") if n.strip()]
    lst = findings._active.setdefault("C15", [])
    for k in keys:
        if k not in FINDINGS:
            raise RuntimeError(f"VERIF_C15_ASSUME: unknown key {k}")
        if k not in lst:
            lst.append(k)
            findings._desc.setdefault(k, "(assumed for development via VERIF_C15_ASSUME)")


_assume_for_development()

FACETS = [
    Facet("histories", lambda s, t: H.history(), check, setup=setup,
          rule="a maker (copy / pickle / as_orbit ...) followed by a mutation, or a refused op followed by a conversion",
          quick=(16, 250), thorough=(16, 4000)),
]
