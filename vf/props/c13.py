"""C13 - CCSDS OPM / OEM / OMM / TDM messages round-trip in KVN and XML.

One case = one generated object.  For each encoding the check (on a freshly built copy of the
object) dumps, verifies the caller's object is bit-identical afterwards, loads and compares with
the original to the written precision (dump_load, input_untouched); then the KVN and XML decodings
are compared with each other (kvn_equals_xml); then each decoded object is dumped again in both
encodings and those are loaded and compared with the first decoding (redump).  Every discrepancy
is collected (the clauses are independent), each under a root-cause kind; the first one that is
not a listed known finding is raised, so the search goes on behind confirmed defects.

Development aid: VERIF_C13_ASSUME=all (or a comma separated list of FINDINGS keys) activates the
predicates below as if they were listed in KNOWN_FINDINGS.txt.
"""

import os
import re

from hypothesis import strategies as st

from .. import env
from ..core import Facet, Violation, library_frame
from ..gen import ccsds_objects as G
from ..oracles import ccsds_eq as E

RULE = ("Objects drawn field by field (state from oracle kep2cart, PSD covariance L L^T, maneuvers, "
        "user fields, TLE integer fields, measures) and encoded in both KVN and XML.")
ASSUMPTIONS = [
    "oracle: vf/oracles/ccsds_eq.py - plain attribute comparison to the precision each writer prints "
    "(1 us; 1 mm / 1 mm/s; covariance lower triangle 1e-12 relative; OMM per field; TDM range 1 mm, angles 0.01 deg, "
    "doppler 1e-6); a quantised field may differ by half a unit of its last written digit, so worst/tol reaches 1",
    "an absent name / identifier and the text 'N/A' are the same thing (the writers print N/A)",
    "the frame names RSW / RTN and QSW denote the same local frame",
    "a MeasureSet with several paths decodes to one MeasureSet per path: compared path by path, order kept within a path",
    "text fields use a KVN-safe alphabet (no '=', '[', ']', control characters, leading/trailing blanks)",
    "all epochs of one message carry the same time-scale label (TIME_SYSTEM is one per segment)",
    "form and propagator of the source object are not part of the message (decoded objects are cartesian StateVectors); "
    "coordinates are compared with the object's own cartesian form",
    "EOP configuration 'missing-pass' (only the covariance frame setter uses rotations)",
]
LEVEL_TEXT = ("Generated-input search: each generated object is written, read back and compared field by field, "
              "in both encodings, re-written from the decoded object in both encodings, and the caller's object "
              "is compared bit by bit before/after the dump.")
LEVEL_NOTE = ("Exploration only. Schema validity of the XML (XSD) is not checked. Text fields are limited to a "
              "KVN-safe alphabet. Messages are those the library writes, plus (facet 'foreign') the repository's "
              "sample messages with a few digits of their numeric fields replaced: a message the reader refuses is "
              "outside the property, one it accepts must be writable again. Facet 'fuzz': quick tier = the 102-entry fuzz "
              "corpus through the target's oracle; thorough tier = 4 x 12000 atheris executions of "
              "vf/fuzz/ccsds_target.py (skipped, never a violation, if atheris is not importable); exception types "
              "other than CcsdsError/ValueError/KeyError raised on edited messages are counted in evidence "
              "(fuzz_exception_type_leaks), not failed: the property speaks of round trips, not of rejection.")
TECHNIQUE = "property-based testing (Hypothesis), round-trip / differential KVN vs XML / idempotence oracles"

FMTS = ("kvn", "xml")

# ------------------------------------------------------------------ exceptions -> root-cause kinds

# (name, stage, message types, fmt, exception signature, trigger on the object spec).  A failure gets the
# friendly name only when signature AND trigger both match; anything else keeps its raw signature as kind.


def _n_user(spec):
    return len(spec.get("user", ()))


def _single_point(spec):
    return any(len(e["steps_us"]) == 1 for e in spec["ephems"])


def _single_cov(spec):
    return any(len(e["covs"]) == 1 for e in spec["ephems"])


def _noncart_ephem(spec):
    return any(e["form"] != "cartesian" for e in spec["ephems"])


def _groups(spec):
    """measures per path, in order of first appearance"""
    g = {}
    for m in spec["measures"]:
        g.setdefault(m["path"] % len(spec["paths"]), []).append(m)
    return list(g.values())


def _has_doppler(spec):
    return any(m["kind"] == "Doppler" for m in spec["measures"])


def _single_obs(spec):
    return any(len(g) == 1 for g in _groups(spec))


def _el_without_az(spec):
    return any(any(m["kind"] == "Elevation" for m in g) and not any(m["kind"] == "Azimut" for m in g)
               for g in _groups(spec))


def _empty_text(spec):
    t = spec["tle"]
    if spec["source"] == "tle":
        return t["name"] is None or t["intl"] == ""
    return False


ROOT_CAUSES = [
    ("xml-single-user-defined", "load", ("opm",), "xml", "AttributeError@io/ccsds/opm.py:_loads_xml",
     lambda s: _n_user(s) == 1),
    ("xml-single-user-defined", "load", ("omm",), "xml", "AttributeError@io/ccsds/omm.py:_loads_xml",
     lambda s: _n_user(s) == 1),
    ("xml-single-oem-point", "load", ("oem",), "xml", "TypeError@io/ccsds/commons.py:decode_unit", _single_point),
    ("xml-single-oem-cov", "load", ("oem",), "xml", "TypeError@io/ccsds/oem.py:_loads_xml", _single_cov),
    ("xml-single-tdm-observation", "load", ("tdm",), "xml", "AttributeError@io/ccsds/tdm.py:_loads_xml", _single_obs),
    ("omm-kvn-needs-tle", "dump", ("omm",), "kvn", "AttributeError@orbits/statevector.py:__getattr__",
     lambda s: True),
    ("tdm-doppler-unreadable", "load", ("tdm",), None, "CcsdsError@io/ccsds/tdm.py:_loads_kvn", _has_doppler),
    ("tdm-doppler-unreadable", "load", ("tdm",), None, "CcsdsError@io/ccsds/tdm.py:_loads_xml", _has_doppler),
    ("tdm-elevation-without-azimut", "load", ("tdm",), "kvn", "KeyError@io/ccsds/tdm.py:_loads_kvn", _el_without_az),
    ("tdm-elevation-without-azimut", "load", ("tdm",), "xml", "UnboundLocalError@io/ccsds/tdm.py:_loads_xml",
     _el_without_az),
    ("oem-xml-noncartesian", "dump", ("oem",), "xml", "AttributeError@orbits/statevector.py:__getattr__",
     _noncart_ephem),
    ("tdm-segments-not-rewritable", "dump", ("tdm",), None, "TypeError@io/ccsds/commons.py:detect2dump",
     lambda s: len(_groups(s)) > 1),
    ("xml-empty-text", "load", ("omm",), "xml", "AttributeError@io/ccsds/commons.py:_recurse", _empty_text),
]


def _safe(trig, spec, *a):
    try:
        return bool(trig(spec, *a))
    except (KeyError, TypeError, AttributeError):
        return False  # a case without generator spec (repository sample message): no trigger is known for it


def exc_violation(stage, chain, typ, fmt, exc, spec, loaded_source=False):
    """An exception out of beyond on a valid object -> Violation with a root-cause kind.
    stage: 'dump' | 'load'; chain: text describing where in the round trip."""
    frame = library_frame(exc.__traceback__)
    if frame is None:
        raise exc
    sig = f"{type(exc).__name__}@{frame}"
    kind = None
    for name, st_, types, f, s, trig in ROOT_CAUSES:
        if st_ == stage and typ in types and f in (None, fmt) and s == sig:
            if name == "omm-kvn-needs-tle":
                ok = "'tle'" in str(exc) and (loaded_source or spec.get("source") == "direct")
            elif name == "oem-xml-noncartesian":
                ok = "is not available in" in str(exc) and _safe(trig, spec) and not loaded_source
            else:
                ok = _safe(trig, spec)
            if ok:
                kind = name
                break
    if kind is None:
        kind = f"{stage}-raised:{typ}-{fmt}:{sig}"
    return Violation(kind, f"{chain}: {type(exc).__name__}: {str(exc)[:160]}", stage=stage, fmt=fmt,
                     chain=chain, signature=sig)


# ------------------------------------------------------------------ the check


def _dumps(obj, fmt, case, first=True):
    """dumps with the format given by argument or by configuration"""
    from beyond.config import config
    from beyond.io.ccsds import dumps

    kw = {}
    if first:
        for k in ("name", "cospar_id", "originator"):
            if case.get("kw", {}).get(k) is not None:
                kw[k] = case["kw"][k]
        if case["obj"]["type"] == "opm" and not case["obj"].get("kep", True):
            kw["kep"] = False
    if first and case.get("via") == "config":
        had = "io" in config
        old = config.get("io")
        config["io"] = {"ccsds_default_format": fmt}
        try:
            return dumps(obj, **kw)
        finally:
            if had:
                config["io"] = old
            else:
                del config["io"]
    return dumps(obj, fmt=fmt, **kw)


def _fmt_of(text):
    return "kvn" if text.lstrip().startswith("CCSDS_") else ("xml" if text.lstrip().startswith("<?xml") else "?")


def _expected(case, obj, typ):
    want = E.describe(obj, typ)
    kw = case.get("kw") or {}
    if typ in ("opm", "omm"):
        for k in ("name", "cospar_id"):
            if kw.get(k) is not None:
                want[k] = kw[k]
    elif typ == "oem":
        for e in want["ephems"]:
            for k in ("name", "cospar_id"):
                if kw.get(k) is not None:
                    e[k] = kw[k]
    # every date of a message is expressed in the TIME_SYSTEM it declares: the label of the state (OPM), of the
    # first point (OEM segment), of the first measure (TDM segment); the instants are those of the object
    if typ == "opm":
        for m in want["mans"]:
            m["epoch"] = dict(m["epoch"], scale=want["epoch"]["scale"])
    elif typ == "oem":
        # interpolation settings: what the caller asked for last (the spec), not what the object happens to report
        specs = list(case["obj"]["ephems"]) + ([case["obj"]["ephems"][-1]] if case["obj"].get("same_twice") else [])
        for e, sp in zip(want["ephems"], specs):
            e["method"], e["order"] = sp["method"], sp["order"]
        for e in want["ephems"]:
            for pt in e["points"]:
                pt["epoch"] = dict(pt["epoch"], scale=e["points"][0]["epoch"]["scale"])
    elif typ == "tdm":
        for g in want["groups"]:
            for m in g["measures"]:
                m["epoch"] = dict(m["epoch"], scale=g["measures"][0]["epoch"]["scale"])
    return want


def _mixed(spec):
    """does the object carry dates with more than one time-scale label"""
    if spec["type"] == "opm":
        return any(m.get("label") for m in spec["mans"])
    if spec["type"] == "oem":
        return any(lab for e in spec["ephems"] for lab in e.get("labels") or ())
    if spec["type"] == "tdm":
        return any(m.get("label") for m in spec["measures"])
    return False


def _clone(obj, how):
    """the object as it is after going through a copy / a pickle (what a caller may well hand to dumps)"""
    import copy
    import pickle

    if how == "pickle":
        return pickle.loads(pickle.dumps(obj))
    if how == "deepcopy":
        return copy.deepcopy(obj)
    if how == "copy()":
        if isinstance(obj, (list, tuple)):
            return type(obj)(x.copy() for x in obj)
        return obj.copy() if hasattr(obj, "copy") and not isinstance(obj, list) else copy.copy(obj)
    return obj


def _tol(typ, *fmts, mixed=False):
    # a date that had to be converted to the declared time system went through Date.change_scale and Date.datetime,
    # i.e. five more roundings to the microsecond (offsets such as UT1-UTC or TDB-TT are not whole microseconds):
    # 2.5 us at worst
    return E.Tol(coord=max(E.COORD_RES.get((typ, f), 1e-3) for f in fmts), epoch=3e-6 if mixed else 1e-6)


def _kind(kind, typ, fmt):
    # the OMM-XML writer prints EPHEMERIS_TYPE / CLASSIFICATION_TYPE as constants: one root cause
    if typ == "omm" and fmt == "xml" and kind in ("omm-classification", "omm-ephemeris_type"):
        return "omm-xml-constant-class-type"
    return kind


def collect(case):
    """-> (list of Violation, info dict).  Never raises for a library failure."""
    from beyond.io.ccsds import loads

    spec = case["obj"]
    typ = spec["type"]
    viols = []
    seen = set()
    worst = [0.0]

    def add(kind, msg, **data):
        if kind not in seen:
            seen.add(kind)
            viols.append(Violation(kind, msg, **data))

    def add_exc(v):
        if v.kind not in seen:
            seen.add(v.kind)
            viols.append(v)

    want = None
    decoded = {}
    reported = {}
    # ---- phase 1: dump (input untouched), load, compare with the original - once per encoding
    for fmt in FMTS:
        obj = _clone(G.build(spec), case.get("clone"))
        if case.get("read_infos") and typ in ("opm", "omm"):
            obj.infos.kep  # the caller looked at the orbit first (lazily built, cached helper objects)
        snap0 = E.snapshot(obj, typ)
        # what the message must carry is what the object had before it was cloned
        w = _expected(case, G.build(spec) if case.get("clone") else obj, typ)
        if E.snapshot_diff(snap0, E.snapshot(obj, typ)):
            raise RuntimeError("harness: describing the object changed it")
        if want is None:
            want = w
        try:
            text = _dumps(obj, fmt, case)
        except Exception as exc:
            add_exc(exc_violation("dump", f"dumps(x, {fmt})", typ, fmt, exc, spec))
            text = None
        # the caller's object is bit-identical afterwards (also when the dump failed)
        d = E.snapshot_diff(snap0, E.snapshot(obj, typ))
        if d:
            add(f"input-mutated:{typ}-{fmt}", f"dumps(x, {fmt}) changed its argument: {d}", fmt=fmt)
        if text is None:
            continue
        if _fmt_of(text) != fmt:
            add("wrong-format", f"asked {fmt} via {case.get('via', 'arg')}, text is {_fmt_of(text)}", fmt=fmt)
            continue
        try:
            y = loads(text)
        except Exception as exc:
            add_exc(exc_violation("load", f"loads(dumps(x, {fmt}))", typ, fmt, exc, spec))
            continue
        try:
            got = E.describe(y, typ)
        except TypeError as exc:
            add("decoded-type", f"loads(dumps(x, {fmt})): {exc}", fmt=fmt)
            continue
        tol = _tol(typ, fmt, mixed=_mixed(spec))
        fields = E.diff(w, got, typ, tol)
        if not fields:
            worst[0] = max(worst[0], tol.worst)
        reported[fmt] = {f for f, _, _ in fields}
        for f, k, m in fields:
            add(_kind(k, typ, fmt), f"loads(dumps(x, {fmt})) differs from x: {m}", fmt=fmt, clause="dump_load")
        decoded[fmt] = (y, got)
    # ---- phase 2: the two encodings decode to the same object
    if len(decoded) == 2:
        tol = _Double(_tol(typ, "kvn", "xml"))
        both = reported["kvn"] | reported["xml"]
        fields = [e for e in E.diff(decoded["kvn"][1], decoded["xml"][1], typ, tol) if e[0] not in both]
        for f, k, m in fields:
            add(f"kvn-vs-xml:{k}", f"KVN decoding vs XML decoding: {m}", clause="kvn_equals_xml")
    # ---- phase 3: anything that was read can be written again, in either encoding, and decodes the same
    for fmt, (y, got) in decoded.items():
        for f2 in FMTS:
            ysnap = E.snapshot(y, typ)
            try:
                text2 = _dumps(y, f2, case, first=False)
            except Exception as exc:
                v = exc_violation("dump", f"dumps(loads(dumps(x, {fmt})), {f2})", typ, f2, exc, spec,
                                  loaded_source=True)
                add_exc(v)
                if v.kind != "tdm-segments-not-rewritable":
                    continue
                # go on behind it: the segments merged into one MeasureSet must be writable
                from beyond.utils.measures import MeasureSet

                try:
                    text2 = _dumps(MeasureSet([m for s_ in y for m in s_]), f2, case, first=False)
                except Exception as exc2:
                    add_exc(exc_violation("dump", f"dumps(merged loads(dumps(x, {fmt})), {f2})", typ, f2, exc2,
                                          spec, loaded_source=True))
                    continue
            d = E.snapshot_diff(ysnap, E.snapshot(y, typ))
            if d:
                add(f"input-mutated:{typ}-{f2}", f"dumps(y, {f2}) changed its argument (y decoded from {fmt}): {d}",
                    fmt=f2)
            try:
                z = loads(text2)
                gz = E.describe(z, typ)
            except Exception as exc:
                add_exc(exc_violation("load", f"loads(dumps(loads(dumps(x, {fmt})), {f2}))", typ, f2, exc, spec,
                                      loaded_source=True))
                continue
            tol2 = _tol(typ, f2)
            f2fields = [e for e in E.diff(got, gz, typ, tol2) if e[0] not in reported[fmt]]
            if not f2fields:
                worst[0] = max(worst[0], tol2.worst)
            for f, k, m in f2fields:
                add(_kind(k, typ, f2), f"{fmt} -> decoded -> {f2} -> decoded differs from the first decoding: {m}",
                    fmt=f2, clause="redump")
    # ---- phase 4: an object that was read, changed in place by the caller, and written again
    if case.get("edit") and typ in ("opm", "oem") and "kvn" in decoded:
        from beyond.io.ccsds import dumps

        y = decoded[case["edit"]["from"]][0] if case["edit"]["from"] in decoded else decoded["kvn"][0]
        targets = [y] if typ == "opm" else ([y] if not isinstance(y, (list, tuple)) else list(y))
        try:
            for tg in targets:
                tg.frame = case["edit"]["frame"]
                tg.form = case["edit"]["form"]
                if typ == "opm":
                    tg.name = "edited"
                else:
                    tg.name = "edited"
            gy = E.describe(y, typ)
            for f2 in FMTS:
                gz = E.describe(loads(dumps(y, fmt=f2)), typ)
                tol3 = _tol(typ, f2)
                for f, k, m in E.diff(gy, gz, typ, tol3):
                    add(f"edited:{k}", f"decoded from {case['edit']['from']}, moved to {case['edit']['frame']} / "
                                       f"{case['edit']['form']} in place, written in {f2} and read: {m}", fmt=f2, clause="edit")
        except Exception as exc:
            add_exc(exc_violation("dump", f"decoded object changed in place then written", typ, "kvn", exc, spec,
                                  loaded_source=True))
    return viols, dict(worst=worst[0], want=want)


class _Double:
    """two quantisations apart: twice the tolerance of one"""

    def __init__(self, tol):
        self.t = tol
        self.coord = tol.coord
        self.epoch = tol.epoch

    def see(self, err, tol):
        return self.t.see(err, 2 * tol)

    @property
    def worst(self):
        return self.t.worst


def classes(case):
    spec = case["obj"]
    typ = spec["type"]
    c = [f"via:{case.get('via', 'arg')}", f"clone:{case.get('clone')}", f"eop:{'real' if G.REAL_EOP else 'none'}"]
    if _mixed(spec):
        c.append("mixed-time-scale-labels")
    if case.get("edit"):
        c.append("decoded-edited-rewritten")
    if spec.get("pre"):
        c.append("before-dump:" + spec["pre"])
    if spec.get("same_twice"):
        c.append("same-ephem-twice")
    if any(m.get("dt_us") == 0 for m in spec.get("mans", ())):
        c.append("burn-at-epoch")
    for ep in [spec.get("epoch")] + [e.get("epoch") for e in spec.get("ephems", ())]:
        if ep and ep.get("kind", "uniform") not in ("uniform", "second"):
            c.append("date:" + ep["kind"])
    nt = False
    if typ in ("opm", "omm"):
        if spec.get("cov"):
            c.append("cov:" + str(spec["cov"]["frame"] and ("local" if spec["cov"]["frame"] in G.LOCAL else "other")))
            nt = True
        if spec.get("mans"):
            c.append(f"mans:{len(spec['mans'])}")
            nt = True
        if spec.get("user"):
            c.append(f"user:{len(spec['user'])}")
            nt = True
        scale = (spec.get("epoch") or {}).get("scale", "UTC")
        if scale != "UTC":
            nt = True
        if typ == "omm":
            c.append("src:" + spec["source"])
            nt = True
    elif typ == "oem":
        c.append(f"ephems:{len(spec['ephems'])}")
        if spec.get("container") == "tuple" and spec.get("as_list"):
            c.append("tuple-of-ephems")
        for e in spec["ephems"]:
            if e.get("order_in") and e["order_in"] != sorted(e["order_in"]):
                c.append("points-given-unsorted")
            if e["frame"] in G.JPL_FRAMES:
                c.append("oem-other-centre")
            if len(e["steps_us"]) == 1:
                c.append("single-point")
            if len(e["covs"]) == 1:
                c.append("single-cov")
            if e["covs"]:
                c.append("with-cov")
            if e["form"] != "cartesian":
                c.append("non-cartesian")
        nt = True
    else:
        g = _groups(spec)
        c.append(f"paths:{len(g)}")
        if _single_obs(spec):
            c.append("single-observation")
        if _has_doppler(spec):
            c.append("doppler")
        nt = True
    return nt, c


def check(case):
    viols, info = collect(case)
    if viols:
        from .. import findings

        facet = case.get("facet", "")
        for v in viols:
            if not findings.match("C13", facet, case, v.kind, v.msg, v.data):
                raise v
        raise viols[0]
    nt, cls = classes(case)
    return dict(nt=nt, cls=cls, ratio=info["worst"])


# ------------------------------------------------------------------ strategies


@st.composite
def case_of(draw, objects, facet):
    obj = draw(objects)
    kw = {}
    if obj["type"] in ("opm", "oem", "omm") and draw(st.sampled_from(range(6))) == 0:
        kw = dict(name=draw(G.opt(G.text(10), 2)), cospar_id=draw(G.opt(G.cospar, 2)),
                  originator=draw(G.opt(G.text(10), 2)))
    case = dict(facet=facet, obj=obj, via=draw(st.sampled_from(["arg", "arg", "arg", "config"])), kw=kw,
                clone=draw(st.sampled_from([None, None, None, "copy()", "deepcopy", "pickle"])),
                read_infos=draw(st.sampled_from([False, False, True])))
    if obj["type"] in ("opm", "oem") and draw(st.sampled_from(range(4))) == 0:
        # the decoded object is moved to another frame / form in place by the caller and written again
        earth = all(f in G.FRAMES for f in ([obj["state"]["frame"]] if obj["type"] == "opm" else
                                            [e["frame"] for e in obj["ephems"]]))
        if earth:
            case["edit"] = {"from": draw(st.sampled_from(FMTS)), "frame": draw(st.sampled_from(["EME2000", "MOD", "TOD", "CIRF"])),
                            "form": draw(st.sampled_from(["cartesian", "keplerian", "spherical"]))}
    return case


def _real(shard):
    """every third shard runs with the real Earth-orientation tables (dates inside them, leap-second midnights)"""
    return shard % 3 == 2


def _setup(shard):
    G.REAL_EOP = _real(shard)
    env.eop("real" if G.REAL_EOP else "missing-pass")
    if G.REAL_EOP:
        # every writer stamps CREATION_DATE = now, which lies beyond the end of the tables
        from beyond.config import config

        config["eop"]["missing_policy"] = "pass"


def _setup_jpl(shard):
    G.REAL_EOP = False
    env.eop("missing-pass")
    env.jpl()
    from beyond.env import jpl

    jpl.create_frames()


# ------------------------------------------------------------------ messages not written by beyond
# "anything that was read can be written again" on the repository's sample messages (Blue Book examples,
# other producers' unit conventions), unedited or with a few digits of their numeric fields replaced.
# A message the reader refuses (any exception) is outside the property; one it accepts must be writable
# in both encodings and decode to the same object again.


def sample_names():
    d = os.path.join(env.repo(), "tests", "io", "ccsds", "data")
    return sorted(f for f in os.listdir(d) if f.endswith((".kvn", ".xml")))


def _edit(text, edits):
    lines = text.split("\n")
    # numeric value fields only: skip the header / metadata / epochs (edits there are refused or irrelevant)
    cand = [k for k, ln in enumerate(lines)
            if any(c.isdigit() for c in ln)
            and not any(w in ln for w in ("CCSDS_", "CREATION_DATE", "<?xml", "xmlns", "OBJECT_ID", "_TIME",
                                          "EPOCH", "version="))]
    for e in edits:
        if not cand:
            break
        k = cand[e["line"] % len(cand)]
        ln = lines[k]
        # digits of the value, not of the key / tag / unit
        body_lo = ln.find(">") + 1 if ln.lstrip().startswith("<") else ln.find("=") + 1
        body_hi = ln.rfind("</") if ln.lstrip().startswith("<") and "</" in ln else (
            ln.find("[") if "[" in ln else len(ln))
        dates = [m.span() for m in re.finditer(r"\d{4}-[\d-]+T[\d:.]+", ln)]  # epochs stay as they are
        pos = [j for j in range(max(body_lo, 0), body_hi)
               if ln[j].isdigit() and not any(a <= j < b for a, b in dates)]
        if not pos:
            continue
        j = pos[e["pos"] % len(pos)]
        lines[k] = ln[:j] + str(e["digit"]) + ln[j + 1:]
    return "\n".join(lines)


@st.composite
def foreign_case(draw, names):
    name = draw(st.sampled_from(names))
    n = draw(st.sampled_from([0, 1, 1, 2, 3]))
    edits = [dict(line=draw(st.integers(0, 999)), pos=draw(st.integers(0, 99)), digit=draw(st.integers(0, 9)))
             for _ in range(n)]
    return dict(facet="foreign", obj=dict(type=name.split(".")[0].split("_")[0].split("-")[0], sample=name),
                edits=edits)


def _strip_names(d):
    """A foreign KVN value such as 'GOES 9 [P]' is decoded with a trailing blank ('GOES 9 '), which KVN cannot
    carry: names are compared without surrounding blanks here (text fields of the property's domain have none)."""
    for item in [d] + list(d.get("ephems", ())):
        for k in ("name", "cospar_id"):
            if isinstance(item.get(k), str):
                item[k] = item[k].strip()
    return d


def check_foreign(case):
    from beyond.io.ccsds import loads

    name = case["obj"]["sample"]
    typ = case["obj"]["type"]
    with open(os.path.join(env.repo(), "tests", "io", "ccsds", "data", name)) as fh:
        text = _edit(fh.read(), case["edits"])
    try:
        y = loads(text)
    except Exception as exc:
        return dict(nt=False, cls=[f"refused:{type(exc).__name__}"])
    gy = _strip_names(E.describe(y, typ))
    viols = []
    for f2 in FMTS:
        ysnap = E.snapshot(y, typ)
        try:
            text2 = _dumps(y, f2, dict(obj=case["obj"]), first=False)
        except Exception as exc:
            viols.append(exc_violation("dump", f"dumps(loads({name}), {f2})", typ, f2, exc, case["obj"],
                                       loaded_source=True))
            continue
        d = E.snapshot_diff(ysnap, E.snapshot(y, typ))
        if d:
            viols.append(Violation(f"input-mutated:{typ}-{f2}", f"dumps(loads({name}), {f2}) changed its argument: {d}",
                                   fmt=f2))
        try:
            z = loads(text2)
            gz = _strip_names(E.describe(z, typ))
        except Exception as exc:
            viols.append(exc_violation("load", f"loads(dumps(loads({name}), {f2}))", typ, f2, exc, case["obj"],
                                       loaded_source=True))
            continue
        tol = _tol(typ, f2)
        for f, k, m in E.diff(gy, gz, typ, tol):
            if f2 == "kvn" and f in ("name", "cospar_id") and "[" in str(gy.get(f)):
                k = "kvn-bracket-in-text"  # kvn2dict takes every '[' for the start of a unit
            viols.append(Violation(_kind(k, typ, f2), f"{name} -> decoded -> {f2} -> decoded differs: {m}", fmt=f2,
                                   clause="redump"))
    if viols:
        from .. import findings

        for v in viols:
            if not findings.match("C13", "foreign", case, v.kind, v.msg, v.data):
                raise v
        raise viols[0]
    return dict(nt=True, cls=[typ, f"edits:{len(case['edits'])}"])


# ------------------------------------------------------------------ other spellings of the same message
# The same message spelled differently (all spellings the Blue Books allow and the reader of the unchanged
# tree accepts) decodes to the same object; the file-object API (dump / load) is the string API.

RESPELL = {
    "kvn": ["crlf", "no-space-eq", "wide-eq", "no-blank-lines", "extra-blank-lines", "no-units", "doy-dates",
            "no-fraction", "header-comment"],
    "xml": ["compact", "single-quotes", "no-units", "doy-dates", "no-fraction", "xml-comment"],
}
_CAL = re.compile(r"(\d{4})-(\d{2})-(\d{2})T(\d{2}:\d{2}:\d{2}\.\d{6})")


def _doy(m):
    from datetime import date

    return f"{m.group(1)}-{date(int(m.group(1)), int(m.group(2)), int(m.group(3))).timetuple().tm_yday:03d}T{m.group(4)}"


def respell(text, fmt, how):
    if how == "crlf":
        return text.replace("\n", "\r\n")
    if how == "doy-dates":
        return _CAL.sub(_doy, text)
    if how == "no-fraction":
        return re.sub(r"(T\d{2}:\d{2}:\d{2})\.000000", r"\1", text)
    lines = text.split("\n")
    if fmt == "kvn":
        if how in ("no-space-eq", "wide-eq"):
            sep = "=" if how == "no-space-eq" else "    =   "
            lines = [(ln.partition("=")[0].rstrip() + sep + ln.partition("=")[2].lstrip()) if "=" in ln
                     and not ln.startswith("COMMENT") else ln for ln in lines]
        elif how == "no-blank-lines":
            lines = [ln for ln in lines if ln.strip()]
        elif how == "extra-blank-lines":
            lines = [x for ln in lines for x in ((ln, "") if ln.strip() and "=" in ln else (ln,))]
        elif how == "no-units":
            lines = [re.sub(r"\s*\[[^\]]*\]\s*$", "", ln) if "=" in ln and not ln.startswith(("COMMENT", "USER_DEFINED"))
                     else ln for ln in lines]
        elif how == "header-comment":
            lines[3:3] = ["COMMENT written by another producer", "COMMENT second line"]
    else:
        if how == "compact":
            return "".join(ln.strip() if k else ln + "\n" for k, ln in enumerate(lines))
        if how == "single-quotes":
            lines = [ln if ln.startswith("<?xml") or "'" in ln else re.sub(r'="([^"]*)"', r"='\1'", ln) for ln in lines]
        elif how == "no-units":
            lines = [re.sub(r' units="[^"]*"', "", ln) for ln in lines]
        elif how == "xml-comment":
            return text.replace("<body>", "<!-- another producer --><body>").replace("<data>", "<data><!-- c -->")
    return "\n".join(lines)


@st.composite
def respell_case(draw):
    obj = draw(st.one_of(G.opm_spec(), G.oem_spec(), G.omm_spec(), G.tdm_spec()))
    fmt = draw(st.sampled_from(FMTS))
    return dict(facet="respell", obj=obj, fmt=fmt, how=draw(st.sampled_from(RESPELL[fmt] + ["file-object"])),
                kw=dict(originator=draw(G.opt(G.text(10), 2))))


def check_respell(case):
    import io

    from beyond.io import ccsds

    spec = case["obj"]
    typ = spec["type"]
    fmt = case["fmt"]
    obj = G.build(spec)
    kw = {k: v for k, v in case["kw"].items() if v is not None}
    text = ccsds.dumps(obj, fmt=fmt, **kw)
    ref = E.describe(ccsds.loads(text), typ)
    how = case["how"]
    if how == "file-object":
        fp = io.StringIO()
        ccsds.dump(obj, fp, fmt=fmt, **kw)
        text2 = fp.getvalue()
        strip = lambda t: [ln for ln in t.split("\n") if "CREATION_DATE" not in ln]  # noqa: E731
        if strip(text2) != strip(text):
            a, b = strip(text), strip(text2)
            k = next((i for i, (x, y) in enumerate(zip(a, b)) if x != y), min(len(a), len(b)))
            raise Violation("dump-differs-from-dumps", f"dump(obj, fp, ...) wrote line {k + 1} {b[k:k + 1]} where dumps gives "
                                                       f"{a[k:k + 1]}", fmt=fmt)
        got = E.describe(ccsds.load(io.StringIO(text2)), typ)
    else:
        text2 = respell(text, fmt, how)
        if text2 == text:
            return dict(nt=False, cls=[f"{how}:no-effect"])
        got = E.describe(ccsds.loads(text2), typ)
    fields = E.diff(ref, got, typ, E.Tol(coord=1e-9, epoch=1e-9))
    if fields:
        f, k, m = fields[0]
        raise Violation(f"respell:{how}:{k}", f"the {fmt} message spelled with {how} decodes differently: {m}", fmt=fmt, how=how)
    return dict(nt=True, cls=[f"{fmt}:{how}", typ])


# ------------------------------------------------------------------ fuzz (atheris, thorough tier)

FUZZ_RUNS = 12000


def fuzz_runner(shard, nshards, tier, stats):
    """Shard 0 always sends the fuzz corpus itself (sample messages + both encodings of 24 generated objects)
    through the target's oracle.  In the thorough tier every shard runs `vf.fuzz.ccsds_target` under atheris
    (-runs, not time; seed from VERIF_SEED) in a child process and yields the crashing inputs, which
    `check_fuzz` re-executes without atheris (a crash file is an ordinary replay case).  If atheris cannot be
    imported the campaign is reported as skipped; that is never a violation."""
    import glob
    import shutil
    import subprocess
    import sys
    import tempfile

    from .. import core
    from ..fuzz import ccsds_target

    if shard == 0:
        for k in range(len(ccsds_target.corpus())):
            yield dict(data=[k])
    if tier != "thorough":
        return
    deps = os.path.join(core.HERE, ".deps")
    envv = dict(os.environ, PYTHONPATH=os.pathsep.join([deps, core.HERE]))
    probe = subprocess.run([sys.executable, "-c", "import atheris"], env=envv, capture_output=True)
    if probe.returncode != 0:
        stats.extra["fuzz_skipped"] = 1
        return
    seed = core.shard_seed(os.environ.get("VERIF_SEED", "1") or "1", "C13", "fuzz", shard)
    tmp = tempfile.mkdtemp(prefix="vf-fuzz-")
    try:
        r = subprocess.run([sys.executable, "-m", "vf.fuzz.ccsds_target", f"-runs={FUZZ_RUNS}", f"-seed={seed}",
                            f"-artifact_prefix={tmp}/", "-max_len=48", "-len_control=0"], cwd=core.HERE, env=envv,
                           capture_output=True, text=True, timeout=3000)
        m = re.findall(r"^#(\d+)\s", r.stderr, flags=re.M)
        stats.extra["fuzz_execs"] = int(m[-1]) if m else 0
        rate = re.findall(r"exec/s: (\d+)", r.stderr)
        if rate:
            stats.extra["max_fuzz_exec_per_s"] = int(rate[-1])
        leaks = re.findall(r"^LEAKS (\{.*\})", r.stderr, flags=re.M)
        if leaks and leaks[-1] != "{}":
            stats.extra["fuzz_exception_type_leaks"] = leaks[-1]
        labels = re.findall(r"^LABELS (\{.*\})", r.stderr, flags=re.M)
        if labels:
            stats.extra["fuzz_labels"] = labels[-1]
        crashes = sorted(glob.glob(os.path.join(tmp, "crash-*")))
        if crashes:
            # kept in evidence: what the child printed when it stopped (the crash file itself is replayed below)
            stats.extra["fuzz_crash_files"] = len(crashes)
            stats.extra["fuzz_crash_output"] = r.stderr[-1500:]
            sys.stderr.write(f"[C13/fuzz shard {shard}] atheris stopped on a crash file:\n{r.stderr[-1500:]}\n")
        if r.returncode != 0 and not crashes:
            raise RuntimeError(f"atheris run failed without a crash file:\n{r.stderr[-2000:]}")
        for path in crashes:
            with open(path, "rb") as fh:
                yield dict(data=list(fh.read()))
    finally:
        shutil.rmtree(tmp, ignore_errors=True)


def check_fuzz(case):
    from ..fuzz import ccsds_target

    label = ccsds_target.one_input(bytes(case["data"]))
    return dict(nt=label == "roundtrip", cls=[label])


# ------------------------------------------------------------------ known findings (development aid)
# Predicates are consulted only for keys listed in KNOWN_FINDINGS.txt (or, while developing, named in
# VERIF_C13_ASSUME, comma separated or 'all').  Each pins failure kind + the input class that triggers it.


def _p(kind_test, trigger):
    def pred(facet, case, kind, msg, data):
        return kind_test(kind, data) and _safe(trigger, case["obj"], data)

    return pred


def _has_qsw_man(spec, data):
    return any(m["frame"] == "QSW" for m in spec.get("mans", ()))


def _cov_setter_builtin(spec, data):
    def hit(c):
        return bool(c) and c["how"] == "setter" and c["frame"] not in (None, "QSW", "TNW")

    if spec["type"] == "oem":
        return any(hit(c) for e in spec["ephems"] for c in e["covs"].values())
    return hit(spec.get("cov"))


def _comment_token(spec, data):
    return any(m["comment"] and "COMMENT" in m["comment"] for m in spec.get("mans", ()))


FINDINGS = {
    "c13-man-qsw-loaded-as-rsw": _p(lambda k, d: k == "man-frame:QSW->RSW", _has_qsw_man),
    "c13-xml-single-user-defined": _p(lambda k, d: k == "xml-single-user-defined",
                                      lambda s, d: _n_user(s) == 1),
    "c13-xml-single-oem-point": _p(lambda k, d: k == "xml-single-oem-point", lambda s, d: _single_point(s)),
    "c13-xml-single-oem-cov": _p(lambda k, d: k == "xml-single-oem-cov", lambda s, d: _single_cov(s)),
    "c13-omm-kvn-needs-tle": _p(lambda k, d: k == "omm-kvn-needs-tle", lambda s, d: s["type"] == "omm"),
    "c13-kvn-cov-frame-dropped": _p(lambda k, d: k == "cov-frame-dropped" and d.get("fmt") == "kvn",
                                    lambda s, d: s["type"] in ("opm", "omm") and _cov_setter_builtin(s, d)),
    "c13-tdm-doppler-unreadable": _p(lambda k, d: k == "tdm-doppler-unreadable", lambda s, d: _has_doppler(s)),
    "c13-oem-kvn-mutates-input": _p(lambda k, d: k == "input-mutated:oem-kvn",
                                    lambda s, d: s["type"] == "oem" and _noncart_ephem(s)),
    "c13-oem-xml-noncartesian": _p(lambda k, d: k == "oem-xml-noncartesian", lambda s, d: _noncart_ephem(s)),
    "c13-xml-single-tdm-observation": _p(lambda k, d: k == "xml-single-tdm-observation",
                                         lambda s, d: _single_obs(s)),
    "c13-tdm-elevation-without-azimut": _p(lambda k, d: k == "tdm-elevation-without-azimut",
                                           lambda s, d: _el_without_az(s)),
    "c13-tdm-segments-not-rewritable": _p(lambda k, d: k == "tdm-segments-not-rewritable",
                                          lambda s, d: len(_groups(s)) > 1),
    "c13-omm-xml-constant-class-type": _p(lambda k, d: k == "omm-xml-constant-class-type",
                                          lambda s, d: s["type"] == "omm" and (
                                              "sample" in s or s["tle"]["classification"] != "U"
                                              or s["tle"]["etype"] != 0)),
    "c13-kvn-bracket-in-text": _p(lambda k, d: k == "kvn-bracket-in-text" and d.get("fmt") == "kvn",
                                  lambda s, d: s["sample"].startswith("omm_bluebook")),
    "c13-xml-empty-text": _p(lambda k, d: k == "xml-empty-text", lambda s, d: _empty_text(s)),
    "c13-kvn-man-comment-split": _p(lambda k, d: k == "man-comment" and d.get("fmt") == "kvn", _comment_token),
}


def _assume_for_development():
    names = os.environ.get("VERIF_C13_ASSUME", "").strip()
    if not names:
        return
    from .. import findings

    findings._load()
    keys = list(FINDINGS) if names == "all" else [n.strip() for n in names.split(",") if n.strip()]
    lst = findings._active.setdefault("C13", [])
    for k in keys:
        if k not in FINDINGS:
            raise RuntimeError(f"VERIF_C13_ASSUME: unknown key {k}")
        if k not in lst:
            lst.append(k)
            findings._desc.setdefault(k, "(assumed for development via VERIF_C13_ASSUME)")


_assume_for_development()


FACETS = [
    Facet("opm", lambda s, t: case_of(G.opm_spec(), "opm"), check, setup=_setup,
          rule="object has a covariance, a maneuver, a user field or a non-UTC scale",
          quick=(10, 150), thorough=(16, 2000)),
    Facet("opm_jpl", lambda s, t: case_of(st.one_of(G.opm_spec(jpl=True), G.opm_spec(jpl=True), G.oem_spec(jpl=True)),
                                          "opm_jpl"), check, setup=_setup_jpl,
          rule="as opm / oem; states in a body-centred frame created from the DE403 file",
          quick=(1, 150), thorough=(4, 1000)),
    Facet("oem", lambda s, t: case_of(G.oem_spec(), "oem"), check, setup=_setup,
          rule="every case (1-2 ephemerides, 1-12 points, 0..N covariances)",
          quick=(8, 60), thorough=(16, 1000)),
    Facet("omm", lambda s, t: case_of(G.omm_spec(), "omm"), check, setup=_setup,
          rule="every case (orbit from a generated TLE or built like the reader builds it)",
          quick=(4, 150), thorough=(8, 2000)),
    Facet("tdm", lambda s, t: case_of(G.tdm_spec(), "tdm"), check, setup=_setup,
          rule="every case (1-3 paths, Range/Azimut/Elevation/Doppler)",
          quick=(3, 200), thorough=(8, 2000)),
    Facet("foreign", lambda s, t: foreign_case(sample_names()), check_foreign, setup=_setup_jpl,
          rule="the (possibly digit-edited) sample message was accepted by the reader",
          quick=(1, 250), thorough=(4, 2500)),
    Facet("respell", lambda s, t: respell_case(), check_respell, setup=_setup,
          rule="the respelling changed the text",
          quick=(3, 120), thorough=(6, 1500)),
    Facet("fuzz", check=check_fuzz, runner=fuzz_runner, setup=_setup_jpl,
          rule="the (edited) message was accepted by the reader, written in both encodings and read back equal",
          quick=(1, 0), thorough=(4, FUZZ_RUNS)),
]
