"""C11 - ground-station geometry matches independent WGS-84 geodesy."""

import json
import math

import numpy as np
from hypothesis import strategies as st

from ..core import Facet, Violation
from ..gen import orbits as go
from ..oracles import earth as oe
from ..oracles import twobody as tb

RULE = ("Stations drawn as (lat, lon, alt) with mass at the poles, the equator and the date line; "
        "targets drawn in the station's own sky (azimuth, elevation, range, velocity) and placed in "
        "the Earth-fixed frame by the oracle, or drawn as orbits in 9 other frames, or given in "
        "another station's frame; masks drawn as tables, queried on and off their nodes over "
        "[-4 pi, 4 pi].")
ASSUMPTIONS = [
    "case dates carry a drawn scale label (6 scales) and 30 % fall 5-20 min from 0h UTC on the turn of a year, a "
    "leap-second day or its eve, or the first / last days of the EOP tables; targets are held in cartesian, "
    "spherical, cylindrical or (inertial ones) element forms, possibly cloned (.copy(), pickle, copy.copy, "
    "copy.deepcopy) before use, the station frame named by object or by name; stations are created in ITRF, PEF or "
    "TIRF (parent_frame=) and, in the site facet, also with equatorial=True; one measure template per type serves "
    "all targets of a case. A target held in an element form is compared with the conditioning of the elements about "
    "the station (the library restores the held form after the frame change); singular ones are skipped",
    "the (lat, lon, alt) argument is handed over as tuple / list / float64 array / int64 array / python ints / "
    "mixed int-float (integer-valued degrees and metres), in the site facet also as float32 array (station "
    "expected where the float32 numbers say, to 30 m: the library then computes in single precision); the "
    "oracle is always fed float(lat), float(lon), float(alt)",
    "site facet: the caller's list / array is not modified by create_station; changing it afterwards and "
    "building a second station from it moves neither the first station nor misplaces the second",
    "a quarter of the topocentric / measures cases create their station under a name that another definition "
    "(other coordinates, the same coordinates, or only another mask) held before - supported by the library, which "
    "logs 'already registered. Overriding'; everything is checked against the oracle for the current definition",
    "oracle: reduced-latitude ellipsoid point + east/north/up triad in vf/oracles/earth.py "
    "(a, f read from beyond.constants.Earth; self-tested against the prime-vertical-radius form)",
    "for targets given in an inertial frame the Earth-fixed state is taken from the library "
    "(frame conversions are C02's subject); this check decides what the station adds to it",
    "pole coordinates and length of day read from date.eop (data) for the inertial-motion clause",
    "elevations within 1e-6 rad of +-90 deg are outside (azimuth undefined); tolerances carry 1/cos(el)",
    "a mask table that starts at azimuth 0 gives there the value it gives at 2 pi (consistent tables only)",
]

TWO_PI = 2 * math.pi
HALF_PI = math.pi / 2

# ----------------------------------------------------------------- stations (registry care)

_cache = {}  # request -> frame, insertion ordered
_count = [0]
MAX_LIVE = 30  # stations registered at the same time in one process


def _forget(name):
    """Take a station (or the remains of a failed creation) out of the library's process-global
    registries again.  Never needed while a shard generates (<= 30 stations per process); it
    keeps the *shrinking* of a failure, which asks for hundreds of stations, from slowing
    down super-linearly.  A station is a leaf of both graphs, so dropping the leaf and every
    route entry that carries its name restores the state before its creation.  Best effort:
    if the registries look different (a changed library) nothing is touched."""
    try:
        from beyond.frames import center, frames, orient

        frames.dynamic.pop(name, None)
        for klass, root in ((orient.Orientation, orient.ITRF), (center.Center, center.Earth.node)):
            for attr in [k for k in vars(klass) if k.startswith(name + "_to_")]:
                delattr(klass, attr)
            for leaf in [n for n in root.neighbors if n.name == name]:
                del root.neighbors[leaf]
            seen, stack = set(), [root]
            while stack:
                node = stack.pop()
                if id(node) in seen:
                    continue
                seen.add(id(node))
                node.routes.pop(name, None)
                stack.extend(node.neighbors)
    except Exception:
        pass


_args = {}  # station name -> [object handed to create_station, snapshot of it, still pristine?]


def latlonalt_arg(lat, lon, alt, arg):
    """The (latitude, longitude, altitude) argument in the container / number types the case asks for:
    arg = dict(container = tuple | list | f64 | i64 | f32, ints = [bool] * 3 -> python ints)."""
    arg = arg or {}
    vals = [lat, lon, alt]
    ints = arg.get("ints") or [False, False, False]
    kind = arg.get("container", "tuple")
    if kind == "i64":
        ints = [True, True, True]
    for v, i in zip(vals, ints):
        if i and float(v) != int(v):
            raise ValueError("generator: an integer argument must be integer-valued")
    items = [int(v) if i else float(v) for v, i in zip(vals, ints)]
    if kind == "tuple":
        return tuple(items)
    if kind == "list":
        return list(items)
    if kind == "f64":
        return np.array(vals, dtype=np.float64)
    if kind == "i64":
        return np.array(items, dtype=np.int64)
    if kind == "f32":
        return np.array(vals, dtype=np.float32)
    raise ValueError(kind)


def snapshot(obj):
    return obj.copy() if isinstance(obj, np.ndarray) else type(obj)(obj)


def same_object_state(obj, snap):
    if isinstance(obj, np.ndarray):
        return obj.dtype == snap.dtype and np.array_equal(obj, snap)
    return type(obj) is type(snap) and list(obj) == list(snap) and all(type(a) is type(b) for a, b in zip(obj, snap))


def station(shard, lat, lon, alt, mask=None, mask_as="list", redef=None, arg=None, given=None, parent="ITRF",
            equatorial=False):
    """create_station under a name never used before in this process; identical requests
    share the frame; at most MAX_LIVE names stay registered.

    redef = dict(prior=[{lat, lon, alt[, mask]}, ...], use=bool): the name is first given to the
    prior definition(s) - and, with `use`, a conversion is made through each of them - before it
    is created *again* with (lat, lon, alt, mask).  The library supports that (it logs
    "already registered. Overriding"); the frame returned by the last call is the one checked."""
    from beyond.frames.stations import create_station

    key = (lat, lon, alt, json.dumps(mask), mask_as, json.dumps(redef, sort_keys=True),
           json.dumps(arg, sort_keys=True), id(given) if given is not None else None, parent, equatorial)
    if key in _cache:
        return _cache[key]
    while len(_cache) >= MAX_LIVE:
        old = next(iter(_cache))
        _forget(_cache.pop(old).name)
    _count[0] += 1
    name = f"V{shard}x{_count[0]}"
    m = mask
    if mask is not None and mask_as == "ndarray":
        m = np.array(mask, dtype=float)
    elif mask is not None and mask_as == "tuple":
        m = tuple(tuple(row) for row in mask)
    try:
        if redef:
            from beyond.dates import Date
            from beyond.orbits import StateVector

            for p in redef["prior"]:
                # (a prior may name its own parent: a name that moves to *another* parent keeps its old edge in
                # the orientation graph - known finding C11/station-moved-to-another-parent)
                if p.get("parent", parent) == "ITRF":
                    old = create_station(name, (p["lat"], p["lon"], p["alt"]), mask=p.get("mask"))
                else:
                    from beyond.frames import frames as _fr

                    old = create_station(name, (p["lat"], p["lon"], p["alt"]), mask=p.get("mask"),
                                         parent_frame=_fr.get_frame(p.get("parent", parent)))
                if redef.get("use"):
                    sv = StateVector([7e6, 1e6, -2e6, 10.0, 20.0, 30.0], Date(50000, 1000.0), "cartesian", "ITRF")
                    sv.copy(frame=old, form="spherical")
                    StateVector([1e3, 2e3, 3e3, 0, 0, 0], Date(50000, 1000.0), "cartesian", old).copy(frame="ITRF")
        obj = given if given is not None else latlonalt_arg(lat, lon, alt, arg)
        _args[name] = [obj, snapshot(obj), True]
        if parent == "ITRF" and not equatorial:
            frame = create_station(name, obj, mask=m)  # the defaults, not spelled out
        else:
            from beyond.frames import frames as _frames

            frame = create_station(name, obj, parent_frame=_frames.get_frame(parent), mask=m, equatorial=equatorial)
    except BaseException:
        _forget(name)
        raise
    _cache[key] = frame
    return frame


def earth_af():
    from beyond.constants import Earth

    return Earth.r, Earth.f


def site_of(lat, lon, alt):
    a, f = earth_af()
    la, lo = math.radians(lat), math.radians(lon)
    return oe.geodetic_to_ecef(la, lo, alt, a, f), oe.enu(la, lo)


LABELS = ("UTC", "TAI", "TT", "GPS", "UT1", "TDB")


def mkdate(d):
    """The instant whose UTC reading is (mjd, sec), handed to the library under the label the case
    asks for (the geometry does not depend on the label; the Earth-fixed state of an inertial
    target is taken from the library with the very same Date object)."""
    from beyond.dates import Date

    dt = Date(int(d["mjd"]), float(d["sec"]))
    return dt if d.get("label", "UTC") == "UTC" else dt.change_scale(d["label"])


def setup_eop(shard):
    from .. import env

    env.eop("zero" if shard % 2 == 0 else "real")


def eop_name():
    from .. import env

    return env._eop_set


# ----------------------------------------------------------------- generators


def f(lo, hi):
    return st.floats(lo, hi, allow_nan=False, allow_infinity=False)


@st.composite
def latitude(draw):
    b = draw(st.integers(0, 19))
    if b < 10:
        return draw(go.uniform(-89.99, 89.99))
    if b < 14:  # close to a pole, down to 1e-3 deg from it
        return draw(st.sampled_from([-1.0, 1.0])) * (90.0 - 10 ** draw(go.uniform(-3, 0)))
    if b < 17:  # close to the equator
        return draw(st.sampled_from([-1.0, 1.0])) * 10 ** draw(go.uniform(-7, 0))
    return draw(st.sampled_from([0.0, 45.0, -45.0, 60.0, -30.0, 89.9, -89.9]))


@st.composite
def longitude(draw):
    b = draw(st.integers(0, 9))
    if b < 6:
        return draw(go.uniform(-180.0, 359.999))
    if b < 8:
        return draw(st.sampled_from([-180.0, -90.0, 0.0, 90.0, 180.0, 270.0])) + draw(f(-1e-3, 1e-3))
    return draw(st.sampled_from([-180.0, -90.0, 0.0, 90.0, 180.0, 270.0, 359.999]))


@st.composite
def geodetic(draw, shard=0):
    """Hypothesis favours small / repeated values in the first examples of a run and a shard
    here has only ~30 of them (registry cost): the shard number turns the drawn station into
    another hemisphere / longitude quadrant so that the union over shards is even."""
    h = shard // 2  # shard % 2 selects the EOP configuration
    lat = draw(latitude()) * (-1.0 if h % 2 else 1.0)
    lon = draw(longitude())
    lon = (lon + 180.0 + 135.0 * ((h // 2) % 4)) % 540.0 - 180.0
    if lon > 359.999:
        lon -= 360.0
    g = dict(lat=lat, lon=lon, alt=draw(st.one_of(go.uniform(-400.0, 9000.0), f(-400.0, 9000.0))))
    # how the three numbers are handed over: the container and the number types are inputs too
    mode = (draw(st.integers(0, 11)) + shard) % 12
    if mode < 4:
        return g
    if mode == 4:
        g["arg"] = dict(container="list")
    elif mode == 5:
        g["arg"] = dict(container="f64")
    else:
        # integer-valued degrees / metres, as python ints or in an integer array, or mixed with floats
        whole = [True, True, True] if mode in (6, 7, 8) else [draw(st.booleans()) for _ in range(3)]
        if whole[0]:
            g["lat"] = float(max(-89, min(89, round(g["lat"]))))
        if whole[1]:
            g["lon"] = float(max(-180, min(359, round(g["lon"]))))
        if whole[2]:
            g["alt"] = float(round(g["alt"]))
        if mode == 8:
            g["arg"] = dict(container="i64")
        else:
            g["arg"] = dict(container=draw(st.sampled_from(["tuple", "list"])), ints=whole)
    return g


@st.composite
def date(draw, shard=0):
    # 1973-01-18 .. 2017-02-16 in four bands walked through by the shards; away from 0h
    # (leap seconds are outside the library's contract)
    band = (3 * (shard // 2) + 1) % 4
    lo = 41700 + 4025 * band
    out = dict(mjd=draw(go.uniform_int(lo, lo + 4025)), sec=draw(go.uniform(200.0, 86200.0)), edge="none",
               label=LABELS[(draw(st.integers(0, 5)) + shard) % 6])
    if draw(st.integers(0, 9)) < 3:
        # days on which something changes: turn of the year, a leap-second day and its eve, both ends of
        # the shipped EOP tables; 5 .. 20 minutes from 0h UTC on either side
        import datetime

        from .. import env
        from ..oracles import iers

        tab = iers.tables(env.repo())
        leaps = [m for m in tab.leap_days() if tab.first < m < tab.last]
        edge = ("year", "leap", "leap-eve", "table-end")[(draw(st.integers(0, 3)) + shard) % 4]
        k = draw(st.integers(0, 42))
        if edge == "year":
            out["mjd"] = (datetime.date(1974 + (k + 5 * shard) % 43, 1, 1) - datetime.date(1858, 11, 17)).days - k % 2
        elif edge == "leap":
            out["mjd"] = leaps[(k + shard) % len(leaps)]
        elif edge == "leap-eve":
            out["mjd"] = leaps[(k + shard) % len(leaps)] - 1
        else:
            out["mjd"] = (tab.first, tab.first + 1, tab.last - 1, tab.last)[k % 4]
        out["sec"] = float(draw(st.integers(300, 1200)) if k % 3 else draw(st.integers(85200, 86100)))
        out["edge"] = edge
    return out


@st.composite
def velocity(draw):
    b = draw(st.integers(0, 9))
    if b == 0:
        return [0.0, 0.0, 0.0]
    if b < 3:
        return [draw(f(-10.0, 10.0)) for _ in range(3)]
    return [draw(go.uniform(-1e4, 1e4)) for _ in range(3)]


@st.composite
def sky(draw):
    """A direction of the local sky + range."""
    b = draw(st.integers(0, 9))
    if b < 7:
        az = draw(go.uniform(0.0, TWO_PI))
    else:
        az = draw(st.sampled_from([0.0, HALF_PI, math.pi, 3 * HALF_PI])) + (
            0.0 if b == 7 else draw(f(-1e-6, 1e-6)))
        az %= TWO_PI
    b = draw(st.integers(0, 9))
    if b < 6:
        el = draw(go.uniform(-HALF_PI + 1e-6, HALF_PI - 1e-6))
    elif b < 8:  # close to the zenith / nadir
        el = draw(st.sampled_from([-1.0, 1.0])) * (HALF_PI - 10 ** draw(go.uniform(-6, -1)))
    else:  # close to the horizon
        el = draw(st.sampled_from([-1.0, 1.0])) * 10 ** draw(go.uniform(-9, -2))
    rng = 10 ** draw(go.uniform(2.0, 7.65))
    return dict(az=az, el=el, rng=rng)


INERTIAL = ["EME2000", "MOD", "TOD", "TEME", "PEF", "G50", "GCRF", "CIRF", "TIRF"]


CLONES = ["none", ".copy()", "pickle", "copy.copy", "copy.deepcopy"]
HELD_FIXED = ["cartesian", "cartesian", "spherical", "cylindrical"]
HELD_INERTIAL = ["cartesian", "keplerian", "keplerian_mean", "equinoctial", "spherical", "keplerian_circular"]


def dress(sv, t, polar=None):
    """The target as the caller holds it: in the form and through the clone the case asks for."""
    import copy
    import pickle

    held = t.get("held", "cartesian")
    if held != "cartesian" and not (polar is not None and held in ("spherical", "cylindrical") and polar > 1e3):
        sv = sv.copy(form=held)
    how = t.get("clone", "none")
    if how == ".copy()":
        sv = sv.copy()
    elif how == "pickle":
        sv = pickle.loads(pickle.dumps(sv))
    elif how == "copy.copy":
        sv = copy.copy(sv)
    elif how == "copy.deepcopy":
        sv = copy.deepcopy(sv)
    return sv


@st.composite
def target(draw, with_other):
    kinds = ["itrf"] * 6 + ["inertial"] * 3 + (["station"] * 2 if with_other else [])
    kind = draw(st.sampled_from(kinds))
    how = dict(clone=CLONES[draw(st.integers(0, 11)) % 5 if draw(st.booleans()) else 0],
               spell=draw(st.sampled_from(["object", "name"])))
    if kind == "itrf":
        t = draw(sky())
        t.update(kind="itrf", v=draw(velocity()), held=draw(st.sampled_from(HELD_FIXED)), **how)
        return t
    if kind == "inertial":
        el = draw(go.elements(hyperbolic=False, emax_ell=0.9, rp_range=(1.03, 10.0)))
        return dict(kind="inertial", frame=draw(st.sampled_from(INERTIAL)), el=el,
                    held=draw(st.sampled_from(HELD_INERTIAL)), **how)
    # (held in the other station's axes as a radar would give it: cartesian, or that station's range / azimuth / elevation)
    return dict(kind="station", xyz=[draw(go.uniform(-1e6, 1e6)) for _ in range(3)], v=draw(velocity()),
                held=draw(st.sampled_from(["cartesian", "cartesian", "spherical", "spherical", "cylindrical"])), **how)


@st.composite
def redefinition(draw, shard, site, parent="ITRF"):
    """None (3 of 4) or the earlier holder(s) of the station's name: independent coordinates,
    the very same coordinates, or the same coordinates with only the mask changing."""
    if draw(st.integers(0, 3)) != 0:
        return None, None
    kind = draw(st.sampled_from(["other", "other", "other", "same", "mask", "moved", "moved"]))
    mask = None
    if kind == "moved":
        # the name was held by a station created in ANOTHER Earth-fixed parent frame
        prior = [draw(geodetic(shard + 3))]
        prior[0]["parent"] = draw(st.sampled_from([q for q in ("ITRF", "PEF", "TIRF") if q != parent]))
    elif kind == "other":
        prior = [draw(geodetic(shard + 3)) for _ in range(draw(st.integers(1, 2)))]
    elif kind == "same":
        prior = [dict(site)]
    else:
        prior = [dict(site)]
        if draw(st.booleans()):
            prior[0]["mask"] = [[1.0, TWO_PI], [0.3, 0.1]]
        mask = [[draw(go.uniform(0.5, 5.5)), TWO_PI], [draw(go.uniform(0.0, 0.5)), draw(go.uniform(0.0, 0.5))]]
    return dict(kind=kind, prior=prior, use=draw(st.booleans())), mask


PARENTS = ["ITRF", "ITRF", "ITRF", "ITRF", "PEF", "TIRF"]


@st.composite
def topo_case(draw, shard, tier):
    other = draw(geodetic(shard)) if draw(st.integers(0, 3)) == 0 else None
    site = draw(geodetic(shard))
    # the Earth-fixed frame the station is created in (WGS84 = ITRF is the default)
    parent = PARENTS[(draw(st.integers(0, 5)) + shard) % 6]
    redef, mask = draw(redefinition(shard, site, parent))
    return dict(shard=shard, site=site, other=other, date=draw(date(shard)), redef=redef, mask=mask, parent=parent,
                targets=draw(st.lists(target(other is not None), min_size=1, max_size=24)),
                # is the second station used in the ordinary way (an Earth-fixed point seen from it) BEFORE states given
                # in its axes are handed over to the first one?  (it always is afterwards)
                other_first=draw(st.booleans()))


@st.composite
def site_case(draw, shard, tier):
    site = draw(geodetic(shard))
    k = draw(st.integers(0, 9))
    if k == 7:
        site["arg"] = dict(container="f32")
    reuse = None
    if site.get("arg", {}).get("container") in ("list", "f64", "i64") and k < 6:
        # the caller changes his own array afterwards and builds another station from it
        reuse = draw(geodetic(shard + 5))
        if site["arg"]["container"] == "i64" or any(site["arg"].get("ints") or []):
            reuse = dict(lat=float(round(reuse["lat"])), lon=float(round(reuse["lon"])), alt=float(round(reuse["alt"])))
        reuse.pop("arg", None)
    return dict(shard=shard, site=site, date=draw(date(shard)), reuse=reuse,
                parent=PARENTS[(draw(st.integers(0, 5)) + shard) % 6], equatorial=(k + shard) % 5 == 0,
                probe=[draw(go.uniform(-1e5, 1e5)) for _ in range(3)])


@st.composite
def measures_case(draw, shard, tier):
    site = draw(geodetic(shard))
    redef, mask = draw(redefinition(shard, site))
    # one case in three: some targets are handed over as states of ANOTHER station's frame (what its visibility() yields)
    other = draw(geodetic(shard)) if draw(st.integers(0, 2)) == 0 else None
    return dict(shard=shard, site=site, date=draw(date(shard)), redef=redef, mask=mask, other=other,
                targets=draw(st.lists(target(other is not None), min_size=1, max_size=8)),
                legs=draw(st.integers(1, 4)))


@st.composite
def mask_table(draw):
    n = draw(st.integers(2, 12))
    first_zero = draw(st.integers(0, 7)) == 0
    ks = draw(st.lists(go.uniform_int(1, 6280), min_size=n - 1, max_size=n - 1, unique=True))
    azs = sorted(k * 1e-3 + draw(go.uniform(0.0, 5e-4)) for k in ks)
    if first_zero:
        azs[0] = 0.0
    azs.append(TWO_PI)
    els = [draw(st.one_of(go.uniform(0.0, 0.5), f(0.0, 0.5))) for _ in azs]
    if first_zero:
        els[0] = els[-1]
    return [azs, els]


@st.composite
def mask_query(draw, azs):
    b = draw(st.integers(0, 9))
    if b < 4:
        return draw(go.uniform(-2 * TWO_PI, 2 * TWO_PI))
    node = draw(st.sampled_from(azs + [0.0]))
    turn = draw(st.integers(-2, 1)) * TWO_PI
    if b < 6:
        return node + turn
    if b < 8:
        return node + turn + draw(st.sampled_from([-1.0, 1.0])) * 10 ** draw(go.uniform(-15, -4))
    if b == 8:
        return draw(st.sampled_from([-1e-18, -1e-300, 1e-18, -0.0, 0.0]))
    return draw(st.integers(-2, 2)) * TWO_PI


@st.composite
def mask_case(draw, shard, tier):
    table = draw(mask_table())
    how = draw(st.sampled_from(["list", "tuple", "assign", "assign", "ndarray"]))
    qs = draw(st.lists(mask_query(table[0]), min_size=1, max_size=40))
    return dict(shard=shard, site=draw(geodetic(shard)), table=table, how=how, queries=qs)


# ----------------------------------------------------------------- target -> Earth-fixed state


def build_target(t, dt, site, triad, shard, other_frame, other_geo, parent="ITRF"):
    """Returns (statevector to hand to the library, position and velocity in the station's parent
    frame, labels).  `parent` is the Earth-fixed frame the station was created in."""
    from beyond.orbits import StateVector

    extra = [f"held:{t.get('held', 'cartesian')}", f"clone:{t.get('clone', 'none')}"]
    if t["kind"] == "itrf":
        p = oe.from_topo(site, triad, t["az"], t["el"], t["rng"])
        v = np.array(t["v"], float)
        sv = StateVector(list(p) + list(v), dt, "cartesian", parent)
        polar = float(p @ p) / max(float(p[0] ** 2 + p[1] ** 2), 1e-300)
        return dress(sv, t, polar), p, v, [f"src:{parent}"] + extra
    if t["kind"] == "inertial":
        el = t["el"]
        cart = tb.kep2cart(el["a"], el["e"], el["i"], el["raan"], el["argp"], el["nu"], go.MU["Earth"])
        sv = dress(StateVector(list(cart), dt, "cartesian", t["frame"]), t)
        fixed = np.asarray(sv.copy(form="cartesian").copy(frame=parent).base, float)
        return sv, fixed[:3], fixed[3:], [f"src:{t['frame']}"] + extra
    # given in another station's axes: x north, y west, z up of *that* station (created in ITRF)
    s2, (e2, n2, u2) = site_of(other_geo["lat"], other_geo["lon"], other_geo["alt"])
    x, y, z = t["xyz"]
    vx, vy, vz = t["v"]
    p = s2 + x * n2 - y * e2 + z * u2
    v = vx * n2 - vy * e2 + vz * u2
    if parent != "ITRF":
        pv = np.asarray(StateVector(list(p) + list(v), dt, "cartesian", "ITRF").copy(frame=parent).base, float)
        p, v = pv[:3], pv[3:]
    sv = dress(StateVector([x, y, z, vx, vy, vz], dt, "cartesian", other_frame), t)
    return sv, p, v, ["src:station"] + extra


def topo_tolerances(site, p, v, rng, el):
    """delta = position noise of double arithmetic at these magnitudes (with margin)."""
    delta = 1e-7 + 2e-14 * (float(np.linalg.norm(p)) + float(np.linalg.norm(site)))
    ce = max(math.cos(el), 1e-7)
    ang = (1e-10 + delta / rng) / ce
    speed = float(np.linalg.norm(v))
    return dict(
        r=delta + 1e-13 * rng,
        el=ang,
        az=ang,
        rdot=ang * speed * ce + 1e-10,
        eldot=ang * speed / rng + 1e-18,
        azdot=ang * speed / (rng * ce) + 1e-18,
    )


ELEMENT_FORMS = ("keplerian", "keplerian_mean", "equinoctial", "keplerian_circular")


def held_conditioning(t, p, v, site):
    """The library restores the form a state is held in after every frame change: a target held in an
    element form is turned into elements *about the station* on its way to spherical.  Returns the
    conditioning of that detour (1 for the other forms), None where it is singular (the conic of the
    station-relative state within 1e-3 of a parabola, e > 20, |H| > 8, or in the local horizontal plane)."""
    if t.get("held", "cartesian") not in ELEMENT_FORMS:
        return 1.0
    el = tb.cart2elements(list(np.asarray(p, float) - site) + list(v), go.MU["Earth"])
    e = el["e"]
    if abs(e - 1) < 1e-3 or e > 20 or not math.isfinite(e) or math.sin(el["i"]) < 0.01:
        return None
    k = 1.0 / abs(1 - e) / math.sin(el["i"])
    if e > 1:
        if abs(el["E"]) > 8:
            return None
        k *= math.cosh(el["E"]) ** 2
    return max(1.0, 1e3 * k)  # 1e-13 relative rounding x k on top of the 1e-16-level budget of the direct route


def compare_topo(sph, site, triad, p, v, where, factor=1.0):
    """sph = library (r, theta, phi, r_dot, theta_dot, phi_dot).  Returns worst ratio."""
    got = np.asarray(sph, float)
    if not np.all(np.isfinite(got)):
        raise Violation("non-finite", f"{where}: {got.tolist()}")
    rng, az, el = oe.topo(site, triad, p)
    rdot, azdot, eldot = oe.topo_rates_analytic(site, triad, p, v)
    tol = {k_: t_ * factor for k_, t_ in topo_tolerances(site, p, v, rng, el).items()}
    errs = dict(
        r=abs(got[0] - rng),
        az=abs(oe.angdiff(-got[1], az)),
        el=abs(got[2] - el),
        rdot=abs(got[3] - rdot),
        azdot=abs(-got[4] - azdot),
        eldot=abs(got[5] - eldot),
    )
    worst = 0.0
    # within 1e-6 rad of the vertical the azimuth (and everything divided by cos el) is undefined: outside
    names = ("r", "el", "rdot") if math.cos(el) < 1e-6 else ("r", "az", "el", "rdot", "azdot", "eldot")
    for k in names:
        worst = max(worst, errs[k] / tol[k])
        if errs[k] > tol[k]:
            want = dict(r=rng, az=az, el=el, rdot=rdot, azdot=azdot, eldot=eldot)[k]
            have = float(dict(r=got[0], az=(-got[1]) % TWO_PI, el=got[2], rdot=got[3], azdot=-got[4], eldot=got[5])[k])
            raise Violation(
                f"topo-{k}",
                f"{where}: library {k} = {have!r}, WGS-84 ENU gives {want!r} (diff {errs[k]:.3g}, tol {tol[k]:.3g}; "
                f"az={az:.6f} el={el:.6f} range={rng:.6g})",
                quantity=k)
    # the closed-form rates of the oracle against plain finite differences of its positions,
    # where those are well conditioned (guards the oracle itself; loose)
    lever = rng * math.cos(el)
    speed = float(np.linalg.norm(v))
    if speed > 0 and lever > 1e3 and rng < 1e8:
        fd = oe.topo_rates(site, triad, p, v)
        for name, lib, num, scale in (("rdot", got[3], fd[0], speed),
                                      ("azdot", -got[4], fd[1], speed / lever),
                                      ("eldot", got[5], fd[2], speed / rng)):
            if abs(lib - num) > 1e-6 * scale:
                raise Violation(f"topo-{name}-fd",
                                f"{where}: library {name} = {lib!r}, finite difference of the oracle "
                                f"positions gives {num!r}")
    return worst, rng, az, el


def sky_classes(az, el, rng):
    c = [f"azQ{int(az // HALF_PI) % 4 + 1}", "el>0" if el > 0 else "el<0"]
    if abs(el) > HALF_PI - 1e-2:
        c.append("near-vertical")
    if rng < 1e4:
        c.append("r<10km")
    elif rng > 1e7:
        c.append("r>1e4km")
    return c


def site_classes(g):
    c = ["north" if g["lat"] > 0 else "south" if g["lat"] < 0 else "equator"]
    if abs(g["lat"]) > 89:
        c.append("polar")
    lon = g["lon"] % 360.0
    c.append(f"lonQ{int(lon // 90) + 1}")
    if g["lon"] < 0:
        c.append("lon<0")
    if g["lon"] > 180:
        c.append("lon>180")
    return c


def date_classes(d):
    y = 1973 + (d["mjd"] - 41683) / 365.25
    return ["year<1985" if y < 1985 else "year<2000" if y < 2000 else "year>=2000",
            f"label:{d.get('label', 'UTC')}", f"edge:{d.get('edge', 'none')}"]


# ----------------------------------------------------------------- facet: site


def check_site(case):
    from beyond.orbits import StateVector

    g = dict(case["site"])
    arg = g.get("arg")
    kind = (arg or {}).get("container", "tuple")
    parent = case.get("parent", "ITRF")
    fr = station(case["shard"], g["lat"], g["lon"], g["alt"], arg=arg, parent=parent)
    if kind == "f32":
        # the station is where the *float32* numbers say (the library then works in single precision)
        for k_ in ("lat", "lon", "alt"):
            g[k_] = float(np.float32(g[k_]))
    dt = mkdate(case["date"])
    site, (east, north, up) = site_of(g["lat"], g["lon"], g["alt"])
    worst = 0.0
    arg_cls = ["arg:" + kind + ("+ints" if any((arg or {}).get("ints") or []) else "")]

    # the caller's object: not modified by create_station, and no longer connected to the station
    obj, snap, pristine = _args[fr.name]
    if pristine and not same_object_state(obj, snap):
        raise Violation("argument-modified", f"create_station changed the caller's {type(obj).__name__}: {obj!r}, was {snap!r}")
    second = None
    if pristine and case.get("reuse") and kind in ("list", "f64", "i64"):
        r = case["reuse"]
        new = [r["lat"], r["lon"], r["alt"]]
        for k_ in range(3):
            obj[k_] = type(snap[k_])(new[k_]) if not isinstance(obj, np.ndarray) else new[k_]
        second = station(case["shard"], r["lat"], r["lon"], r["alt"], given=obj)
        arg_cls.append("array-reused")
    _args[fr.name][2] = False

    lla = fr.latlonalt
    want = (math.radians(g["lat"]), math.radians(g["lon"]), g["alt"])
    rel = 1e-6 if kind == "f32" else 1e-14
    for k in range(3):
        if not abs(float(lla[k]) - want[k]) <= rel * max(1.0, abs(want[k])):
            raise Violation("latlonalt", f"station.latlonalt = {list(map(float, lla))}, created with {want} "
                                         f"(given as {kind})")
    if second is not None:
        from beyond.orbits import StateVector as SV

        s2, _ = site_of(r["lat"], r["lon"], r["alt"])
        o2 = np.asarray(SV([0.0] * 6, dt, "cartesian", second).copy(frame="ITRF").base, float)
        d2 = float(np.linalg.norm(o2[:3] - s2))
        if d2 > 1e-6:
            raise Violation("site-position", f"second station built from the caller's re-used {kind} is {d2:.3g} m "
                                             f"from where WGS-84 puts ({r['lat']}, {r['lon']}, {r['alt']})")
    if kind == "f32":
        from beyond.orbits import StateVector as SV

        o = np.asarray(SV([0.0] * 6, dt, "cartesian", fr).copy(frame=parent).base, float)
        d = float(np.linalg.norm(o[:3] - site))
        if not d <= 30.0:  # single-precision arithmetic on 6.4e6 m: metres
            raise Violation("site-position", f"station given as float32: origin {d:.3g} m from WGS-84 of the float32 values")
        return dict(nt=abs(g["lat"]) > 1.0, cls=arg_cls, ratio=d / 30.0)

    arg_cls.append(f"parent:{parent}")
    zero = StateVector([0.0] * 6, dt, "cartesian", fr)
    fixed = np.asarray(zero.copy(frame=parent).base, float)
    if not np.all(np.isfinite(fixed)):
        raise Violation("non-finite", f"station origin in {parent} {fixed.tolist()}")
    d = float(np.linalg.norm(fixed[:3] - site))
    worst = max(worst, d / 1e-6)
    if d > 1e-6:
        raise Violation("site-position",
                        f"station origin in {parent} {fixed[:3].tolist()}, WGS-84 gives {site.tolist()} ({d:.3g} m apart)")
    if float(np.linalg.norm(fixed[3:])) > 1e-12:
        raise Violation("site-at-rest", f"station origin moves in {parent}: {fixed[3:].tolist()} m/s")

    # the axes: a point given in station coordinates lands at origin + x north - y east + z up
    x, y, z = case["probe"]
    pt = np.asarray(StateVector([x, y, z, 0, 0, 0], dt, "cartesian", fr).copy(frame=parent).base, float)
    want_pt = site + x * north - y * east + z * up
    d = float(np.linalg.norm(pt[:3] - want_pt))
    worst = max(worst, d / 1e-6)
    if d > 1e-6:
        raise Violation("site-axes", f"station point ({x}, {y}, {z}) lands {d:.3g} m from origin + x north + y west + z up")
    if float(np.linalg.norm(pt[3:])) > 1e-12:
        raise Violation("site-at-rest", f"a point fixed to the station moves in ITRF: {pt[3:].tolist()}")

    if case.get("equatorial"):
        # the documented option: same origin, axes of EME2000
        eq = station(case["shard"], g["lat"], g["lon"], g["alt"], parent=parent, equatorial=True)
        o_eq = np.asarray(StateVector([0.0] * 6, dt, "cartesian", eq).copy(frame=parent).base, float)
        if float(np.linalg.norm(o_eq[:3] - site)) > 1e-6:
            raise Violation("site-position", f"equatorial station: origin {np.linalg.norm(o_eq[:3] - site):.3g} m from WGS-84")
        o_in = np.asarray(StateVector([0.0] * 6, dt, "cartesian", eq).copy(frame="EME2000").base, float)
        p_in = np.asarray(StateVector([x, y, z, 1.0, 2.0, 3.0], dt, "cartesian", eq).copy(frame="EME2000").base, float)
        d = float(np.linalg.norm(p_in[:3] - o_in[:3] - np.array([x, y, z])))
        dv = float(np.linalg.norm(p_in[3:] - o_in[3:] - np.array([1.0, 2.0, 3.0])))
        worst = max(worst, d / 1e-6, dv / 1e-9)
        if d > 1e-6 or dv > 1e-9:
            raise Violation("site-equatorial", f"equatorial station: a point ({x}, {y}, {z}) is {d:.3g} m, {dv:.3g} m/s away "
                                               f"from origin + the same numbers along the EME2000 axes")
        arg_cls.append("equatorial")
    if parent != "ITRF":
        return dict(nt=abs(g["lat"]) > 1.0, cls=site_classes(g) + date_classes(case["date"]) + [f"eop:{eop_name()}"] + arg_cls,
                    ratio=worst)

    # inertial motion: v = omega x r about the celestial pole of date
    inert = np.asarray(zero.copy(frame="EME2000").base, float)
    eop = dt.eop
    xp = math.radians(eop.x / 3600.0)
    yp = math.radians(eop.y / 3600.0)
    axis = np.array([xp, -yp, 1.0])
    axis /= np.linalg.norm(axis)
    omega = oe.OMEGA_EARTH * (1.0 - eop.lod / 1000.0 / 86400.0)
    w_fixed = omega * np.cross(axis, site)  # Earth-fixed components of the inertial velocity
    speed = float(np.linalg.norm(inert[3:]))
    want_speed = float(np.linalg.norm(w_fixed))
    tol_v = 1e-9 * want_speed + 1e-10
    worst = max(worst, abs(speed - want_speed) / tol_v)
    if abs(speed - want_speed) > tol_v:
        raise Violation("site-inertial-speed",
                        f"station speed in EME2000 {speed!r} m/s, omega x rho = {want_speed!r} "
                        f"(rho = {oe.axis_distance(want[0], want[2], *earth_af())!r} m)")
    if eop_name() == "zero":
        rho = oe.axis_distance(want[0], want[2], *earth_af())
        if abs(want_speed - oe.OMEGA_EARTH * rho) > 1e-12 * want_speed + 1e-12:
            raise RuntimeError("oracle inconsistency: omega x r differs from omega * rho")
    # direction: the library's own image of the Earth-fixed direction w_fixed (a displacement of
    # 1000 m along it) must be parallel to the inertial velocity
    dirn = w_fixed / want_speed
    tip = np.asarray(StateVector(list(site + 1000.0 * dirn) + [0, 0, 0], dt, "cartesian", "ITRF")
                     .copy(frame="EME2000").base, float)
    east_inert = (tip[:3] - inert[:3]) / 1000.0
    cosang = float(east_inert @ inert[3:]) / (np.linalg.norm(east_inert) * speed)
    sinang = float(np.linalg.norm(np.cross(east_inert, inert[3:]))) / (np.linalg.norm(east_inert) * speed)
    tol_dir = 1e-8
    worst = max(worst, sinang / tol_dir)
    if cosang < 0 or sinang > tol_dir:
        raise Violation("site-inertial-direction",
                        f"station velocity in EME2000 is {math.atan2(sinang, cosang):.3g} rad away from east")
    if abs(float(np.linalg.norm(inert[:3])) - float(np.linalg.norm(site))) > 1e-6:
        raise Violation("site-position", "geocentric distance of the station differs between ITRF and EME2000")
    return dict(nt=abs(g["lat"]) > 1.0,
                cls=site_classes(g) + date_classes(case["date"]) + [f"eop:{eop_name()}"] + arg_cls, ratio=worst)


# ----------------------------------------------------------------- facet: topocentric


def redefined_station(case):
    """The station of the case; when the case says so its name was held by another definition before."""
    g = case["site"]
    fr = station(case["shard"], g["lat"], g["lon"], g["alt"], mask=case.get("mask"), redef=case.get("redef"),
                 arg=g.get("arg"), parent=case.get("parent", "ITRF"))
    cls = []
    if g.get("arg"):
        cls.append("arg:" + g["arg"]["container"] + ("+ints" if any(g["arg"].get("ints") or []) else ""))
    if case.get("redef"):
        cls.append("redefined:" + case["redef"]["kind"] + ("+used" if case["redef"].get("use") else ""))
        lla = fr.latlonalt
        want = (math.radians(g["lat"]), math.radians(g["lon"]), g["alt"])
        if any(abs(float(lla[k]) - want[k]) > 1e-14 * max(1.0, abs(want[k])) for k in range(3)):
            raise Violation("latlonalt", f"redefined station: latlonalt = {list(map(float, lla))}, created with {want}")
    if case.get("mask"):
        azs, els = case["mask"]
        for q in (0.25, azs[0] / 2, (azs[0] + TWO_PI) / 2, -1.0):
            got, want = float(fr.get_mask(q)), oe.mask_value(azs, els, q)
            if not abs(got - want) <= 1e-12:
                raise Violation("mask-value", f"redefined station: get_mask({q!r}) = {got!r}, its own table gives {want!r}")
    return fr, cls


def moved_parent(case):
    r = case.get("redef")
    return bool(r) and any(p.get("parent", case.get("parent", "ITRF")) != case.get("parent", "ITRF") for p in r["prior"])


def compare_or_known(case, fr, sv, dt, site, triad, call):
    """Runs the comparison `call()`.  For a station whose name was registered before under another
    parent frame a failure is looked at more closely: if the library's cartesian answer is what the
    FIRST definition's axes give (target rotated from the old parent frame with the old station's
    north / west / up, origin of the new station subtracted in the new axes) it is re-raised under the
    kind `stale-parent-edge` - the known finding; any other wrong answer stays what it was."""
    try:
        return call()
    except Violation as first:
        if not moved_parent(case) or first.kind == "stale-parent-edge":
            raise
        prior = case["redef"]["prior"][0]
        s0, (e0, n0, u0) = site_of(prior["lat"], prior["lon"], prior["alt"])
        east, north, up = triad
        t0 = np.array([n0, -e0, u0])
        t1 = np.array([north, -east, up])
        in_old = np.asarray(sv.copy(form="cartesian").copy(frame=prior["parent"]).base, float)
        want = np.concatenate((t0 @ in_old[:3] - t1 @ site, t0 @ in_old[3:]))
        got = np.asarray(sv.copy(form="cartesian").copy(frame=fr).base, float)
        dp = float(np.linalg.norm(got[:3] - want[:3]))
        dv = float(np.linalg.norm(got[3:] - want[3:]))
        if dp <= 1e-6 + 1e-13 * float(np.linalg.norm(want[:3])) and dv <= 1e-9 + 1e-13 * float(np.linalg.norm(want[3:])):
            raise Violation("stale-parent-edge",
                            f"station name registered before in {prior['parent']}, now in {case.get('parent', 'ITRF')}: the "
                            f"conversion uses the first definition's axes ({first.msg})", first_kind=first.kind) from None
        raise


def check_topocentric(case):
    g = case["site"]
    fr, redef_cls = redefined_station(case)
    other = case.get("other")
    other_fr = station(case["shard"], other["lat"], other["lon"], other["alt"], arg=other.get("arg")) if other else None
    dt = mkdate(case["date"])
    site, triad = site_of(g["lat"], g["lon"], g["alt"])
    worst = 0.0
    cls = site_classes(g) + date_classes(case["date"]) + [f"eop:{eop_name()}"] + redef_cls
    if other:
        cls.append("two-stations")
    cls.append(f"parent:{case.get('parent', 'ITRF')}")
    nt = False

    def ordinary_use_of_other(when):
        from beyond.orbits import StateVector

        s2, tri2 = site_of(other["lat"], other["lon"], other["alt"])
        e2, n2, u2 = tri2
        p2 = s2 + 8e5 * u2 + 1e5 * n2 - 5e4 * e2
        v2 = np.array([10.0, -20.0, 30.0])
        sph2 = StateVector(list(p2) + list(v2), dt, "cartesian", "ITRF").copy(frame=other_fr, form="spherical")
        return compare_topo(sph2.base, s2, tri2, p2, v2, f"an ITRF point seen from the second station ({when} states given in "
                            f"its axes were handed to the first one)", 1.0)[0]

    if other and case.get("other_first"):
        worst = max(worst, ordinary_use_of_other("before"))
        cls.append("second-station-used-first")
    for k, t in enumerate(case["targets"]):
        if t["kind"] == "station" and other is None:
            continue
        sv, p, v, labels = build_target(t, dt, site, triad, case["shard"], other_fr, other, case.get("parent", "ITRF"))
        before = np.array(sv.base, float)
        factor = held_conditioning(t, p, v, site)
        if factor is None:
            cls.append("skipped:station-conic")
            continue
        sph = sv.copy(frame=fr.name if t.get("spell") == "name" else fr, form="spherical")
        if sph.frame is not fr or sph.form.name != "spherical":
            raise Violation("topo-meta", f"copy(frame=station, form='spherical') gave frame {sph.frame} form {sph.form.name}")
        w, rng, az, el = compare_or_known(case, fr, sv, dt, site, triad, lambda: compare_topo(
            sph.base, site, triad, p, v, f"target {k} ({labels[0][4:]})", factor))
        if not np.array_equal(np.asarray(sv.base, float), before):
            raise Violation("source-mutated", "copy(frame=station) changed the receiver")
        worst = max(worst, w)
        cls += labels + sky_classes(az, el, rng)
        if abs(g["lat"]) > 1.0 and abs(el) < HALF_PI - 1.7e-3:
            nt = True
    if other:
        worst = max(worst, ordinary_use_of_other("after"))
    return dict(nt=nt, cls=cls, ratio=worst)


# ----------------------------------------------------------------- facet: measures


def check_measures(case):
    from beyond.utils.measures import Azimut, Doppler, Elevation, Range

    g = case["site"]
    fr, redef_cls = redefined_station(case)
    dt = mkdate(case["date"])
    site, triad = site_of(g["lat"], g["lon"], g["alt"])
    legs = case["legs"]
    path = [fr] + ["SAT" if j % 2 == 0 else fr for j in range(legs)]
    worst = 0.0
    cls = [f"legs:{legs}"] + redef_cls
    # one template per measure type serves every target of the case (and the first target twice);
    # the library starts every case from the same state: a measure at another date first
    from beyond.orbits import StateVector as _SV

    templates = {klass: klass(path, None, None) for klass in (Range, Azimut, Elevation, Doppler)}
    shift = 3 if case["date"]["mjd"] < 50000 else -3
    warm = _SV([7e6, 1e6, 2e6, 0.0, 7e3, 0.0], mkdate(dict(case["date"], mjd=case["date"]["mjd"] + shift, sec=40000.0)),
               "cartesian", "EME2000")
    for klass, tmpl in templates.items():
        tmpl.from_orbit(warm)
    todo = list(enumerate(case["targets"]))
    todo.append(todo[0])
    other = case.get("other")
    other_fr = station(case["shard"], other["lat"], other["lon"], other["alt"], arg=other.get("arg")) if other else None
    for k, t in todo:
        sv, p, v, labels = build_target(t, dt, site, triad, case["shard"], other_fr, other)
        factor = held_conditioning(t, p, v, site)
        if factor is None:
            cls.append("skipped:station-conic")
            continue
        sph = np.asarray(sv.copy(frame=fr, form="spherical").base, float)
        vals = {}
        for klass in (Range, Azimut, Elevation, Doppler):
            tmpl = templates[klass]
            m = tmpl.from_orbit(sv)
            if type(m) is not klass or m.type != klass.__name__:
                raise Violation("measure-type", f"{klass.__name__}.from_orbit returned {type(m).__name__}")
            if tuple(m.path) != tuple(path) or m.frame is not fr:
                raise Violation("measure-path", f"{klass.__name__}.from_orbit changed the path")
            if m.date != dt or m.date.scale.name != dt.scale.name:
                raise Violation("measure-date", f"{klass.__name__}.from_orbit date {m.date} for an orbit at {dt}")
            if tmpl.value is not None:
                raise Violation("measure-template", "from_orbit modified the receiver")
            vals[klass.__name__] = float(m.value)
        # exactly the topocentric quantities of the conversion
        want = dict(Range=float(sph[0] * legs), Azimut=float(sph[1]), Elevation=float(sph[2]), Doppler=float(sph[3]))
        for name, w in want.items():
            if vals[name] != w:
                raise Violation(f"measure-{name.lower()}",
                                f"{name}.from_orbit = {vals[name]!r}, the conversion to the station gives {w!r}"
                                + (f" (x {legs} legs)" if name == "Range" else ""))
        # ... which are the oracle's
        synth = [vals["Range"] / legs, vals["Azimut"], vals["Elevation"], vals["Doppler"], sph[4], sph[5]]
        w_, rng, az, el = compare_or_known(case, fr, sv, dt, site, triad, lambda: compare_topo(
            synth, site, triad, p, v, f"measure of target {k}", factor))
        worst = max(worst, w_)
        cls += labels + sky_classes(az, el, rng)
    return dict(nt=True, cls=cls, ratio=worst)


# ----------------------------------------------------------------- facet: mask

_base = {}


def check_mask(case):
    g = case["site"]
    azs, els = case["table"]
    how = case["how"]
    if how == "assign":
        # the way the library's own tests install a mask: attribute of an existing station
        if "fr" not in _base:
            _base["fr"] = station(case["shard"], 10.0, 20.0, 30.0)
        fr = _base["fr"]
        fr.mask = np.array([azs, els], dtype=float)
    else:
        fr = station(case["shard"], g["lat"], g["lon"], g["alt"], mask=[azs, els], mask_as=how, arg=g.get("arg"))
    xs, ys = list(azs), list(els)
    if xs[0] > 0.0:
        xs.insert(0, 0.0)
        ys.insert(0, ys[-1])
    worst = 0.0
    nt = False
    table_before = np.array(fr.mask, float)
    for q in case["queries"]:
        got = float(fr.get_mask(q))
        x = q % TWO_PI
        want = float(np.interp(x, xs, ys))
        want2 = oe.mask_value(azs, els, q)
        if abs(want - want2) > 1e-12:
            raise RuntimeError(f"oracle inconsistency: numpy.interp {want!r} vs own interpolation {want2!r}")
        if not math.isfinite(got):
            raise Violation("mask-nonfinite", f"get_mask({q!r}) = {got}")
        d = abs(got - want)
        worst = max(worst, d / 1e-12)
        if d > 1e-12:
            raise Violation("mask-value",
                            f"get_mask({q!r}) = {got!r}, piecewise-linear table value {want!r} "
                            f"(azimuth mod 2pi = {x!r})")
        if x not in azs:
            nt = True
    if not np.array_equal(np.asarray(fr.mask, float), table_before):
        raise Violation("mask-mutated", "get_mask changed the table")
    cls = [f"how:{how}", f"n:{len(azs)}"]
    if azs[0] == 0.0:
        cls.append("first=0")
    if any(q < 0 for q in case["queries"]):
        cls.append("q<0")
    if any(q >= TWO_PI for q in case["queries"]):
        cls.append("q>=2pi")
    return dict(nt=nt, cls=cls, ratio=worst)


# ----------------------------------------------------------------- registration

LEVEL_TEXT = ("Property-based search: generated stations (poles, equator, date line, both signs of "
              "longitude), generated targets covering every azimuth quadrant and elevation sign at "
              "0.1 km .. 45 000 km, generated horizon tables; every result compared with an "
              "independently written WGS-84 / east-north-up computation.")
LEVEL_NOTE = ("Exploration, not proof. Inertial targets rely on the library's own Earth-fixed "
              "conversion (decided by C02). <= 30 stations are registered per worker process.")
TECHNIQUE = "hypothesis strategies + independent geodesy oracle (vf/oracles/earth.py)"

def _moved_parent_finding(facet, case, kind, msg, data):
    """Input class: the failing station's name was registered before under a different parent_frame.
    Failure kind: the answer is the one the first definition's axes give (established by
    compare_or_known with the oracle); any other failure of such a station is not matched."""
    return facet in ("topocentric", "measures") and moved_parent(case) and kind == "stale-parent-edge"


FINDINGS = {
    "C11/station-moved-to-another-parent": _moved_parent_finding,
    # create_station(mask=<numpy array>) : `if mask` on an array
    "C11/mask-ndarray-truth": lambda facet, case, kind, msg, data: (
        facet == "mask" and case.get("how") == "ndarray"
        and kind.startswith("exception:ValueError@frames/stations.py:__init__")
        and "truth value" in msg),
}

FACETS = [
    Facet("site", site_case, check_site, setup=setup_eop,
          rule="|lat| > 1 deg", quick=(16, 30), thorough=(192, 30)),
    Facet("topocentric", topo_case, check_topocentric, setup=setup_eop,
          rule="|lat| > 1 deg and at least one target more than 0.1 deg from the vertical",
          quick=(36, 18), thorough=(560, 18)),
    Facet("measures", measures_case, check_measures, setup=setup_eop,
          rule="every case (4 measure types x targets)", quick=(10, 22), thorough=(128, 22)),
    Facet("mask", mask_case, check_mask,
          rule="at least one query azimuth that is not a table node", quick=(8, 36), thorough=(96, 36)),
]
