"""C12 - TLE text round-trips and is validated."""

import datetime as _dt
import math
from fractions import Fraction

from hypothesis import strategies as st

from ..core import Facet, Violation
from ..gen import tles as gt
from ..oracles import tlefmt as tf

RULE = ("TLE drawn as grid integers per field and formatted by the oracle's column formatter "
        "(vf/oracles/tlefmt.py); non-trivial = element number >= 1000 or negative ndot or an "
        "exponent outside -3..-5 or an empty designator.")
ASSUMPTIONS = [
    "oracle: column formatter / checksum / strict column parser written from the NORAD format table (vf/oracles/tlefmt.py)",
    "identical-text clause only for the canonical encoding (blank positive sign, zero as 00000-0, exponent 0 as +0, "
    "normalised mantissa, zero-padded catalogue number and day of year, blank-padded element/revolution numbers, "
    "classification U, ephemeris type 0); other legal encodings are used for the field-preservation clause",
    "rejected = TleParseError; a line that only gained leading/trailing blanks must be rejected (any ValueError) "
    "or parsed to the same fields as the unpadded text",
    "writer facet: for orbits not given in TLE form / TEME frame the elements to be found in the text are those of "
    "orbit.copy(form='TLE', frame='TEME') (form and frame conversions are C01/C02's subject)",
    "EOP configuration missing/pass (epochs 1957-2056 lie outside the tables; TAI-UTC = 0 there, TT-UTC = 32.184 s, "
    "GPS-UTC = -19 s), except facet writer_real_eop (real IERS tables, 1974-2016, leap seconds present); the orbit's "
    "date is the UTC calendar instant drawn by the harness, re-labelled with Date.change_scale (C03's subject)",
    "fuzz facet: quick tier = the 32-entry fuzz corpus through the target's oracle; thorough tier = 4 x 500000 atheris "
    "executions of vf/fuzz/tle_target.py (reported as skipped, never as a violation, if atheris is not importable "
    "from /verif/.deps); exception-type leaks on malformed-but-checksum-valid lines are counted, not failed",
]
LEVEL_TEXT = ("Generated-input search (Hypothesis) over the TLE field grid against an independent column "
              "formatter/parser; per generated TLE every single-digit, length and line-number corruption is "
              "enumerated; no absence claim beyond the inputs explored.")
LEVEL_NOTE = ("Randomised exploration of the field grid with boundary mass per field; per generated TLE the "
              "single-digit, length and line-number corruptions are enumerated exhaustively.")
TECHNIQUE = "property-based testing (Hypothesis) with an independent formatter/parser oracle; enumerated corruptions"

MJD_T0 = _dt.datetime(1858, 11, 17)

# first column (0-based) -> field name, for bucketing text differences
_COLS1 = [(0, "line-number"), (2, "catalogue"), (7, "classification"), (9, "designator"),
          (18, "epoch"), (33, "ndot"), (44, "ndotdot"), (53, "bstar"), (62, "type"),
          (64, "element_nb"), (68, "checksum")]
_COLS2 = [(0, "line-number"), (2, "catalogue"), (8, "i"), (17, "raan"), (26, "e"), (34, "argp"),
          (43, "M"), (52, "n"), (63, "revolutions"), (68, "checksum")]


def _field_at(table, col):
    name = table[0][1]
    for c, n in table:
        if col >= c:
            name = n
    return name


def text_diff(want, got):
    """(bucket, message) describing the first difference between two TLE texts, or None."""
    if want == got:
        return None
    wl, gl = want.split("\n"), got.split("\n")
    if len(wl) != len(gl):
        return "line-count", f"{len(gl)} lines written, {len(wl)} read"
    if len(wl) == 3:
        if wl[0] != gl[0]:
            return "name", f"name line {gl[0]!r} != {wl[0]!r}"
        wl, gl = wl[1:], gl[1:]
    for k, (w, g, table) in enumerate(zip(wl, gl, (_COLS1, _COLS2)), 1):
        if len(w) != len(g):
            return "length", f"line {k} has {len(g)} columns: {g!r}"
        # a field difference always changes the checksum too: report the field
        diffs = [c for c in range(len(w)) if w[c] != g[c]]
        if diffs:
            body = [c for c in diffs if c < 68] or diffs
            fld = _field_at(table, body[0])
            return fld, f"line {k} column {body[0] + 1} ({fld}): wrote {g!r}, read {w!r}"
    return "text", "texts differ"


def _eop(shard):
    from .. import env

    env.eop("missing-pass")


def _eop_real(shard):
    from .. import env

    env.eop("real")


def _close(name, got, want, ulp, unit=1.0, worst=None, half=Fraction(1, 2)):
    """|got/unit - want| <= half a unit of the last printed place (exact rational comparison)."""
    got = float(got)
    if not math.isfinite(got):
        raise Violation(f"field:{name}", f"{name} = {got}")
    err = abs(Fraction(got) / Fraction(unit) - want)
    tol = ulp * half
    if worst is not None:
        worst[0] = max(worst[0], float(err / tol))
    if err > tol:
        raise Violation(f"field:{name}",
                        f"{name}: parsed {got / unit!r}, text says {float(want)!r} "
                        f"(off by {float(err):.3g}, printed resolution {float(ulp):.3g})")


def _epoch_err(date, f):
    """seconds between a beyond Date (UTC label) and the epoch the text states."""
    dt = date.datetime - MJD_T0
    mjd, sec = tf.epoch_mjd(f["eyy"], f["eday"])
    got = Fraction(dt.days - mjd) * 86400 + dt.seconds + Fraction(dt.microseconds, 10**6)
    return got - sec


EPOCH_TOL = Fraction(86400, 10**8) / 2  # half of 1e-8 day, in seconds


# ------------------------------------------------------------------ text_roundtrip


CONTAINERS = ["str", "str", "str-newline", "crlf", "trailing-blanks", "list", "tuple", "zero-name", "padded-name",
              "blank-name-line"]
CLONES = ["none", "none", "none", "copy.copy", "deepcopy", "pickle"]


@st.composite
def spellings(draw):
    """How the same TLE text is handed over, and what happened to the Tle object before it is used."""
    sp = dict(container=draw(st.sampled_from(CONTAINERS)), clone=draw(st.sampled_from(CLONES)),
              orbit_clone=draw(st.sampled_from(CLONES + ["copy"])))
    if draw(st.integers(0, 3)) == 0:
        sp["kwargs"] = {"source": "celestrak", "rank": draw(st.integers(0, 9))}
    return sp


def _clone(obj, how):
    import copy
    import pickle

    if how == "copy":
        return obj.copy()
    if how == "copy.copy":
        return copy.copy(obj)
    if how == "deepcopy":
        return copy.deepcopy(obj)
    if how == "pickle":
        return pickle.loads(pickle.dumps(obj))
    return obj


def build_tle(f, sp):
    """The Tle object of field set `f`, the text being handed over as `sp` says (every spelling is one
    the unchanged library accepts: str, with a final newline, CRLF line ends, trailing blanks, list of
    lines, tuple of the two lines, name line written '0 NAME' / padded with blanks / empty), then cloned."""
    from beyond.io.tle import Tle

    sp = sp or {}
    l1, l2 = tf.format_lines(f)
    name = f.get("name")
    c = sp.get("container", "str")
    lines = ([name] if name else []) + [l1, l2]
    if c == "zero-name" and name:
        lines[0] = "0 " + name
    elif c == "padded-name" and name:
        lines[0] = "  " + name + " \t"
    elif c == "blank-name-line" and not name:
        lines = [""] + lines
    if c == "list":
        arg = list(lines)
    elif c == "tuple" and not name:
        arg = tuple(lines)
    elif c == "crlf":
        arg = "\r\n".join(lines) + "\r\n"
    elif c == "trailing-blanks":
        arg = "\n".join(ln + "  " for ln in lines)
    elif c == "str-newline":
        arg = "\n".join(lines) + "\n"
    else:
        arg = "\n".join(lines)
    kw = sp.get("kwargs") or {}
    given = list(arg) if c == "list" else None
    tle = Tle(arg, **kw)
    if given is not None and arg != given:
        raise Violation("argument-modified", f"Tle(lines) changed the caller's list: {len(given)} lines given, "
                        f"{len(arg)} left ({[ln[:12] for ln in arg]})")
    if kw and tle.kwargs != kw:
        raise Violation("field:kwargs", f"Tle(text, **{kw}).kwargs is {tle.kwargs!r}")
    tle = _clone(tle, sp.get("clone", "none"))
    if kw and tle.kwargs != kw:
        raise Violation("field:kwargs", f"after {sp.get('clone')}: kwargs {tle.kwargs!r}, were {kw!r}")
    return tle


def spelling_classes(sp):
    sp = sp or {}
    return [f"text:{sp.get('container', 'str')}", f"tle-clone:{sp.get('clone', 'none')}"] + (
        ["tle-kwargs"] if sp.get("kwargs") else [])


def check_text_roundtrip(case):
    from beyond.io.tle import Tle

    f = case["tle"]
    text = tf.format_text(f)
    tle = build_tle(f, case.get("spell"))
    d = text_diff(text, str(tle))
    if d:
        raise Violation(f"str:{d[0]}", f"str(Tle(text)) != text: {d[1]}")
    orb = tle.orbit()
    if case.get("via") == "copy":
        orb = orb.copy()
    orb = _clone(orb, (case.get("spell") or {}).get("orbit_clone", "none"))
    scale = case.get("scale", "UTC")
    if scale != "UTC":
        # the same instant under another label: the epoch of a TLE is its UTC reading
        utc = orb.date.datetime
        orb.date = orb.date.change_scale(scale)
        if abs((orb.date.change_scale("UTC").datetime - utc).total_seconds()) > 1e-6:
            return dict(nt=False, cls=[f"scale:{scale}", "relabel-moves-the-instant(C03)"])
    out = str(Tle.from_orbit(orb))
    d = text_diff(text, out)
    if d:
        raise Violation(f"rewrite:{d[0]}", d[1] + (f" [orbit date labelled {scale}]" if scale != "UTC" else ""), field=d[0])
    day_f = f["eday"] % 10**8
    cls = gt.classes(f) + [f"scale:{scale}"] + spelling_classes(case.get("spell")) + [
        f"orbit-clone:{(case.get('spell') or {}).get('orbit_clone', 'none')}"]
    if min(day_f, 10**8 - day_f) <= 162000:
        cls.append("epoch-within-140s-of-midnight")
        if f["eday"] < 2 * 10**8 or f["eday"] // 10**8 >= 365:
            cls.append("epoch-within-140s-of-new-year")
    return dict(nt=gt.nontrivial(f), cls=cls)


SCALES = ["UTC", "UTC", "TT", "TDB", "GPS", "TAI", "UT1"]


@st.composite
def rt_case(draw):
    return dict(tle=draw(gt.fields(canonical=True)), via=draw(st.sampled_from(["direct", "direct", "copy"])),
                scale=draw(st.sampled_from(SCALES)), spell=draw(spellings()))


# ------------------------------------------------------------------ fields


def check_fields(case):
    import numpy as np
    from beyond.io.tle import Tle

    f = case["tle"]
    text = tf.format_text(f)
    tle = build_tle(f, case.get("spell"))
    ex = tf.expected(f)
    worst = [0.0]

    def same(name, got, want):
        if got != want or type(got) is not type(want):
            raise Violation(f"field:{name}", f"{name}: parsed {got!r}, text says {want!r}")

    same("name", tle.name, f["name"] or "")
    same("norad_id", tle.norad_id, f["cat"])
    same("classification", tle.classification, f.get("cls", "U"))
    same("cospar_id", tle.cospar_id, tf.cospar(f))
    same("element_nb", tle.element_nb, f["elnum"])
    same("revolutions", tle.revolutions, f["rev"])
    same("type", tle.type, f.get("etype", 0))
    err = _epoch_err(tle.epoch, f)
    worst[0] = max(worst[0], float(abs(err) / EPOCH_TOL))
    if abs(err) > EPOCH_TOL:
        raise Violation("field:epoch", f"epoch {tle.epoch} is {float(err):.6g} s from the text's "
                        f"{f['eyy']:02d}{f['eday'] / 1e8:012.8f}")
    if str(tle.epoch.scale) != "UTC":
        raise Violation("field:epoch-scale", f"epoch scale {tle.epoch.scale}")
    orb = tle.orbit()
    for src, label in ((tle, "tle"), (orb, "orbit")):
        _close(f"{label}.ndot", src.ndot, *ex["ndot_half"], unit=2.0, worst=worst)
        _close(f"{label}.ndotdot", src.ndotdot, *ex["nddot_sixth"], unit=6.0, worst=worst)
        _close(f"{label}.bstar", src.bstar, *ex["bstar"], worst=worst)
    vals = dict(i=(tle.i, orb.i), Ω=(tle.Ω, orb.Ω), e=(tle.e, orb.e), ω=(tle.ω, orb.ω),
                M=(tle.M, orb.M), n=(tle.n, orb.n))
    keys = dict(i="inc", Ω="raan", e="ecc", ω="argp", M="ma", n="n")
    units = dict(i=tf.DEG, Ω=tf.DEG, e=1.0, ω=tf.DEG, M=tf.DEG, n=tf.REVDAY)
    for nm, (a, b) in vals.items():
        _close(f"tle.{nm}", a, *ex[keys[nm]], unit=units[nm], worst=worst)
        _close(f"orbit.{nm}", b, *ex[keys[nm]], unit=units[nm], worst=worst)
    lst = [float(x) for x in tle.to_list()]
    if lst != [float(vals[k][0]) for k in ("i", "Ω", "e", "ω", "M", "n")]:
        raise Violation("field:to_list", f"to_list() = {lst}")
    if not np.array_equal(np.asarray(orb.base, float), np.asarray(lst)):
        raise Violation("field:orbit-array", f"orbit() array {np.asarray(orb.base).tolist()} != to_list() {lst}")
    if orb.form.name != "tle" or orb.frame.name != "TEME":
        raise Violation("field:orbit-form", f"orbit() is {orb.form.name}/{orb.frame.name}")
    same("orbit.name", orb.name, f["name"] or "")
    same("orbit.norad_id", orb.norad_id, f["cat"])
    same("orbit.cospar_id", orb.cospar_id, tf.cospar(f))
    same("orbit.element_nb", orb.element_nb, f["elnum"])
    same("orbit.revolutions", orb.revolutions, f["rev"])
    oerr = _epoch_err(orb.date, f)
    if abs(oerr) > EPOCH_TOL:
        raise Violation("field:orbit-date", f"orbit().date {orb.date} is {float(oerr):.6g} s from the text")
    cls = gt.classes(f) + (["non-canonical"] if f.get("style") or f.get("cls", "U") != "U" or f.get("etype") else [])
    return dict(nt=gt.nontrivial(f), cls=cls + spelling_classes(case.get("spell")), ratio=worst[0])


@st.composite
def fields_case(draw):
    return dict(tle=draw(gt.fields(canonical=draw(st.integers(0, 2)) == 0)), spell=draw(spellings()))


# ------------------------------------------------------------------ writer


FORMS = ["tle", "tle", "keplerian_mean", "keplerian", "cartesian", "keplerian_circular", "equinoctial"]


def _f(lo, hi):
    """6 uniform : 1 Hypothesis-biased (small magnitudes) : 1 end points."""
    return gt.floats(lo, hi)


@st.composite
def _expfloat(draw):
    """A float that the mantissa/exponent field can hold (|x| in [1e-10, 1e9) or 0)."""
    k = draw(st.integers(0, 9))
    if k == 0:
        return 0.0
    x = draw(st.integers(-9, 5))
    m = draw(_f(0.1, 0.999994))
    if draw(st.integers(0, 3)) == 0:
        # incl. mantissas whose fifth digit rounds up into the next decade (0.999995.. -> '10000' with exponent + 1)
        m = draw(st.sampled_from([0.1, 0.5, 0.999994, 0.123455, 0.123445, 0.99999, 0.999995, 0.9999951, 0.999996,
                                  0.9999999, 0.99999949, 0.100000001, 0.0999996 * 10]))
    s = draw(st.sampled_from([1, -1]))
    return s * m * 10.0**x


# UTC midnights that follow a leap second (tai-utc.dat, 1972-2017): (year, day of year)
LEAP_MIDNIGHTS = [(1972, 183)] + [(y, 1) for y in (1973, 1974, 1975, 1976, 1977, 1978, 1979, 1980)] + [
    (1981, 182), (1982, 182), (1983, 182), (1985, 182), (1988, 1), (1990, 1), (1991, 1), (1992, 183), (1993, 182),
    (1994, 182), (1996, 1), (1997, 182), (1999, 1), (2006, 1), (2009, 1), (2012, 183), (2015, 182), (2017, 1)]
_NEAR_US = gt._mix((5, gt.uniform_int(-140 * 10**6, 140 * 10**6)),
                   (2, st.sampled_from([0, 0, 1, -1, 431, -431, 432, -432, 433, -433, 864, -864])))


@st.composite
def writer_epochs(draw, real_eop):
    """(year, day of year, microseconds from 0h of that day - may be negative, class).
    Classes: uniform; within 140 s of 1 January 0h UTC (both sides: covers 0h of 1 January in every
    scale's own reading, the offsets being < 70 s); within 140 s of any UTC midnight; day 366 of a
    leap year; with the real EOP tables also within 140 s of the midnights that follow a leap second."""
    lo, hi = (1974, 2016) if real_eop else (1958, 2056)
    year = draw(gt.uniform_int(lo, hi))
    nd = 366 if tf.is_leap(year) else 365
    kind = draw(st.integers(0, 9 if real_eop else 7))
    if kind <= 2:
        return year, 1, draw(_NEAR_US), "new-year"
    if kind == 3:
        return year, draw(st.integers(1, nd)), draw(_NEAR_US), "midnight"
    if kind == 4:
        year = draw(st.sampled_from([y for y in range(lo, hi + 1) if tf.is_leap(y)]))
        return year, 366, draw(gt.ints(0, 86400 * 10**6 - 1, [1, 86400 * 10**6 - 433])), "day-366"
    if kind >= 8:
        y, d = draw(st.sampled_from([m for m in LEAP_MIDNIGHTS if m[0] >= lo]))
        return y, d, draw(_NEAR_US), "leap-second-midnight"
    return (year, draw(st.integers(1, nd)),
            draw(gt.ints(0, 86400 * 10**6 - 1, [1, 43200 * 10**6, 432, 431, 433])), "uniform")


@st.composite
def writer_case(draw, real_eop=False):
    on_grid = draw(st.integers(0, 3)) == 0
    kind = draw(st.integers(0, 9))
    if kind == 0:
        e = 0.0
    elif kind == 1:
        e = draw(_f(0.9, 0.99999994))
    elif kind == 2:
        e = 10 ** draw(_f(-8, -3))
    else:
        e = draw(_f(0, 0.9))
    form = draw(st.sampled_from(FORMS))
    frame = draw(st.sampled_from(["TEME", "TEME", "TEME", "EME2000", "EME2000", "GCRF", "MOD", "TOD", "ITRF", "PEF"]))
    if frame in ("ITRF", "PEF"):
        # element forms are not meaningful in a rotating frame (the osculating conic of the relative velocity
        # is another curve, hyperbolic for high orbits): a state held there is held as position / velocity
        form = "cartesian"
    wind = 0 if (form, frame) != ("tle", "TEME") else draw(st.sampled_from([0, 0, 1, -1, 2]))
    el = dict(
        i=draw(st.one_of(_f(0, 180), st.sampled_from([0.0, 180.0, 90.0, 0.00005, 0.00004999, 179.99995]))),
        raan=draw(st.one_of(_f(0, 360), st.sampled_from([0.0, 359.99995, 359.99994, 359.9999, 9.99995]))),
        e=e,
        argp=draw(st.one_of(_f(0, 360), st.sampled_from([0.0, 359.99996, 99.99995]))),
        M=draw(st.one_of(_f(0, 360), st.sampled_from([0.0, 359.999949, 359.99995]))),
        n=draw(st.one_of(_f(0.05, 17.0), st.sampled_from([1.0, 9.999999995, 9.999999994, 10.0, 16.99999999]))),
        wind=wind,
    )
    if form != "tle" or frame != "TEME":
        # the library's element <-> cartesian maps are singular at e = 0 / i = 0, 180 and
        # rp must stay positive: keep those orbits in their native TLE form
        el["e"] = min(max(el["e"], 1e-3), 0.95)
        el["i"] = min(max(el["i"], 0.5), 179.5)
    if on_grid:
        el = {k: (round(v, 4) if k in ("i", "raan", "argp", "M") else v) for k, v in el.items()}
        el["e"] = round(el["e"], 7)
        el["n"] = round(el["n"], 8)
        if form == "tle" and frame == "TEME":
            el["e"] = min(el["e"], 0.9999999)
    year, doy, micro, eclass = draw(writer_epochs(real_eop))
    meta = dict(
        name=draw(st.one_of(st.none(), gt.names())),
        norad=draw(gt.ints(0, 99999, [9, 10, 9999, 10000])),
        norad_as_str=draw(st.booleans()),
        desig=draw(gt.designators()),
        elnum=draw(st.one_of(gt.ints(0, 9999, [9, 10, 99, 100, 999, 1000]), gt.uniform_int(1000, 9999))),
        rev=draw(gt.ints(0, 99999, [9, 10, 9999, 10000])),
        ndot_half=draw(st.one_of(_f(-0.99999999, 0.99999999), _f(-1e-3, 1e-3),
                                 st.sampled_from([0.0, 0.1, -0.1, 0.5, 0.099999996, 4e-9, -4e-9, 0.01]))),
        nddot_sixth=draw(_expfloat()),
        bstar=draw(_expfloat()),
        via=draw(st.sampled_from(["attr", "kwarg", "both", "absent"])),
        propagator=draw(st.sampled_from(["Sgp4", "Sgp4", "Kepler", "J2", None])),
    )
    return dict(el=el, form=form, frame=frame, year=year, doy=doy, micro=micro, meta=meta, eclass=eclass,
                scale=draw(st.sampled_from(SCALES)), positional=draw(st.booleans()),
                named=draw(st.sampled_from(["names", "names", "lower", "objects"])))


def _angle_err(got_deg, want_deg):
    d = (Fraction(got_deg) - Fraction(want_deg)) % 360
    return min(d, 360 - d)


def check_writer(case):
    import numpy as np
    from beyond.dates import Date
    from beyond.io.tle import Tle
    from beyond.orbits import Orbit

    el, meta = case["el"], case["meta"]
    epoch = _dt.datetime(case["year"], 1, 1) + _dt.timedelta(days=case["doy"] - 1, microseconds=case["micro"])
    coords = [math.radians(el["i"]), math.radians(el["raan"]) + el["wind"] * 2 * math.pi, el["e"],
              math.radians(el["argp"]) - el["wind"] * 2 * math.pi, math.radians(el["M"]) + el["wind"] * 4 * math.pi,
              el["n"] * tf.REVDAY]
    cospar = tf.cospar(dict(desig=meta["desig"]))
    data = dict(ndot=meta["ndot_half"] * 2, ndotdot=meta["nddot_sixth"] * 6, bstar=meta["bstar"],
                element_nb=meta["elnum"], revolutions=meta["rev"])
    norad = f"{meta['norad']:05d}" if meta["norad_as_str"] else meta["norad"]
    kwargs = {}
    if meta["via"] == "attr":
        data.update(norad_id=norad, cospar_id=cospar)
        if meta["name"]:
            data["name"] = meta["name"]
    elif meta["via"] == "absent":
        # neither the orbit nor the call names the object: the lines must still be well formed
        pass
    else:
        kwargs = dict(norad_id=norad, cospar_id=cospar, name=meta["name"] or "")
        if meta["via"] == "both":
            # the orbit carries other identifiers: the arguments of the call are the ones asked for
            data.update(norad_id=(meta["norad"] + 1) % 100000, cospar_id="1961-999ZZZ", name="DECOY")
    date = Date(epoch)
    scale = case.get("scale", "UTC")
    relabel_error = 0.0
    if scale != "UTC":
        date = date.change_scale(scale)  # the same instant, labelled in another scale
        # ... provided Date.change_scale itself keeps the instant: that is C03/C04's subject.  Where it
        # does not (UT1 label within milliseconds of 0h UTC: the day-tabulated UT1-UTC of the neighbouring
        # day is picked, 2.6 ms in 1976) the case is set aside here, labelled, not judged.
        relabel_error = abs((date.change_scale("UTC").datetime - epoch).total_seconds())
        if relabel_error > 1e-6:
            return dict(nt=False, cls=[f"scale:{scale}", "relabel-moves-the-instant(C03)"])
    how = case.get("named", "names")
    if how == "objects":
        from beyond.frames import get_frame
        from beyond.orbits.forms import TLE as TLE_FORM

        form_spec, frame_spec = TLE_FORM, get_frame("TEME")
    else:
        form_spec, frame_spec = ("tle" if how == "lower" else "TLE"), "TEME"
    orb = Orbit(coords, date, form_spec, frame_spec, meta.get("propagator", "Sgp4"), **data)
    native = case["form"] == "tle" and case["frame"] == "TEME"
    if not native:
        if case["frame"] in ("ITRF", "PEF"):
            # position / velocity first, then the rotating frame (copy(form=, frame=) changes the frame first,
            # i.e. while still in element form: NaN for orbits whose relative motion is hyperbolic)
            orb = orb.copy(form="cartesian").copy(frame=case["frame"])
        else:
            orb = orb.copy(form=case["form"], frame=case["frame"])
        ref = np.asarray(orb.copy(form="TLE", frame="TEME").base, float)
    else:
        ref = np.asarray(coords, float)
    before = np.asarray(orb.base, float).copy()
    if kwargs and case.get("positional"):
        tle = Tle.from_orbit(orb, kwargs["name"], kwargs["norad_id"], kwargs["cospar_id"])
    else:
        tle = Tle.from_orbit(orb, **kwargs)
    if not np.array_equal(before, np.asarray(orb.base, float)) or orb.form.name != case["form"]:
        raise Violation("writer:mutated", "from_orbit changed the orbit it was given")
    lines = tle.text.split("\n")
    if len(lines) != 2:
        raise Violation("writer:lines", f"{len(lines)} lines in Tle.text")
    for k, ln in enumerate(lines, 1):
        if len(ln) != 69:
            raise Violation("writer:length", f"line {k} has {len(ln)} columns: {ln!r}")
        if ln[68] != tf.checksum(ln):
            raise Violation("writer:checksum", f"line {k} checksum {ln[68]}, columns give {tf.checksum(ln)}: {ln!r}")
    try:
        p = tf.parse_lines(*lines)
    except tf.FormatError as exc:
        raise Violation("writer:format", f"{exc}: {lines}") from None
    want_name = "" if meta["via"] == "absent" else (meta["name"] or "")
    if str(tle) != (f"{want_name}\n" if want_name else "") + tle.text or tle.name != want_name:
        raise Violation("writer:name", f"name {tle.name!r}, expected {want_name!r}")
    worst = [0.0]
    half = Fraction(1, 2) * (1 + Fraction(1, 10**6))

    def near(name, got, want, ulp, angle=False):
        err = _angle_err(got, want) if angle else abs(Fraction(got) - Fraction(want))
        tol = ulp * half + abs(Fraction(want)) * Fraction(1, 10**13)
        worst[0] = max(worst[0], float(err / tol))
        if err > tol:
            raise Violation(f"writer:{name}", f"{name}: text says {float(got)!r}, orbit has {float(want)!r} "
                            f"(printed resolution {float(ulp):.3g}); lines {lines}")

    deg = [math.degrees(ref[0]), math.degrees(ref[1]), ref[2], math.degrees(ref[3]), math.degrees(ref[4]),
           ref[5] / tf.REVDAY]
    u4, u7, u8 = Fraction(1, 10**4), Fraction(1, 10**7), Fraction(1, 10**8)
    near("i", p["inc"], deg[0], u4, angle=True)
    near("raan", p["raan"], deg[1], u4, angle=True)
    near("e", p["ecc"], deg[2], u7)
    near("argp", p["argp"], deg[3], u4, angle=True)
    near("M", p["ma"], deg[4], u4, angle=True)
    near("n", p["n"], deg[5], u8)
    # the format's angle fields run over [0, 360) (inclination [0, 180]): 360.0000 is not a value of the field
    for nm, key, top in (("i", "inc", 180), ("raan", "raan", 360), ("argp", "argp", 360), ("M", "ma", 360)):
        if p[key] > top or (p[key] == top and top == 360):
            raise Violation("writer:angle-range", f"{nm} written as {float(p[key]):.4f} deg, outside the field's range "
                            f"[0, 360); the orbit has {deg[('i', 'raan', 'e', 'argp', 'M').index(nm)]!r} deg; lines {lines}",
                            field=nm)
    near("ndot", p["ndot_half"], meta["ndot_half"], u8)
    for name, key in (("ndotdot", "nddot_sixth"), ("bstar", "bstar")):
        v = meta[key]
        got, ulp = p[key if key != "nddot_sixth" else "nddot_sixth"], p["nddot_ulp" if name == "ndotdot" else "bstar_ulp"]
        if v == 0:
            if got != 0:
                raise Violation(f"writer:{name}", f"{name} = 0 written as {float(got)!r}")
        else:
            # 5 significant digits of the value itself
            digit = Fraction(10) ** (math.floor(math.log10(abs(v))) - 4)
            near(name, got, v, max(ulp, digit))
    absent = meta["via"] == "absent"
    if absent:
        cospar = ""
    if (p["cat"] != meta["norad"] and not absent) or p["cospar"] != cospar or p["elnum"] != meta["elnum"] \
            or p["rev"] != meta["rev"]:
        raise Violation("writer:metadata", f"catalogue/designator/element/revolution numbers not those given: {lines}")
    if p["cls"] != "U" or p["etype"] != 0:
        raise Violation("writer:metadata", f"classification {p['cls']!r} type {p['etype']}")
    true_mjd = Fraction((epoch - MJD_T0).days) + Fraction((epoch - MJD_T0).seconds * 10**6 + (epoch - MJD_T0).microseconds,
                                                          86400 * 10**6)
    near("epoch", p["epoch_mjd"], true_mjd, u8)
    # and the library reads its own text back to the same elements
    back = [math.degrees(tle.i), math.degrees(tle.Ω), tle.e, math.degrees(tle.ω), math.degrees(tle.M), tle.n / tf.REVDAY]
    for nm, b, w, ulp, ang in zip(("i", "raan", "e", "argp", "M", "n"), back, deg, (u4, u4, u7, u4, u4, u8),
                                  (True, True, False, True, True, False)):
        near(f"parse-back-{nm}", b, w, ulp, angle=ang)
    for nm, got, want in (("element_nb", tle.element_nb, meta["elnum"]), ("revolutions", tle.revolutions, meta["rev"]),
                          ("norad_id", tle.norad_id, p["cat"] if absent else meta["norad"]),
                          ("cospar_id", tle.cospar_id, cospar)):
        if got != want:
            raise Violation(f"writer:parse-back-{nm}", f"{nm} given as {want!r}, read back from the written text "
                            f"as {got!r}; lines {lines}")
    cls = [f"form:{case['form']}", f"frame:{case['frame']}", f"scale:{scale}", f"epoch:{case.get('eclass', 'uniform')}",
           f"ids:{meta['via']}", f"propagator:{meta.get('propagator', 'Sgp4')}", f"form/frame-by:{how}"]
    if kwargs and case.get("positional"):
        cls.append("from_orbit-positional")
    if case.get("micro") in (0, 1, -1, 431, -431, 432, -432, 433, -433, 864, -864):
        cls.append("epoch-tie")
    if el["e"] > 0.9:
        cls.append("e>0.9")
    if any(359.99995 <= deg[k] % 360 < 360 for k in (1, 3, 4)):
        cls.append("angle-within-5e-5-below-360")
    return dict(nt=True, cls=cls, ratio=worst[0])


# ------------------------------------------------------------------ reject


def _parse_summary(tle):
    return (tle.name, tle.norad_id, tle.classification, tle.cospar_id, str(tle.epoch), tle.ndot, tle.ndotdot,
            tle.bstar, tle.element_nb, tle.revolutions, tle.type, float(tle.i), float(tle.Ω), tle.e,
            float(tle.ω), float(tle.M), tle.n)


def corruptions(l1, l2):
    """Every corruption the property names, for one TLE: (kind, description, line1, line2)."""
    lines = (l1, l2)
    for k in (0, 1):
        ln = lines[k]
        for c in tf.digit_columns(ln):
            for d in tf.DIGITS:
                if d != ln[c]:
                    bad = ln[:c] + d + ln[c + 1:]
                    yield ("digit", f"line {k + 1} column {c + 1} {ln[c]}->{d}",) + ((bad, l2) if k == 0 else (l1, bad))
        for c in range(len(ln)):
            bad = ln[:c] + ln[c + 1:]
            yield ("length-1", f"line {k + 1} column {c + 1} deleted",) + ((bad, l2) if k == 0 else (l1, bad))
        for c in range(len(ln) + 1):
            for ch in ("7", " ") if 0 < c < len(ln) else ("7",):
                bad = ln[:c] + ch + ln[c:]
                yield ("length+1", f"line {k + 1}: {ch!r} inserted before column {c + 1}",) + (
                    (bad, l2) if k == 0 else (l1, bad))
        for ch in "03456789A ":
            bad = ch + ln[1:]
            yield ("line-number", f"line {k + 1} numbered {ch!r}",) + ((bad, l2) if k == 0 else (l1, bad))
    # numbering errors that keep every checksum valid
    def renum(ln, ch):
        body = ch + ln[1:68]
        return body + tf.checksum(body)

    yield ("line-number", "lines swapped", l2, l1)
    yield ("line-number", "line 1 given twice", l1, l1)
    yield ("line-number", "line 2 given twice", l2, l2)
    yield ("line-number", "line 2 renumbered 1 (checksum adjusted)", l1, renum(l2, "1"))
    yield ("line-number", "line 1 renumbered 2 (checksum adjusted)", renum(l1, "2"), l2)
    yield ("line-number", "line 2 renumbered 3 (checksum adjusted)", l1, renum(l2, "3"))
    yield ("line-number", "line 1 renumbered 0 (checksum adjusted)", renum(l1, "0"), l2)
    yield ("line-number", "lines renumbered 2,1 (checksums adjusted)", renum(l1, "2"), renum(l2, "1"))


def paddings(l1, l2):
    for k in (0, 1):
        for where in ("leading", "trailing"):
            for pad in (" ", "  ", "\t"):
                ln = (l1, l2)[k]
                bad = pad + ln if where == "leading" else ln + pad
                yield (f"{where} blank", f"line {k + 1} with {where} {pad!r}",) + ((bad, l2) if k == 0 else (l1, bad))


def check_reject(case):
    from beyond.io.tle import Tle, TleParseError

    f = case["tle"]
    l1, l2 = tf.format_lines(f)
    name = f"{f['name']}\n" if f.get("name") else ""
    good = _parse_summary(Tle(f"{name}{l1}\n{l2}"))
    n = 0
    as_list = case.get("as_list", False)
    for kind, what, b1, b2 in corruptions(l1, l2):
        n += 1
        arg = ([f["name"]] if f.get("name") else []) + [b1, b2] if as_list else f"{name}{b1}\n{b2}"
        given = list(arg) if as_list else None
        try:
            t = Tle(arg)
        except TleParseError:
            if as_list and arg != given:
                raise Violation("argument-modified", f"{what}: Tle(lines) refused the lines but changed the caller's "
                                f"list ({len(given)} lines given, {len(arg)} left)") from None
            continue
        raise Violation(f"accepted:{kind}", f"{what}: accepted (element_nb={t.element_nb}, norad={t.norad_id}); "
                        f"lines {[b1, b2]}", what=what)
    for kind, what, b1, b2 in paddings(l1, l2):
        n += 1
        arg = ([f["name"]] if f.get("name") else []) + [b1, b2] if as_list else f"{name}{b1}\n{b2}"
        try:
            t = Tle(arg)
        except ValueError:
            continue
        got = _parse_summary(t)
        if got != good:
            diff = [k for k, (a, b) in enumerate(zip(got, good)) if a != b]
            raise Violation(f"misparsed:{kind}", f"{what}: accepted but read differently "
                            f"(e.g. {got[diff[0]]!r} instead of {good[diff[0]]!r}); lines {[b1, b2]}", what=what)
    return dict(nt=gt.nontrivial(f), cls=gt.classes(f) + [f"corruptions~{n // 100 * 100}"])


@st.composite
def reject_case(draw):
    return dict(tle=draw(gt.fields(canonical=draw(st.integers(0, 3)) > 0)), as_list=draw(st.integers(0, 3)) == 0)


# ------------------------------------------------------------------ from_string


FS_KINDS = ["digit", "drop", "length-1", "length+1", "line-number", "renumber", "swap"]   # drop: the line is lost


@st.composite
def fs_case(draw):
    three = draw(st.booleans())
    # one text in three mixes named (3-line) and bare (2-line) entries
    mixed = draw(st.integers(0, 2)) == 0
    n = draw(st.integers(1, 6))
    # Which entries are damaged and how comes from ONE uniform draw (3 decimal digits per entry):
    # Hypothesis' generation phase likes to copy one entry's draws over another's, which makes the
    # entries of a text all damaged or all intact far too often when each decides for itself.
    plan = draw(gt.uniform_int(0, 10**18 - 1))
    entries = []
    for j in range(n):
        named = draw(st.booleans()) if mixed else three
        f = draw(gt.fields(canonical=draw(st.booleans()), with_name=named, for_from_string=True))
        r = plan // 1000**j % 1000
        cor = None
        if r % 10 < 4:
            q = r // 10
            cor = dict(kind=FS_KINDS[q % 7], line=q // 7 % 2, pos=draw(st.integers(0, 999)),
                       val=draw(st.integers(0, 8)))
        entries.append(dict(tle=f, corrupt=cor, named=named))
    comments = draw(st.sampled_from(["default", "default", "#", ";", "%", "REM"]))
    mark = "#" if comments == "default" else comments
    for ent in entries:
        nm = ent["tle"].get("name")
        if nm and nm.startswith(mark):
            ent["tle"]["name"] = "X" + nm  # a name line must not read as a comment
    filler = draw(st.lists(st.tuples(st.integers(0, 3 * n), st.sampled_from(["", "   ", f"{mark} comment", f"{mark}1 25544U",
                                                                              "\t"])), max_size=4))
    return dict(entries=entries, three=three, filler=[list(x) for x in filler], comments=comments,
                together=draw(st.integers(0, 2)) == 0,
                error=draw(st.sampled_from(["warn", "ignore", "raise", "default"])),
                trailing_newline=draw(st.booleans()))


def _corrupt(l1, l2, cor):
    """Apply one in-place corruption; returns (line1, line2, description)."""
    lines = [l1, l2]
    k = cor["line"]
    ln = lines[k]
    kind = cor["kind"]
    if kind == "digit":
        cols = tf.digit_columns(ln)
        c = cols[cor["pos"] % len(cols)]
        d = tf.DIGITS[(tf.DIGITS.index(ln[c]) + 1 + cor["val"]) % 10]
        lines[k] = ln[:c] + d + ln[c + 1:]
        what = f"digit line {k + 1} column {c + 1} {ln[c]}->{d}"
    elif kind == "drop":
        lines[k] = None
        what = f"line {k + 1} lost"
    elif kind == "length-1":
        c = cor["pos"] % len(ln)
        lines[k] = ln[:c] + ln[c + 1:]
        what = f"line {k + 1} column {c + 1} deleted"
    elif kind == "length+1":
        c = 1 + cor["pos"] % (len(ln) - 1)
        lines[k] = ln[:c] + tf.DIGITS[cor["val"]] + ln[c:]
        what = f"digit inserted in line {k + 1} before column {c + 1}"
    elif kind == "line-number":
        other = [x for x in "0123456789" if x != ln[0]][cor["val"]]
        body = other + ln[1:68]
        lines[k] = body + (tf.checksum(body) if cor["pos"] % 2 else ln[68])
        what = f"line {k + 1} renumbered {other!r}" + (" (checksum adjusted)" if cor["pos"] % 2 else "")
    elif kind == "renumber":
        # the number of the *other* line: the damaged line still looks like a TLE line
        other = "2" if k == 0 else "1"
        body = other + ln[1:68]
        lines[k] = body + (tf.checksum(body) if cor["pos"] % 2 else ln[68])
        what = f"line {k + 1} renumbered {other!r}" + (" (checksum adjusted)" if cor["pos"] % 2 else "")
    else:
        lines = [l2, l1]
        what = "lines swapped"
    return lines[0], lines[1], what


def _tle_like(line):
    """A reader of multi-TLE text can only recognise a TLE line by its "1 " / "2 " prefix; anything
    else is, by the 3LE convention, a name line."""
    return line.startswith("1 ") or line.startswith("2 ")


def build_text(case):
    """(text, notes): the entries, some corrupted in place, with blank / comment lines mixed in."""
    out, notes = [], []
    for idx, ent in enumerate(case["entries"]):
        f = ent["tle"]
        l1, l2 = tf.format_lines(f)
        block = [f["name"]] if ent.get("named", case["three"]) and f.get("name") else []
        if ent["corrupt"]:
            l1, l2, what = _corrupt(l1, l2, ent["corrupt"])
            notes.append(f"entry {idx}: {what}")
        out.append(block + [x for x in (l1, l2) if x is not None])
    flat = [ln for block in out for ln in block]
    for pos, text in sorted(case["filler"], key=lambda x: -x[0]):
        flat.insert(min(pos, len(flat)), text)
    return "\n".join(flat) + ("\n" if case["trailing_newline"] else ""), notes


def reference_reading(text, comments="#"):
    """What a multi-TLE text contains, from the format definition alone: blank and comment lines do
    not count; an entry is a well-formed line 1 immediately followed by a well-formed line 2
    (69 columns, blanks and decimal points in place, checksums right); a line just before it that is
    not itself a TLE line is its name.
    Returns (entries [(name|None, l1, l2, index of l1)], damaged line indices, visible lines)."""
    vis = [ln for ln in text.split("\n") if ln.strip() and not ln.startswith(comments)]
    entries, used = [], set()
    for k in range(len(vis) - 1):
        if vis[k].startswith("1 ") and vis[k + 1].startswith("2 "):
            try:
                tf.parse_lines(vis[k], vis[k + 1], same_catalogue=False)
            except tf.FormatError:
                continue
            name = vis[k - 1].strip() if k and not _tle_like(vis[k - 1]) else None
            entries.append((name, vis[k], vis[k + 1], k))
            used.update((k, k + 1))
    damaged = [k for k, ln in enumerate(vis) if _tle_like(ln) and k not in used]
    return entries, damaged, vis


def check_from_string(case):
    from beyond.io.tle import Tle, TleParseError

    text, notes = build_text(case)
    comments = case.get("comments", "default")
    expected, damaged, vis = reference_reading(text, "#" if comments == "default" else comments)
    kw = {} if case["error"] == "default" else {"error": case["error"]}
    if comments != "default":
        kw["comments"] = comments
    got = []
    raised = None
    try:
        if case.get("together"):
            # a second reading of another text is alive at the same time, advanced in step with this one
            other_text = "\n".join(reversed(text.split("\n")[:4])) + "\n" + text
            other = Tle.from_string(other_text, error="ignore")
            it = Tle.from_string(text, **kw)
            while True:
                next(other, None)
                try:
                    got.append(next(it))
                except StopIteration:
                    break
        else:
            for t in Tle.from_string(text, **kw):
                got.append(t)
    except TleParseError as exc:
        raised = exc
    lines = [tuple(t.text.split("\n")) for t in got]
    want = [e[1:3] for e in expected]
    # a "2 " line that does not complete an entry is where a reader has to notice the damage
    loud = [k for k in damaged if vis[k].startswith("2 ")]
    if case["error"] == "raise" and (raised is not None or loud):
        if raised is None:
            raise Violation("from_string:no-raise", f"error='raise' did not raise ({notes}); "
                            f"{len(got)} entries yielded")
        k = len(lines)
        if lines != want[:k]:
            raise Violation("from_string:before-raise", f"entries yielded before the error are not the first {k} "
                            f"valid entries of the text ({notes})")
        nxt = expected[k][3] if k < len(expected) else len(vis)
        if not any(d < nxt for d in damaged):
            raise Violation("from_string:raised", f"error='raise' raised {raised!r} after {k} entries although no "
                            f"damaged line precedes valid entry {k} ({notes})")
        if loud and k > sum(1 for e in expected if e[3] < loud[0]):
            raise Violation("from_string:no-raise", f"error='raise' went past a second line that completes no "
                            f"entry ({notes})")
    else:
        if raised is not None:
            raise Violation("from_string:raised", f"error={case['error']!r} raised {raised!r} ({notes})")
        if lines != want:
            missing = [k for k, w in enumerate(want) if w not in lines]
            extra = [k for k, g in enumerate(lines) if g not in want]
            kind = "lost" if missing or len(lines) < len(want) else ("extra" if extra or len(lines) > len(want) else "order")
            raise Violation(f"from_string:{kind}", f"{len(lines)} entries yielded, {len(want)} valid entries in the text "
                            f"(valid entries missing: {missing}, unexpected: {extra}; corruptions: {notes})",
                            notes=notes)
        def bare(nm):
            # the "0 NAME" spelling of a name line (3LE files of Space-Track): the library drops the "0 "
            nm = nm or ""
            return nm[2:].strip() if nm.startswith("0 ") else nm

        for t, e in zip(got, expected):
            if bare(t.name) != bare(e[0]):
                raise Violation("from_string:name", f"entry named {t.name!r}, " + (f"its name line says {e[0]!r}" if e[0] is not None
                                else "it has no name line (the line before its line 1 is a TLE line or nothing)"))
    cls = [("mixed" if len({bool(e.get("named")) for e in case["entries"]}) == 2 else "3-line" if case["three"] else "2-line"), f"error:{case['error']}", f"comments:{comments}"]
    if case.get("together"):
        cls.append("two-readings-alive")
    cls += sorted({f"cor:{e['corrupt']['kind']}" for e in case["entries"] if e["corrupt"]})
    if len(expected) > sum(1 for e in case["entries"] if not e["corrupt"]):
        cls.append("cross-entry-pair")
    return dict(nt=bool(damaged) and len(expected) > 0, cls=cls)


# ------------------------------------------------------------------ histories (one Tle object)


H_OPS = ["orbit", "mutate", "mutate", "mutate", "from_orbit", "str", "from_string", "copy_mutate"]
H_MUT = ["e", "i", "M", "n", "array", "bstar", "ndot", "element_nb", "revolutions", "name", "norad_id",
         "cospar_id", "date", "form", "frame"]


@st.composite
def hist_case(draw):
    """One canonical TLE, 3-12 operations on the ONE Tle object built from it.  The plan comes from a
    single uniform draw (3 decimal digits per step) so that Hypothesis' copying of one step's draws
    over another's cannot make all steps alike."""
    f = draw(gt.fields(canonical=True, for_from_string=True))  # the name must not read as a comment line
    nops = draw(st.integers(3, 12))
    plan = draw(gt.uniform_int(0, 10**48 - 1))
    ops = []
    for k in range(nops):
        r = plan // 10 ** (4 * k) % 10**4
        ops.append(dict(op=H_OPS[r % 8], what=H_MUT[r // 8 % 15], k=r // 120 % 8,
                        val=draw(st.integers(1, 999))))
    return dict(tle=f, ops=ops)


def _orbit_snapshot(orb):
    import numpy as np

    dt = orb.date.datetime - MJD_T0
    return (tuple(float(x) for x in np.asarray(orb.base, float)), (dt.days, dt.seconds, dt.microseconds),
            str(orb.date.scale), orb.form.name, orb.frame.name, orb.bstar, orb.ndot, orb.ndotdot, orb.element_nb,
            orb.revolutions, orb.name, orb.cospar_id, orb.norad_id, orb.type)


def check_history(case):
    """The Tle object is built once; every orbit() result joins a pool; pooled orbits are edited in
    place (the normal way to prepare the next element set).  After EVERY operation orbit() is called
    again and its result must be a fresh object (not `is`, no shared buffer, no shared metadata dict
    with any earlier result), equal bit for bit to the first result as it was when handed out, and
    Tle.from_orbit() of it must give back the TLE's own text; the Tle's attributes, .text and
    str() stay what they were."""
    import numpy as np
    from beyond.dates import Date
    from beyond.io.tle import Tle

    f = case["tle"]
    text = tf.format_text(f)
    l1, l2 = tf.format_lines(f)
    tle = Tle(text)
    summary0 = _parse_summary(tle)
    pool, edited = [], []
    first = {}
    labels = set()

    def hand_out(step):
        orb = tle.orbit()
        for k, old in enumerate(pool):
            if orb is old:
                raise Violation("history:same-object", f"step {step}: orbit() returned the object it had returned before "
                                f"(call {k})")
            if np.shares_memory(np.asarray(orb.base), np.asarray(old.base)):
                raise Violation("history:shared-buffer", f"step {step}: orbit() shares its array with the result of call {k}")
            if orb._data is old._data:
                raise Violation("history:shared-metadata", f"step {step}: orbit() shares its metadata dict with call {k}")
        snap = _orbit_snapshot(orb)
        if not first:
            first["snap"] = snap
        elif snap != first["snap"]:
            diff = [k for k, (a, b) in enumerate(zip(snap, first["snap"])) if a != b]
            raise Violation("history:orbit-changed", f"step {step} ({case['ops'][step]['op'] if step >= 0 else 'start'}): "
                            f"orbit() no longer returns what it returned first (field {diff[0]}: {snap[diff[0]]!r} "
                            f"instead of {first['snap'][diff[0]]!r})")
        out = str(Tle.from_orbit(orb))
        d = text_diff(text, out)
        if d:
            raise Violation(f"history:rewrite-{d[0]}", f"step {step}: Tle.from_orbit(tle.orbit()) is not the TLE's text: {d[1]}")
        pool.append(orb)
        edited.append(False)

    def tle_untouched(step):
        if _parse_summary(tle) != summary0 or tle.text != f"{l1}\n{l2}" or str(tle) != text:
            raise Violation("history:tle-changed", f"step {step}: the Tle object itself changed "
                            f"({_parse_summary(tle)} / {tle.text!r})")

    import pickle

    frozen = pickle.dumps(tle)  # taken BEFORE anything is handed out or edited
    hand_out(-1)
    for step, op in enumerate(case["ops"]):
        name = op["op"]
        labels.add(f"op:{name}")
        k = op["k"] % len(pool)
        orb = pool[k]
        if name in ("mutate", "copy_mutate"):
            if name == "copy_mutate":
                orb = orb.copy()  # an edit of a copy must of course not matter either
            else:
                edited[k] = True
            what, v = op["what"], op["val"]
            labels.add(f"edit:{what}")
            native = orb.form.name == "tle"
            if what in ("e", "i", "M", "n") and native:
                setattr(orb, what, float(getattr(orb, what)) * (1 + v / 1000.0) + v * 1e-6)
            elif what == "array" or what in ("e", "i", "M", "n"):
                orb[:] = np.asarray(orb.base, float) * (1 + v / 1000.0)
            elif what in ("bstar", "ndot"):
                setattr(orb, what, v * 1e-7)
            elif what in ("element_nb", "revolutions", "norad_id"):
                setattr(orb, what, (getattr(orb, what) + v) % 9999)
            elif what == "name":
                orb.name = f"EDITED {v}"
            elif what == "cospar_id":
                orb.cospar_id = f"19{60 + v % 40}-{v % 999 + 1:03d}ZZ"
            elif what == "date":
                orb.date = orb.date + _dt.timedelta(seconds=v)
            elif what in ("form", "frame"):
                # in-place conversions are only a stimulus here (C01/C02 judge them): an edited orbit
                # may have left the domain of the conversion
                try:
                    if what == "form":
                        orb.form = "keplerian_mean" if native else "tle"
                    elif float(np.asarray(orb.copy(form="tle").base)[2]) < 0.95:
                        orb.frame = "EME2000" if orb.frame.name == "TEME" else "TEME"
                except Exception:
                    pass
        elif name == "from_orbit":
            if not edited[k]:
                d = text_diff(text, str(Tle.from_orbit(orb)))
                if d:
                    raise Violation(f"history:rewrite-{d[0]}", f"step {step}: an orbit nobody edited no longer gives the "
                                    f"TLE's text: {d[1]}")
            elif orb.form.name == "tle" and orb.frame.name == "TEME":
                # an edited orbit must be written as it is NOW (writer clause, checked on e and the counters)
                before = _orbit_snapshot(orb)
                try:
                    t2 = Tle.from_orbit(orb)
                except ValueError:
                    t2 = None  # edited out of what a TLE can hold
                    if _orbit_snapshot(orb) != before:
                        raise Violation("history:failed-write-changed-orbit", f"step {step}: from_orbit refused the "
                                        "orbit but left it changed") from None
                if t2 is not None:
                    p = tf.parse_lines(*t2.text.split("\n"))
                    want_e = float(orb.e)
                    if abs(float(p["ecc"]) - want_e) > 0.5000001e-7 and want_e < 0.99999995:
                        raise Violation("history:stale-write", f"step {step}: from_orbit wrote e = {float(p['ecc'])!r} for an "
                                        f"orbit whose e is {want_e!r}")
                    if p["elnum"] != orb.element_nb or p["rev"] != orb.revolutions:
                        raise Violation("history:stale-write", f"step {step}: from_orbit wrote element/revolution numbers "
                                        f"{p['elnum']}/{p['rev']}, the orbit has {orb.element_nb}/{orb.revolutions}")
        elif name == "from_string" and not (f.get("name") or "").startswith("#"):
            again = list(Tle.from_string(text + "\n"))
            if len(again) != 1 or _parse_summary(again[0]) != summary0:
                raise Violation("history:from_string", f"step {step}: from_string of the same text gives "
                                f"{[_parse_summary(t) for t in again]}")
        elif name == "str":
            tle_untouched(step)
        # invariants after every step
        tle_untouched(step)
        hand_out(step)
    thawed = pickle.loads(frozen)
    if _parse_summary(thawed) != summary0 or _orbit_snapshot(thawed.orbit()) != first["snap"]:
        raise Violation("history:early-dump-changed", "a pickle of the Tle taken before the edits does not give back "
                        "the Tle / the orbit of the start")
    return dict(nt=any(edited), cls=sorted(labels) + gt.classes(f)[:2])


# ------------------------------------------------------------------ fuzz (atheris, thorough tier)

FUZZ_RUNS = 500000


def fuzz_runner(shard, nshards, tier, stats):
    """Shard 0 always sends the fuzz corpus itself through the target's oracle.  In the thorough
    tier every shard runs `vf.fuzz.tle_target` under atheris (-runs, not time; seed from
    VERIF_SEED) in a child process and yields the crashing inputs, which `check_fuzz` then
    re-executes without atheris (so a crash file is an ordinary replay case).  If atheris cannot
    be imported the campaign is reported as skipped; that is never a violation."""
    import glob
    import os
    import re
    import shutil
    import subprocess
    import sys
    import tempfile

    from .. import core
    from ..fuzz import tle_target

    if shard == 0:
        for k in range(len(tle_target.corpus())):
            yield dict(data=[k])
    if tier != "thorough":
        return
    deps = os.path.join(core.HERE, ".deps")
    envv = dict(os.environ, PYTHONPATH=os.pathsep.join([deps, core.HERE]))
    probe = subprocess.run([sys.executable, "-c", "import atheris"], env=envv, capture_output=True)
    if probe.returncode != 0:
        stats.extra["fuzz_skipped"] = 1
        return
    seed = core.shard_seed(os.environ.get("VERIF_SEED", "1") or "1", "C12", "fuzz", shard)
    tmp = tempfile.mkdtemp(prefix="vf-fuzz-")
    try:
        r = subprocess.run([sys.executable, "-m", "vf.fuzz.tle_target", f"-runs={FUZZ_RUNS}", f"-seed={seed}",
                            f"-artifact_prefix={tmp}/", "-max_len=64"], cwd=core.HERE, env=envv,
                           capture_output=True, text=True, timeout=3000)
        m = re.findall(r"^#(\d+)\s", r.stderr, flags=re.M)
        stats.extra["fuzz_execs"] = int(m[-1]) if m else 0
        leaks = re.search(r"LEAKS (\{.*\})", r.stderr)
        if leaks and leaks.group(1) != "{}":
            stats.extra["fuzz_exception_type_leaks"] = leaks.group(1)
        crashes = sorted(glob.glob(os.path.join(tmp, "crash-*")))
        if r.returncode != 0 and not crashes:
            raise RuntimeError(f"atheris run failed without a crash file:\n{r.stderr[-2000:]}")
        for path in crashes:
            with open(path, "rb") as fh:
                yield dict(data=list(fh.read()))
    finally:
        shutil.rmtree(tmp, ignore_errors=True)


def check_fuzz(case):
    from ..fuzz import tle_target

    label = tle_target.one_input(bytes(case["data"]))
    return dict(nt=label == "valid", cls=[label])


# ------------------------------------------------------------------ known findings


def _elnum_finding(facet, case, kind, msg, data):
    """Element-set number read from 3 of its 4 columns: only element numbers >= 1000, only the
    element-number field."""
    if facet == "text_roundtrip":
        return kind == "rewrite:element_nb" and case["tle"]["elnum"] >= 1000
    if facet == "fields":
        return kind in ("field:element_nb", "field:orbit.element_nb") and case["tle"]["elnum"] >= 1000
    if facet == "writer":
        return kind == "writer:parse-back-element_nb" and case["meta"]["elnum"] >= 1000
    if facet == "fuzz" and kind in ("fuzz:read-element_nb", "fuzz:rewrite-elnum"):
        from ..fuzz import tle_target

        l1 = tle_target.decode(bytes(case["data"]))[1]
        return len(l1) == 69 and l1[64] in "123456789"
    return False


def _leading_blank_finding(facet, case, kind, msg, data):
    """A line with leading white space passes validation and is read one or more columns off."""
    return facet == "reject" and kind == "misparsed:leading blank"


def _orphan_line1_finding(facet, case, kind, msg, data):
    """from_string loses the entry that follows a first line left without its second line: only
    texts in which a "1 " line is directly followed by another "1 " line, only lost entries."""
    if facet != "from_string" or kind != "from_string:lost":
        return False
    vis = reference_reading(build_text(case)[0])[2]
    return any(a.startswith("1 ") and b.startswith("1 ") for a, b in zip(vis, vis[1:]))


FINDINGS = {
    "tle-element-number-3-columns": _elnum_finding,
    "tle-leading-blank-misparsed": _leading_blank_finding,
    "tle-from-string-orphan-line1": _orphan_line1_finding,
}


FACETS = [
    Facet("text_roundtrip", lambda s, t: rt_case(), check_text_roundtrip, setup=_eop,
          rule="element number >= 1000 or ndot < 0 or exponent outside -3..-5 or empty designator",
          quick=(6, 500), thorough=(16, 10000)),
    Facet("fields", lambda s, t: fields_case(), check_fields, setup=_eop,
          rule="same rule; two thirds of the cases use non-canonical legal encodings",
          quick=(6, 450), thorough=(16, 8000)),
    Facet("writer", lambda s, t: writer_case(), check_writer, setup=_eop,
          rule="every case (orbit + metadata drawn as floats, not on the print grid in 3 of 4 cases; date labelled "
               "UTC/TT/TDB/GPS/TAI/UT1; 5 of 8 epochs within 140 s of the turn of the year / a UTC midnight / on day 366)",
          quick=(6, 400), thorough=(16, 5000)),
    Facet("writer_real_eop", lambda s, t: writer_case(real_eop=True), check_writer, setup=_eop_real,
          rule="every case; real IERS tables (1974-2016): date labelled UTC/TT/TDB/GPS/TAI/UT1, epochs massed on the "
               "turn of the year, UTC midnights, leap-second midnights and day 366",
          quick=(4, 200), thorough=(8, 4000)),
    Facet("reject", lambda s, t: reject_case(), check_reject, setup=_eop,
          rule="same rule as text_roundtrip; per case all ~900 digit replacements, ~140 deletions, ~270 "
               "insertions, 28 renumberings and 12 paddings are tried",
          quick=(8, 30), thorough=(16, 400)),
    Facet("from_string", lambda s, t: fs_case(), check_from_string, setup=_eop,
          rule="at least one damaged line and one valid entry in the text",
          quick=(8, 150), thorough=(16, 3000)),
    Facet("history", lambda s, t: hist_case(), check_history, setup=_eop,
          rule="at least one previously returned orbit was edited in place; after every operation orbit() must be a "
               "fresh object, equal to the first result bit for bit, and write back to the TLE's own text",
          quick=(8, 100), thorough=(16, 2500)),
    Facet("fuzz", check=check_fuzz, runner=fuzz_runner, setup=_eop,
          rule="the edited text is well-formed for the strict column parser (checked against it and re-written)",
          quick=(1, 0), thorough=(4, FUZZ_RUNS)),
]
