"""C19 - mission-design helpers are consistent with the dynamics they target.

Lambert (arrival condition, by the oracle's universal-variable propagator), sun-synchronous
solver (self-inverse + node drift = mean solar rate), LTAN <-> RAAN, Walker constellations,
beta angle, B-plane of a hyperbolic approach.
"""

import math

import numpy as np
from hypothesis import assume, strategies as st

from ..core import Facet, Violation
from ..gen import orbits as go
from ..oracles import twobody as tb

RULE = ("Geometry drawn as orbital elements and turned into coordinates by the oracle "
        "(vf/oracles/twobody.py); every helper is compared with its textbook definition "
        "re-derived from the drawn elements, never with another call of the same helper.")
ASSUMPTIONS = [
    "Lambert: the two positions lie on a drawn elliptic transfer orbit (e <= 0.95) at mean anomalies M0 and "
    "M0 + 2 pi k, time of flight = k periods with k in [0.003, 0.9] (25 % of the cases below 0.05), "
    "|sin(transfer angle)| > 0.03; |i - pi/2| > 0.01 so that the prograde/retrograde flag is well defined; "
    "arrival tolerance 1 m + 1e-9 x apoapsis radius of the transfer orbit.  Transfers longer than 0.9 "
    "period are outside the explored domain: the universal-variable formulation degrades smoothly "
    "towards one full revolution (fixed solver: 4 m at 0.995 T, km at 0.9995 T)",
    "oracle: universal-variable two-body propagation with the gravitational parameter of the "
    "frame's central body as stored in beyond.constants",
    "sso: Earth constants (mu, r, J2) are read from beyond.constants; node drift from the textbook "
    "first-order J2 secular rate and from beyond's J2 propagator; 'mean solar rate' = 2 pi per "
    "sidereal or tropical year (relative 1e-4)",
    "ltan/beta: EOP configuration 'missing-pass' (UT1 = UTC); direction of Sun/Moon taken from the "
    "library's body position (validated by C18), the angle formulas are the oracle's",
    "bplane: S not within 1e-3 rad of the frame's z axis",
    "multi-revolution and hyperbolic Lambert transfers are outside the quantifier",
    "also varied: time-scale labels of the dates (Lambert: each end its own label; LTAN; beta: orbit and other spacecraft), "
    "dates next to UTC midnight and the turn of the year, beta for an orbit about the Moon (lunar frame of "
    "env.solarsystem), sso with a typed as int / numpy scalars, Walker triples as numpy integers",
    "bplane, sso (J2 drift) and beta: in half of the cases the orbit object has a past - created with another semi-major "
    "axis or velocity, consulted through .infos (n, kep, energy, ...), copied, then set in place to the final numbers "
    "(obj.a = ..., obj[3:] = ...); the oracles are evaluated on the final numbers only",
]
LEVEL_TEXT = "exploration"
LEVEL_NOTE = ("Randomised search over the stated input classes; Walker triples with p, t/p <= 12 are "
              "few enough to be mostly covered but not enumerated.")
TECHNIQUE = "property-based testing (Hypothesis), independent two-body oracle"

TWO_PI = 2 * math.pi
f = go.f


def fu(lo, hi):
    """2/3 uniform over [lo, hi), 1/3 Hypothesis' own floats (edge values, 'nice' numbers)."""
    return st.one_of(go.uniform(lo, hi), go.uniform(lo, hi), f(lo, hi))


def iu(lo, hi):
    """same for wide integer ranges (Hypothesis alone puts ~93 % of them near zero)."""
    return st.one_of(go.uniform_int(lo, hi), go.uniform_int(lo, hi), st.integers(lo, hi))

_frames = {}


def setup(shard):
    from .. import env

    env.eop("missing-pass")


def frame_for(body):
    """A non-rotating frame centred on `body`."""
    if body == "Earth":
        return "EME2000"
    if body not in _frames:
        from beyond import constants
        from beyond.frames import center, frames, orient

        c = center.Center(f"VM{body}C", body=getattr(constants, body))
        _frames[body] = frames.Frame(f"VM{body}", orient.EME2000, c)
    return _frames[body]


def mu_of(body):
    from beyond import constants

    return getattr(constants, body).mu


def mkdate(us):
    """microseconds since 2000-01-01T00:00:00 UTC -> Date"""
    from beyond.dates import Date, timedelta

    return Date(2000, 1, 1) + timedelta(microseconds=us)


SCALES = ["UTC", "UTC", "UTC", "TT", "TAI", "GPS", "UT1", "TDB"]


def relabel(date, scale):
    """same instant under another time-scale label"""
    if scale is None or date.scale.name == scale:
        return date
    return date.change_scale(scale)


@st.composite
def instants_us(draw, lo_year, hi_year):
    """microseconds from 2000-01-01: anywhere in [lo_year, hi_year), or within 90 s of a UTC midnight, or of the turn
    of a year (day 366 of leap years included)"""
    import datetime as _dt

    k = draw(st.integers(0, 9))
    day = 86400 * 10**6
    lo = (_dt.date(lo_year, 1, 1) - _dt.date(2000, 1, 1)).days
    hi = (_dt.date(hi_year, 1, 1) - _dt.date(2000, 1, 1)).days
    if k < 6:
        return draw(go.uniform_int(lo * day, hi * day))
    off = int(draw(go.uniform(-90.0, 90.0)) * 1e6)
    if k < 9:
        return draw(go.uniform_int(lo, hi)) * day + off
    y = draw(st.integers(lo_year + 1, hi_year - 1))
    return (_dt.date(y, 1, 1) - _dt.date(2000, 1, 1)).days * day + off


def date_classes(t_us, scale):
    day = 86400 * 10**6
    off = (t_us + day // 2) % day - day // 2
    return [f"scale:{scale}"] + (["date:utc-midnight"] if abs(off) <= 90 * 10**6 else [])


def unit(v):
    v = np.asarray(v, float)
    return v / np.linalg.norm(v)


def finite(name, arr):
    a = np.asarray(arr, float)
    if not np.all(np.isfinite(a)):
        raise Violation(f"{name}-nonfinite", f"{name} = {a.tolist()}")
    return a


# ------------------------------------------------------------------ objects with a past

READS = ["n", "kep", "energy", "hyperbolic", "r", "v", "type", "rp"]


@st.composite
def detours(draw):
    """How the orbit object handed to a helper came to hold its numbers: fresh (half of the cases), or built
    with another energy, consulted through .infos, copied, then changed in place to the final numbers."""
    if draw(st.booleans()):
        return dict(mode="fresh")
    return dict(mode=draw(st.sampled_from(["set_a", "set_a", "dv"])), factor=draw(st.sampled_from([0.5, 0.8, 1.25, 2.0])),
                dv=[draw(go.uniform(-0.05, 0.05)) for _ in range(3)],
                reads=draw(st.lists(st.sampled_from(READS), min_size=0 if draw(st.integers(0, 4)) == 0 else 1, max_size=3)),
                copy_after_read=draw(st.booleans()), copy_after_change=draw(st.booleans()))


def with_past(detour, kep, date, frame, mu, cls_=None, propagator=None, kep_form="keplerian"):
    """A StateVector / Orbit holding exactly the elements `kep` (in form `kep_form`), reached through `detour`.

    set_a: created with semi-major axis x factor, then obj.a = a;  dv: created (cartesian) with another velocity,
    then obj[3:] = final velocity.  Returns the object in form `kep_form` (set_a) or cartesian (dv)."""
    from beyond.orbits import Orbit, StateVector

    def make(coords, form):
        if propagator is None:
            return StateVector(coords, date, form, frame)
        return Orbit(coords, date, form, frame, propagator)

    mode = detour["mode"]
    if mode == "fresh":
        return make(list(kep), kep_form)
    if mode == "set_a":
        first = list(kep)
        first[0] = kep[0] * detour["factor"]
        obj = make(first, kep_form)
    else:
        final = np.asarray(make(list(kep), kep_form).copy(form="cartesian").base, float)
        vn = float(np.linalg.norm(final[3:]))
        first = final.copy()
        first[3:] = final[3:] * (1 + np.asarray(detour["dv"], float))
        obj = make(list(first), "cartesian")
    for nm in detour["reads"]:
        getattr(obj.infos, nm)          # derived quantities consulted before the change
    if detour["copy_after_read"]:
        obj = obj.copy()
    if mode == "set_a":
        obj.a = kep[0]
    else:
        obj[3:] = final[3:]
    if detour["copy_after_change"]:
        obj = obj.copy()
    return obj


def past_classes(detour):
    if detour["mode"] == "fresh":
        return ["past:fresh"]
    out = [f"past:{detour['mode']}", "past:infos-read" if detour["reads"] else "past:no-read"]
    if detour["copy_after_read"] or detour["copy_after_change"]:
        out.append("past:copied")
    return out


# ------------------------------------------------------------------ Lambert

LAMBERT_BODIES = ("Earth", "Earth", "Earth", "Sun", "Moon", "Mars")
OTHER_FRAMES = ("MOD", "TOD", "TEME", "G50", "ITRF")


@st.composite
def lambert_case(draw):
    body = draw(st.sampled_from(LAMBERT_BODIES))
    if draw(st.integers(0, 4)) == 4:
        e = 10 ** draw(f(-4, -1))
    else:
        e = draw(fu(0.1, 0.95))
    rp = go.RADIUS[body] * draw(fu(1.03, 50.0))
    retro = draw(st.booleans())
    i = draw(fu(math.pi / 2 + 0.01, math.pi - 0.01)) if retro else draw(fu(0.01, math.pi / 2 - 0.01))
    # time of flight as a fraction of the period of the transfer orbit
    if draw(st.integers(0, 3)) == 3:
        frac = 10 ** draw(fu(math.log10(0.003), math.log10(0.05)))
    else:
        frac = draw(fu(0.05, 0.9))
    case = dict(body=body, a=rp / (1 - e), e=e, i=i, raan=draw(fu(0, TWO_PI - 1e-9)),
                argp=draw(fu(0, TWO_PI - 1e-9)), M0=draw(fu(0, TWO_PI - 1e-9)), frac=frac,
                t0=draw(instants_us(2000, 2020)), scale0=draw(st.sampled_from(SCALES)), scale1=draw(st.sampled_from(SCALES)),
                form0=draw(st.sampled_from(["cartesian", "cartesian", "keplerian", "keplerian_circular"])),
                form1=draw(st.sampled_from(["cartesian", "cartesian", "keplerian_mean", "equinoctial"])),
                frame1="same", orbit=draw(st.booleans()))
    if body == "Earth" and draw(st.integers(0, 3)) == 3:
        case["frame1"] = draw(st.sampled_from(OTHER_FRAMES))
    return case


def check_lambert(case):
    from beyond.dates import timedelta
    from beyond.orbits import StateVector
    from beyond.utils.lambert import lambert

    mu = mu_of(case["body"])
    a, e, i = case["a"], case["e"], case["i"]
    # the two end points: mean anomalies M0 and M0 + 2 pi frac on the drawn transfer orbit
    nu0 = tb.E2nu(tb.solve_kepler_E(case["M0"], e), e)
    nu1 = tb.E2nu(tb.solve_kepler_E(case["M0"] + TWO_PI * case["frac"], e), e)
    dnu = nu1 - nu0
    if not 0 < dnu < TWO_PI:
        raise RuntimeError("generator: transfer angle outside one revolution")
    assume(abs(math.sin(dnu)) > 0.03)  # end points not collinear with the focus
    c0 = tb.kep2cart(a, e, i, case["raan"], case["argp"], nu0, mu)
    c1 = tb.kep2cart(a, e, i, case["raan"], case["argp"], nu1, mu)
    n = math.sqrt(mu / a**3)
    tof = TWO_PI * case["frac"] / n
    u0 = mkdate(case["t0"])
    u1 = u0 + timedelta(seconds=tof)
    dur = (u1 - u0).total_seconds()  # the physical transfer time (microsecond resolution), from the UTC-labelled dates
    # the same two instants under (possibly different) time-scale labels; UT1 / TDB readings are kept to the microsecond
    d0 = relabel(u0, case.get("scale0"))
    d1 = relabel(u1, case.get("scale1"))
    frame = frame_for(case["body"])
    prograde = i < math.pi / 2

    o0 = StateVector(c0, d0, "cartesian", frame).copy(form=case["form0"])
    o1 = StateVector(c1, d1, "cartesian", frame)
    if case["frame1"] != "same":
        o1 = o1.copy(frame=case["frame1"])
    o1 = o1.copy(form=case["form1"])
    if case["orbit"]:
        o0 = o0.as_orbit("Kepler")
        o1 = o1.as_orbit("Kepler")
    in0 = np.array(o0.base, float)
    in1 = np.array(o1.base, float)

    s0, s1 = lambert(o0, o1, prograde)

    # inputs untouched, outputs labelled as documented
    if not (np.array_equal(np.asarray(o0.base, float), in0) and np.array_equal(np.asarray(o1.base, float), in1)):
        raise Violation("lambert-input-mutated", "lambert() changed one of its arguments")
    if o0.form.name != case["form0"] or o1.form.name != case["form1"]:
        raise Violation("lambert-input-mutated", "lambert() changed the form of one of its arguments")
    for nm, s, d in (("orb0", s0, d0), ("orb1", s1, d1)):
        if s.form.name != "cartesian":
            raise Violation("lambert-output-form", f"{nm} returned in form {s.form.name}")
        if str(s.frame) != str(o0.frame):
            raise Violation("lambert-output-frame", f"{nm} returned in frame {s.frame}, expected {o0.frame}")
        if abs((s.date - d).total_seconds()) != 0:
            raise Violation("lambert-output-date", f"{nm} date moved by {(s.date - d).total_seconds()} s")
    g0 = finite("lambert-orb0", s0.base)
    g1 = finite("lambert-orb1", s1.base)
    r0n = float(np.linalg.norm(c0[:3]))
    r1n = float(np.linalg.norm(c1[:3]))
    worst = 0.0
    # positions untouched (exactly when nothing had to be converted)
    ptol0 = 0.0 if case["form0"] == "cartesian" else 1e-9 * r0n / (1 - e)
    ptol1 = 0.0 if (case["form1"] == "cartesian" and case["frame1"] == "same") else 1e-9 * r1n / (1 - e) + 1e-4
    dp0 = float(np.linalg.norm(g0[:3] - c0[:3]))
    dp1 = float(np.linalg.norm(g1[:3] - c1[:3]))
    if dp0 > ptol0 or dp1 > ptol1:
        raise Violation("lambert-position-changed",
                        f"returned positions differ from the given ones by {dp0:.3g} m / {dp1:.3g} m")
    # arrival: propagate the departure state for the transfer time with the oracle
    arr = tb.propagate_uv(g0, dur, mu)
    # "within metres": 1 m + 1e-9 of the size of the transfer orbit (its apoapsis radius)
    ptol = 1.0 + 1e-9 * a * (1 + e)
    perr = float(np.linalg.norm(arr[:3] - g1[:3]))
    parts = dict(arr=perr / ptol)
    worst = max(worst, perr / ptol)
    if perr > ptol:
        raise Violation("lambert-arrival",
                        f"departure velocity propagated {dur:.6f} s misses the target by {perr:.6g} m "
                        f"(tol {ptol:.3g} m; e={e:.4g}, transfer angle {math.degrees(dnu):.2f} deg, "
                        f"{'prograde' if prograde else 'retrograde'}, body {case['body']})",
                        err=perr, tol=ptol)
    v1n = float(np.linalg.norm(c1[3:]))
    # a position error of ptol corresponds to a velocity error of about ptol * v/r; x10 for eccentric arcs
    vtol = 10 * ptol * max(v1n / r1n, float(np.linalg.norm(c0[3:])) / r0n) + 1e-9 * v1n
    verr = float(np.linalg.norm(arr[3:] - g1[3:]))
    parts["vel"] = verr / vtol
    worst = max(worst, verr / vtol)
    if verr > vtol:
        raise Violation("lambert-arrival-velocity",
                        f"returned arrival velocity differs from the propagated one by {verr:.6g} m/s (tol {vtol:.3g})")
    # sense of motion = the flag; transfer is the elliptic < 1 revolution one (= the generating orbit)
    hz = g0[0] * g0[4] - g0[1] * g0[3]
    if (hz > 0) != prograde:
        raise Violation("lambert-sense", f"prograde={prograde} but h_z = {hz:.6g}")
    kap = 1 / (1 - e) / abs(math.sin(dnu))
    dv0 = float(np.linalg.norm(g0[3:] - c0[3:])) / float(np.linalg.norm(c0[3:]))
    ktol = 1e-7 * kap + 1e-6
    parts["known"] = dv0 / ktol
    worst = max(worst, dv0 / ktol)
    if dv0 > ktol:
        raise Violation("lambert-not-generating-orbit",
                        f"departure velocity differs from the orbit through both points by {dv0:.3g} (relative, tol {ktol:.3g})")
    deg = math.degrees(dnu)
    nt = 20 < deg < 340 and abs(deg - 180) > 5
    cls = ["prograde" if prograde else "retrograde", "long-way" if dnu > math.pi else "short-way",
           f"body:{case['body']}"]
    if case["frame1"] != "same":
        cls.append("other-frame")
    cls.append("labels:" + ("same" if case.get("scale0", "UTC") == case.get("scale1", "UTC") else "mixed"))
    day = 86400 * 10**6
    if case["t0"] // day != (case["t0"] + int(tof * 1e6)) // day:
        cls.append("crosses-utc-midnight")
    cls.append("tof<0.05T" if case["frac"] < 0.05 else "tof>=0.05T")
    if e < 0.1:
        cls.append("e<0.1")
    return dict(nt=nt, cls=cls, ratio=worst, parts=parts)


# ------------------------------------------------------------------ sun-synchronous

SIDEREAL_YEAR = 365.256363004 * 86400
TROPICAL_YEAR = 365.24219 * 86400


def node_rate(a, e, i, E):
    """First-order secular J2 node drift (Vallado 9-37 / Curtis 4.52)."""
    p = a * (1 - e * e)
    return -1.5 * E.J2 * (E.r / p) ** 2 * math.sqrt(E.mu / a**3) * math.cos(i)


@st.composite
def sso_case(draw):
    b = draw(st.integers(0, 9))
    if b == 0:
        e = 0.0
    elif b < 3:
        e = 10 ** draw(f(-6, -1))
    else:
        e = draw(fu(0.1, 0.85))
    # u places a between a lower bound and the largest semi-major axis that still has a solution
    # (cos i = -1); phys: lower bound = perigee 150 km above the surface when such solutions exist
    return dict(e=e, u=draw(fu(0.0, 1.0)), phys=draw(st.integers(0, 9)) < 7, dt=draw(fu(3600.0, 20 * 86400.0)),
                raan=draw(fu(0, TWO_PI - 1e-9)), argp=draw(fu(0, TWO_PI - 1e-9)), M=draw(fu(0, TWO_PI - 1e-9)),
                past=draw(detours()), num=draw(st.sampled_from(["float", "float", "numpy", "int_a"])),
                # the scale the date asked of the J2 propagator is written in (same instant)
                label=draw(st.sampled_from(["UTC", "UTC", "TT", "TT", "TAI", "GPS"])))


def check_sso(case):
    from beyond.constants import Earth
    from beyond.dates import Date, timedelta
    from beyond.orbits import Orbit
    from beyond.utils.leo import sso

    e = case["e"]
    w_sun = TWO_PI / SIDEREAL_YEAR
    cst = math.sqrt(Earth.mu) * Earth.r**2 * Earth.J2
    a_max = (1.5 * cst / (w_sun * (1 - e * e) ** 2)) ** (2 / 7)
    a_lo = 0.3 * a_max
    if case["phys"] and (Earth.r + 150e3) / (1 - e) < 0.95 * a_max:
        a_lo = (Earth.r + 150e3) / (1 - e)
    a = a_lo + (0.9999 * a_max - a_lo) * case["u"]
    num = case.get("num", "float")
    if num == "int_a":
        a = int(a)                      # semi-major axis typed as a whole number of metres
    elif num == "numpy":
        a, e = np.float64(a), np.float64(e)
    parts = {}

    i = float(sso(a=a, e=e))
    if not math.isfinite(i):
        raise Violation("sso-nonfinite", f"sso(a={a!r}, e={e!r}) = {i}")
    if not math.pi / 2 < i <= math.pi:
        raise Violation("sso-inclination", f"sso(a={a!r}, e={e!r}) = {i} rad is not retrograde")
    # (1) the solution makes the node follow the mean sun
    rate = node_rate(a, e, i, Earth)
    r = min(abs(rate * SIDEREAL_YEAR / TWO_PI - 1), abs(rate * TROPICAL_YEAR / TWO_PI - 1))
    parts["rate"] = max(parts.get("rate", 0.0), r / 1e-4)
    if r > 1e-4:
        raise Violation("sso-rate", f"a={a:.3f} e={e:.6g} -> i={math.degrees(i):.6f} deg drifts the node "
                        f"{rate * SIDEREAL_YEAR / TWO_PI:.6f} turn per year")
    # ... also as propagated by the J2 model of the library
    d0 = Date(2020, 3, 1)
    # (the orbit may have been retargeted: created with another semi-major axis, consulted, then given a = sso(...))
    past = case.get("past", dict(mode="fresh"))
    if past["mode"] == "dv" and e == 0.0:
        past = dict(past, mode="set_a")      # a circular orbit has no cartesian detour back to exactly e = 0
    orb = with_past(past, [a, e, i, case["raan"], case["argp"], case["M"]], d0, "EME2000", Earth.mu,
                    propagator="J2", kep_form="keplerian_mean")
    target = d0 + timedelta(seconds=case["dt"])
    if case.get("label", "UTC") != "UTC":
        target = target.change_scale(case["label"])
    end = orb.propagate(target)
    el = tb.cart2elements(np.asarray(end.base, float), Earth.mu)
    drift = tb.angdiff(el["raan"], case["raan"]) / case["dt"]
    # conditioning of the node read back from a cartesian state: eps / sin i, over the drifted angle
    jtol = 1e-4 + 1e-12 / math.sin(i) / abs(w_sun * case["dt"])
    r = min(abs(drift * SIDEREAL_YEAR / TWO_PI - 1), abs(drift * TROPICAL_YEAR / TWO_PI - 1))
    parts["j2"] = max(parts.get("j2", 0.0), r / jtol)
    if r > jtol:
        raise Violation("sso-j2-drift", f"J2 propagation of the sso solution (a={a:.3f}, e={e:.6g}, i={i:.9f}) "
                        f"moves the node by {drift * SIDEREAL_YEAR / TWO_PI:.6f} turn per year")
    # (2) each mode inverts the other two.  Inputs of the two other modes: the textbook inclination
    c = -(2 / 3) * w_sun * a**3.5 * (1 - e * e) ** 2 / cst
    i_ref = math.acos(c)
    ti = 1e-9 + 4e-16 / math.sin(i_ref)
    parts["i"] = max(parts.get("i", 0.0), abs(i - i_ref) / ti)
    if abs(i - i_ref) > ti:
        raise Violation("sso-i", f"sso(a, e) = {i!r}, defining relation gives {i_ref!r}")
    for inc, lab in ((i, "own"), (i_ref, "ref")):
        a2 = float(sso(e=e, i=inc))
        # da/a = 2/7 dcos/cos, dcos = sin i * di
        ta = 1e-9 + 1e-15 * math.tan(inc) ** 2
        if not math.isfinite(a2) or abs(a2 / a - 1) > ta:
            raise Violation("sso-inverse-a", f"sso(e={e!r}, i=sso(a={a!r}, e)) = {a2!r} ({lab} i)")
        parts["a"] = max(parts.get("a", 0.0), abs(a2 / a - 1) / ta)
        with np.errstate(all="ignore"):
            e2 = float(sso(a=a, i=inc))
        # e = sqrt(1 - sqrt(X)): an error eps on X is eps / (4 e) on e, at most sqrt(eps / 2) at e = 0;
        # X itself carries eps * tan(i) from the inclination
        eps = 1e-13 * (1 + abs(math.tan(inc)))
        te = 1e-9 + min(math.sqrt(eps), eps / max(e, 1e-300))
        if not math.isfinite(e2):
            raise Violation("sso-inverse-e-nan", f"sso(a={a!r}, i={inc!r}) = {e2} where e = {e!r} is a solution ({lab} i)",
                            e=e)
        if abs(e2 - e) > te:
            raise Violation("sso-inverse-e", f"sso(a={a!r}, i={inc!r}) = {e2!r}, expected {e!r} ({lab} i)")
        parts["e"] = max(parts.get("e", 0.0), abs(e2 - e) / te)
    for kw in (dict(a=a), dict(e=e), dict(i=i), dict()):
        try:
            sso(**kw)
        except ValueError:
            pass
        else:
            raise Violation("sso-mode", f"sso({kw}) did not raise ValueError")
    cls = ["e=0" if e == 0 else "e<0.1" if e < 0.1 else "e>=0.1"]
    if a * (1 - e) < Earth.r:
        cls.append("perigee-below-surface")
    if i > math.radians(150):
        cls.append("i>150deg")
    return dict(nt=True, cls=cls + past_classes(past) + [f"num:{num}"], ratio=max(parts.values()), parts=parts)


# ------------------------------------------------------------------ LTAN <-> RAAN


def mean_sun_ra(date):
    """Right ascension of the fictitious mean sun = GMST(IAU 1982) - UT1 + 12h, in radians.

    GMST82 = 67310.54841 s + (876600 h + 8640184.812866 s) T + 0.093104 T^2 - 6.2e-6 T^3 with
    T in Julian centuries of UT1 from J2000.0; the 876600 h term is the UT1 clock itself.
    """
    ut1 = date.change_scale("UT1")
    T = ((ut1.d - 51544) + (ut1.s - 43200.0) / 86400.0) / 36525.0
    sec = 67310.54841 + 8640184.812866 * T + 0.093104 * T * T - 6.2e-6 * T**3
    return (sec % 86400.0) * TWO_PI / 86400.0


def wrap_day(x):
    """difference of two times of day, in (-43200, 43200]"""
    return (x + 43200.0) % 86400.0 - 43200.0


@st.composite
def ltan_case(draw):
    return dict(t=draw(instants_us(1990, 2030)), scale=draw(st.sampled_from(SCALES)),
                raan=draw(fu(0, TWO_PI - 1e-9)), ltan=draw(fu(0, 86400 - 1e-6)),
                d=draw(fu(-TWO_PI, TWO_PI)), type=draw(st.sampled_from(["mean", "true"])),
                wind=draw(st.sampled_from([0, 0, 0, -1, 1])))


def check_ltan(case):
    from beyond.utils.ltan import ltan2raan, raan2ltan

    date = mkdate(case["t"])                       # oracle side: UTC label
    ldate = relabel(date, case.get("scale"))       # what the library gets: same instant, drawn label
    typ = case["type"]
    raan, ltan = case["raan"], case["ltan"]
    worst = 0.0
    ATOL = 1e-9  # rad
    TTOL = ATOL * 43200 / math.pi

    lt = float(raan2ltan(ldate, raan + case["wind"] * TWO_PI, typ))
    ra = float(ltan2raan(ldate, ltan + case["wind"] * 86400, typ))
    if not (math.isfinite(lt) and math.isfinite(ra)):
        raise Violation("ltan-nonfinite", f"raan2ltan = {lt}, ltan2raan = {ra}")
    if not 0 <= lt < 86400:
        raise Violation("ltan-range", f"raan2ltan = {lt} s not in [0, 86400)")
    if not 0 <= ra < TWO_PI:
        raise Violation("ltan-range", f"ltan2raan = {ra} rad not in [0, 2 pi)")
    # inverses
    back = float(ltan2raan(ldate, lt, typ))
    d = abs(tb.angdiff(back, raan))
    worst = max(worst, d / ATOL)
    if d > ATOL:
        raise Violation("ltan-inverse", f"ltan2raan(raan2ltan({raan!r})) = {back!r} ({typ})")
    back = float(raan2ltan(ldate, ra, typ))
    d = abs(wrap_day(back - ltan))
    worst = max(worst, d / TTOL)
    if d > TTOL:
        raise Violation("ltan-inverse", f"raan2ltan(ltan2raan({ltan!r})) = {back!r} ({typ})")
    # one turn of the node = one day of local time, same sense
    lt2 = float(raan2ltan(ldate, raan + case["d"], typ))
    d = abs(wrap_day(lt2 - lt - 86400 * case["d"] / TWO_PI))
    worst = max(worst, d / TTOL)
    if d > TTOL:
        raise Violation("ltan-slope", f"raan + {case['d']!r} rad moves the LTAN by {wrap_day(lt2 - lt)!r} s")
    # definition: local solar time of the node = hour angle of the node from the (mean / true) sun + 12 h
    if typ == "mean":
        sun = mean_sun_ra(date)
        # the library evaluates GMST from a single-float Julian date (resolution 4e-5 s of time)
        tol = 1e-3
    else:
        from beyond.env.solarsystem import get_body

        p = np.asarray(get_body("Sun").propagate(date).copy(frame="EME2000", form="cartesian").base, float)
        sun = math.atan2(p[1], p[0])
        tol = 1e-5
    want = (43200.0 + (raan - sun) * 43200.0 / math.pi) % 86400.0
    d = abs(wrap_day(lt - want))
    worst = max(worst, d / tol)
    if d > tol:
        raise Violation("ltan-definition", f"{typ} LTAN of raan={raan!r} at {date} is {lt!r} s, "
                        f"12h + hour angle from the {typ} sun gives {want!r} s")
    want = ((ltan - 43200.0) * math.pi / 43200.0 + sun) % TWO_PI
    d = abs(tb.angdiff(ra, want))
    worst = max(worst, d / (tol * math.pi / 43200))
    if d > tol * math.pi / 43200:
        raise Violation("ltan-definition", f"{typ} LTAN {ltan!r} s at {date} gives raan {ra!r}, definition {want!r}")
    # mean and true differ by the equation of time (|EoT| < 16 min 33 s; 2 s allowance for the models)
    other = float(raan2ltan(ldate, raan + case["wind"] * TWO_PI, "true" if typ == "mean" else "mean"))
    # The library refers the mean sun to the mean equinox of date (GMST) and the node to EME2000:
    # general precession in right ascension, 3.075 s of time per year from J2000, adds to the difference.
    years = case["t"] / (365.25 * 86400e6)
    eot = wrap_day(other - lt) * (1 if typ == "mean" else -1) - 3.075 * years
    if abs(eot) > 1000.0:
        raise Violation("ltan-equation-of-time", f"true - mean LTAN, less precession, is {eot:.3f} s at {date}")
    return dict(nt=True, cls=[typ, f"wind{case['wind']}"] + date_classes(case["t"], case.get("scale", "UTC")), ratio=worst)


# ------------------------------------------------------------------ Walker


@st.composite
def walker_case(draw):
    p = draw(st.integers(1, 12))
    s = draw(st.integers(1, 12))
    return dict(kind=draw(st.sampled_from(["Star", "Delta"])), p=p, s=s, f=draw(st.integers(0, p - 1)),
                raan0=draw(st.one_of(st.just(0.0), fu(0, TWO_PI))), default_raan0=draw(st.booleans()),
                ints=draw(st.sampled_from(["python", "python", "numpy"])))


def check_walker(case):
    from beyond.utils import constellation

    p, s, ph = case["p"], case["s"], case["f"]
    t = p * s
    cls_ = getattr(constellation, "Walker" + case["kind"])
    T_, P_, F_ = (np.int64(t), np.int64(p), np.int64(ph)) if case.get("ints") == "numpy" else (t, p, ph)
    if case["default_raan0"]:
        w = cls_(T_, P_, F_)
        raan0 = 0.0
    else:
        w = cls_(T_, P_, F_, case["raan0"])
        raan0 = case["raan0"]
    fleet = [(float(a), float(b)) for a, b in w.iter_fleet()]
    if len(fleet) != t:
        raise Violation("walker-count", f"Walker{case['kind']} {t}/{p}/{ph}: {len(fleet)} satellites")
    if w.per_plane != s:
        raise Violation("walker-count", f"per_plane = {w.per_plane}, expected {s}")
    span = math.pi if case["kind"] == "Star" else TWO_PI
    tol = 1e-12
    worst = 0.0
    k = 0
    for plane in range(p):
        for sat in range(s):
            raan, nu = fleet[k]
            k += 1
            want_raan = raan0 + plane * span / p
            want_nu = sat * TWO_PI * p / t + plane * ph * TWO_PI / t
            if not (math.isfinite(raan) and math.isfinite(nu)):
                raise Violation("walker-nonfinite", f"plane {plane} sat {sat}: {raan}, {nu}")
            d1 = abs(raan - want_raan)
            d2 = abs(tb.angdiff(nu, want_nu))
            worst = max(worst, d1 / tol, d2 / (tol * (1 + abs(want_nu))))
            if d1 > tol:
                raise Violation("walker-raan", f"Walker{case['kind']} {t}/{p}/{ph} plane {plane}: raan {raan!r}, "
                                f"expected {want_raan!r}")
            if d2 > tol * (1 + abs(want_nu)):
                raise Violation("walker-phase", f"Walker{case['kind']} {t}/{p}/{ph} plane {plane} sat {sat}: "
                                f"anomaly {nu!r}, expected {want_nu!r} (mod 2 pi)")
    # the public per-plane iterators agree with the fleet
    raans = [float(x) for x in w.iter_raan()]
    if len(raans) != p or any(abs(raans[j] - fleet[j * s][0]) > tol for j in range(p)):
        raise Violation("walker-iter", "iter_raan disagrees with iter_fleet")
    for plane in range(p):
        nus = [float(x) for x in w.iter_nu(plane)]
        if len(nus) != s or any(abs(nus[j] - fleet[plane * s + j][1]) > tol * (1 + abs(nus[j])) for j in range(s)):
            raise Violation("walker-iter", "iter_nu disagrees with iter_fleet")
    return dict(nt=True, cls=[case["kind"], "p=1" if p == 1 else "p>1", "f=0" if ph == 0 else "f>0", f"ints:{case.get('ints', 'python')}"], ratio=worst)


# ------------------------------------------------------------------ beta

BETA_FRAMES = ("EME2000", "EME2000", "MOD", "TOD", "TEME", "ITRF")


@st.composite
def beta_case(draw):
    hyp = draw(st.integers(0, 9)) < 2
    el = draw(go.elements(elliptic=not hyp, hyperbolic=hyp))
    ref = draw(st.sampled_from(["Sun", "Sun", "Moon", "orbit", "orbit", "aligned"]))
    case = dict(el=el, ref=ref, t=draw(iu(0, 30 * 365 * 86400 * 10**6)),
                form=draw(st.sampled_from(["cartesian", "keplerian", "equinoctial"])), frame="EME2000",
                past=draw(detours()), scale=draw(st.sampled_from(SCALES)), ref_scale=draw(st.sampled_from(SCALES)))
    case["t"] = draw(instants_us(2000, 2030))
    # the form the other spacecraft is held in when it is handed over (and, one time in three, at the very date of the orbit)
    case["ref_form"] = draw(st.sampled_from(["cartesian", "cartesian", "keplerian", "keplerian_mean", "equinoctial", "spherical"]))
    case["ref_same_date"] = draw(st.integers(0, 2)) == 0
    if ref == "Sun" and draw(st.integers(0, 4)) == 0:
        case["frame"] = "Moon"
    elif ref in ("Sun", "Moon"):
        case["frame"] = draw(st.sampled_from(BETA_FRAMES))
    elif ref == "orbit":
        case["ref_el"] = draw(go.elements(hyperbolic=False, emax_ell=0.8))
        case["ref_dt"] = draw(fu(-20000.0, 20000.0))
    else:
        case["sign"] = draw(st.sampled_from([-1.0, 1.0]))
        case["lam"] = draw(fu(0.5, 20.0))
        case["tilt"] = draw(st.one_of(st.just(0.0), f(-12, -1).map(lambda x: 10**x)))
    return case


def check_beta(case):
    from beyond.constants import Earth
    from beyond.dates import timedelta
    from beyond.orbits import Orbit, StateVector
    from beyond.utils.beta import beta

    mu = Earth.mu
    el = case["el"]
    cart = tb.kep2cart(el["a"], el["e"], el["i"], el["raan"], el["argp"], el["nu"], mu)
    date = mkdate(case["t"])                          # oracle side: UTC label
    ldate = relabel(date, case.get("scale"))          # library side: same instant, drawn label
    frame_lib = case["frame"]
    if frame_lib == "Moon":
        # an orbit about the Moon (same numbers, read in lunar-centred EME2000 axes): the obscuring body is the Moon
        if "Moon" not in _frames:
            from beyond.env.solarsystem import get_frame as _ss_frame

            _frames["Moon"] = _ss_frame("Moon")       # one registration per process
        frame_lib = _frames["Moon"]
    past = case.get("past", dict(mode="fresh"))
    if past["mode"] == "fresh":
        orb = StateVector(cart, ldate, "cartesian", frame_lib).copy(form=case["form"])
    else:
        orb = with_past(past, [el["a"], el["e"], el["i"], el["raan"], el["argp"], el["nu"]], ldate, frame_lib, mu)
        if orb.form.name != case["form"]:
            orb = orb.copy(form=case["form"])
    h = np.cross(cart[:3], cart[3:])
    hhat = unit(h)
    ref = case["ref"]
    if ref in ("Sun", "Moon"):
        from beyond.env.solarsystem import get_body

        arg = ref
        if case["frame"] == "Moon":
            # direction Moon -> Sun in EME2000 axes, from the two geocentric positions
            ps = np.asarray(get_body("Sun").propagate(date).copy(frame="EME2000", form="cartesian").base, float)[:3]
            pm = np.asarray(get_body("Moon").propagate(date).copy(frame="EME2000", form="cartesian").base, float)[:3]
            d = ps - pm
        else:
            d = np.asarray(get_body(ref).propagate(date).copy(frame=case["frame"], form="cartesian").base, float)[:3]
    elif ref == "orbit":
        rel = dict(case["ref_el"])
        rel["i"] = min(max(rel["i"], 0.05), math.pi - 0.05)      # it goes through the Kepler propagator: regular elements
        rel["e"] = max(rel["e"], 1e-3)
        rc = tb.kep2cart(rel["a"], rel["e"], rel["i"], rel["raan"], rel["argp"], rel["nu"], mu)
        ref_dt = 0.0 if case.get("ref_same_date") else case["ref_dt"]
        arg = Orbit(rc, relabel(date - timedelta(seconds=ref_dt), case.get("ref_scale")), "cartesian", "EME2000", "Kepler")
        dt = (date - arg.date).total_seconds()
        d = tb.propagate_uv(rc, dt, mu)[:3]
    else:
        # the other spacecraft sits (almost) on the orbit normal: beta = +-90 deg
        rn = float(np.linalg.norm(cart[:3]))
        rhat = unit(cart[:3])
        pos = case["sign"] * case["lam"] * rn * (hhat + case["tilt"] * rhat)
        # A non-degenerate orbit for it (it goes through the library's Kepler propagator, i.e. through keplerian
        # elements): among a few velocity directions perpendicular-ish to pos, the first one that gives
        # 0.05 < i < pi - 0.05 and 0.05 < e < 0.9 in the frame's axes (checked with the oracle's elements)
        that = unit(np.cross(hhat, rhat))
        vc = math.sqrt(mu / np.linalg.norm(pos))
        rc = None
        for t_dir in (that, rhat, unit(that + rhat), unit(that - rhat), unit(np.cross(unit(pos), [0.0, 0.0, 1.0]) + 0.3 * that),
                      unit(np.cross(unit(pos), [1.0, 0.0, 0.0]))):
            vel = vc * (0.9 * t_dir * case["sign"] + 0.3 * unit(pos))
            cand = np.concatenate([pos, vel])
            oe = tb.cart2elements(cand, mu)
            if 0.05 < oe["i"] < math.pi - 0.05 and 0.05 < oe["e"] < 0.9:
                rc = cand
                break
        if rc is None:
            raise RuntimeError("generator: no regular orbit found for the spacecraft on the orbit normal")
        arg = Orbit(rc, relabel(date, case.get("ref_scale")), "cartesian", "EME2000", "Kepler")
        d = pos
    ref_form = case.get("ref_form", "cartesian")
    if ref in ("orbit", "aligned") and ref_form != "cartesian":
        arg = arg.copy(form=ref_form)
    with np.errstate(all="ignore"):
        b = float(beta(orb, arg))
    # elevation of the body above the orbit plane = pi/2 - angle(h, d), by atan2 (well conditioned everywhere)
    dhat = unit(d)
    ang = math.atan2(float(np.linalg.norm(np.cross(hhat, dhat))), float(np.dot(hhat, dhat)))
    want = math.pi / 2 - ang
    if not math.isfinite(b):
        raise Violation("beta-nonfinite", f"beta = {b} where the elevation above the orbit plane is {math.degrees(want):.9f} deg",
                        want=want)
    if not -math.pi / 2 <= b <= math.pi / 2:
        raise Violation("beta-range", f"beta = {b}")
    k = 1 / (1 - el["e"]) if el["e"] < 1 else math.cosh(el["anom"]) ** 2
    # asin loses eps / cos(beta) near the poles (at most sqrt(2 eps)); form conversions lose eps * kappa
    eps = 1e-13 * (1 + (k if (case["form"] != "cartesian" or past["mode"] != "fresh") else 0))
    tol = 1e-9 + min(math.sqrt(2 * eps), eps / max(math.cos(want), 1e-300))
    if ref in ("orbit", "aligned") and ref_form != "cartesian":
        tol += 1e-10   # the other spacecraft's own form round trip
        cls_extra = [f"ref_form:{ref_form}"]
    else:
        cls_extra = []
    if ref == "orbit":
        tol += 1e-9 / (1 - case["ref_el"]["e"])  # the library's own Kepler propagation of the other spacecraft
    err = abs(b - want)
    if err > tol:
        raise Violation("beta-definition", f"beta = {b!r}, elevation of {ref} above the orbit plane = {want!r} "
                        f"(diff {err:.3g}, tol {tol:.3g})")
    cls = [f"ref:{ref}", f"frame:{case['frame']}"] + cls_extra
    if abs(want) > math.radians(89.9):
        cls.append("|beta|>89.9deg")
    if el["e"] > 1:
        cls.append("hyperbolic")
    return dict(nt=True, cls=cls + past_classes(past) + date_classes(case["t"], case.get("scale", "UTC")), ratio=err / tol,
                parts={ref: err / tol})


# ------------------------------------------------------------------ B-plane

BP_BODIES = ("Earth", "Mars", "Moon", "Sun")


@st.composite
def bplane_case(draw):
    el = draw(go.elements(elliptic=False, hyperbolic=True, bodies=BP_BODIES, emax_hyp=10.0, hmax=6.0))
    if el["e"] < 1.05:
        e = 1.05 + (el["e"] - 1.001)
        el["a"] = el["a"] * (1 - el["e"]) / (1 - e)
        el["e"] = e
        el["nu"] = tb.H2nu(el["anom"], e)
    return dict(el=el, form=draw(st.sampled_from(["cartesian", "cartesian", "keplerian", "equinoctial"])),
                past=draw(detours()))


def check_bplane(case):
    from beyond.dates import Date
    from beyond.orbits import StateVector
    from beyond.utils.interplanetary import bplane

    el = case["el"]
    a, e = el["a"], el["e"]
    mu = mu_of(el["body"])
    args = (a, e, el["i"], el["raan"], el["argp"])
    cart = tb.kep2cart(*args, el["nu"], mu)
    # perifocal triad from the drawn angles
    P = unit(tb.kep2cart(*args, 0.0, mu)[:3])
    W = unit(np.cross(cart[:3], cart[3:]))
    Q = np.cross(W, P)
    # incoming asymptote: velocity direction of the hyperbola far before periapsis (H = -30)
    far = tb.kep2cart(*args, tb.H2nu(-30.0, e), mu)
    S_ref = unit(far[3:])
    cb, sb = 1 / e, math.sqrt(e * e - 1) / e
    S_an = cb * P + sb * Q  # closed form of the same direction
    if np.linalg.norm(S_ref - S_an) > 1e-9:
        raise RuntimeError("oracle: asymptote direction inconsistent")
    assume(math.hypot(S_ref[0], S_ref[1]) > 1e-3)
    b = abs(a) * math.sqrt(e * e - 1)
    B_ref = b * (sb * P - cb * Q)
    # ... which is the limit of r - (r.S)S along the incoming branch (checked at H = -14: 1/cosh ~ 1e-6)
    rf = tb.kep2cart(*args, tb.H2nu(-14.0, e), mu)[:3]
    lim = rf - np.dot(rf, S_ref) * S_ref
    if np.linalg.norm(lim - B_ref) > 1e-4 * b:
        raise RuntimeError("oracle: B vector is not the asymptote offset")

    past = case.get("past", dict(mode="fresh"))
    if past["mode"] == "fresh":
        sv = StateVector(cart, Date(2020, 1, 1), "cartesian", frame_for(el["body"])).copy(form=case["form"])
    else:
        # same numbers, but the object has been consulted (.infos) and changed in place before (C15: value semantics)
        sv = with_past(past, [a, e, el["i"], el["raan"], el["argp"], el["nu"]], Date(2020, 1, 1), frame_for(el["body"]), mu)
        if sv.form.name != case["form"]:
            sv = sv.copy(form=case["form"])
    before = np.array(sv.base, float)
    with np.errstate(all="ignore"):
        bp = bplane(sv)
    if not np.array_equal(np.asarray(sv.base, float), before) or sv.form.name != case["form"]:
        raise Violation("bplane-input-mutated", "bplane() changed its argument")
    B = finite("bplane-B", bp.B)
    S = finite("bplane-S", bp.S)
    T = finite("bplane-T", bp.T)
    R = finite("bplane-R", bp.R)
    ev = finite("bplane-e", bp.e)
    hv = finite("bplane-h", bp.h)
    th = float(bp.theta)
    # conditioning: the state far out on the branch determines e-vector and S with cosh(H) loss
    k = math.cosh(el["anom"]) * (1 + 1 / (e - 1))
    tol = 1e-12 * k + 1e-10
    if case["form"] != "cartesian" or past["mode"] != "fresh":
        # the library's own form conversion comes first (C01: 1e-11 / |1-e| * cosh^2 H / sin i)
        tol += 1e-11 * math.cosh(el["anom"]) ** 2 / (e - 1) / math.sin(el["i"])
    worst = [0.0]

    def close(name, got, want, t=tol, scale=1.0):
        d = float(np.linalg.norm(np.asarray(got, float) - np.asarray(want, float))) / scale
        worst[0] = max(worst[0], d / t)
        if d > t:
            raise Violation(f"bplane-{name}", f"{name} = {np.asarray(got).tolist()}, definition gives "
                            f"{np.asarray(want).tolist()} (diff {d:.3g}, tol {t:.3g}; e={e:.6g}, H={el['anom']:.4g})")

    for nm, x, y in (("S.T", S, T), ("S.R", S, R), ("T.R", T, R)):
        close(nm, [float(np.dot(x, y))], [0.0])
    for nm, x in (("|S|", S), ("|T|", T), ("|R|", R)):
        close(nm, [float(np.linalg.norm(x))], [1.0])
    close("S", S, S_ref)
    sxy = math.hypot(S_ref[0], S_ref[1])
    T_ref = unit(np.cross(S_ref, [0.0, 0.0, 1.0]))
    close("T", T, T_ref, t=tol / sxy)
    close("R", R, np.cross(S_ref, T_ref), t=tol / sxy)
    close("B", B, B_ref, scale=b)
    close("B.S", [float(np.dot(B, S))], [0.0], scale=b)
    close("B.h", [float(np.dot(B, W))], [0.0], scale=b)
    close("|B|", [float(np.linalg.norm(B))], [b], scale=b)
    close("e", ev, e * P, scale=e)
    href = np.cross(cart[:3], cart[3:])
    close("h", hv, href, scale=float(np.linalg.norm(href)))
    if not math.isfinite(th):
        raise Violation("bplane-theta-nonfinite", f"theta = {th}")
    close("theta", [math.cos(th)], [float(np.dot(B_ref, T_ref)) / b], t=tol / sxy)
    if not 0 <= th <= math.pi:
        raise Violation("bplane-theta", f"theta = {th}")
    cls = [f"body:{el['body']}", "inbound" if el["anom"] < 0 else "outbound"]
    if el["i"] > math.pi / 2:
        cls.append("retrograde")
    if e > 3:
        cls.append("e>3")
    return dict(nt=True, cls=cls + past_classes(past), ratio=worst[0])


# ------------------------------------------------------------------ wrappers around the helpers

HELD_IN = ["EME2000", "TEME", "MOD", "TOD", "GCRF", "G50", "ITRF"]


@st.composite
def wrappers_case(draw):
    kind = draw(st.sampled_from(["orb2ltan", "orb2ltan", "orb2ltan", "beta_limit", "sso_frozen"]))
    el = draw(go.elements(hyperbolic=False, emax_ell=0.9, bodies=("Earth",) if kind != "beta_limit" else BP_BODIES))
    el["i"] = min(max(el["i"], 0.05), math.pi - 0.05)
    frame = draw(st.sampled_from(HELD_IN))
    return dict(kind=kind, el=el, t=draw(instants_us(2000, 2030)), scale=draw(st.sampled_from(SCALES)), frame=frame,
                form=draw(st.sampled_from(["cartesian", "keplerian", "equinoctial"])) if frame != "ITRF" else "cartesian",
                type=draw(st.sampled_from(["mean", "true"])), a_sso=draw(go.uniform(6.6e6, 8.2e6)),
                propagator=draw(st.booleans()))


def check_wrappers(case):
    from beyond.orbits import StateVector

    el = case["el"]
    kind = case["kind"]
    date = mkdate(case["t"])
    ldate = relabel(date, case.get("scale"))
    k = 1 / (1 - el["e"])
    if kind == "orb2ltan":
        from beyond.constants import Earth
        from beyond.utils.ltan import ltan2raan, orb2ltan, raan2ltan

        # the orbit is defined by its elements in EME2000; it is handed over HELD in another frame / form
        cart = tb.kep2cart(el["a"], el["e"], el["i"], el["raan"], el["argp"], el["nu"], Earth.mu)
        orb = StateVector(cart, ldate, "cartesian", "EME2000")
        if case["frame"] != "EME2000":
            orb = orb.copy(frame=case["frame"])
        if case["form"] != "cartesian":
            orb = orb.copy(form=case["form"])
        if case["propagator"]:
            orb = orb.as_orbit("Kepler")
        before = np.array(orb.base, float)
        lt = float(orb2ltan(orb, case["type"]))
        if not np.array_equal(np.asarray(orb.base, float), before) or orb.frame.name != case["frame"]:
            raise Violation("orb2ltan-input-mutated", "orb2ltan() changed its argument")
        if not (math.isfinite(lt) and 0 <= lt < 86400):
            raise Violation("orb2ltan-range", f"orb2ltan = {lt}")
        # node read back from a state: eps kappa / sin i; Earth orientation from a single-float Julian date: 4e-9 rad
        tol = 2e-8 + 1e-9 * k / math.sin(el["i"])
        want = float(raan2ltan(date, el["raan"], case["type"]))        # (raan2ltan itself is decided by the ltan facet)
        d = abs(wrap_day(lt - want)) * math.pi / 43200
        back = float(ltan2raan(date, lt, case["type"]))
        d2 = abs(tb.angdiff(back, el["raan"]))
        if d > tol or d2 > tol:
            raise Violation("orb2ltan", f"orbit with EME2000 node {el['raan']!r} rad, held in {case['frame']} / {case['form']}: "
                            f"orb2ltan = {lt!r} s, LTAN of its EME2000 node = {want!r} s; ltan2raan(orb2ltan) = {back!r} rad "
                            f"(off by {max(d, d2):.3g} rad, tol {tol:.3g})")
        return dict(nt=True, cls=[kind, f"held:{case['frame']}", f"form:{case['form']}", case["type"]]
                    + date_classes(case["t"], case.get("scale", "UTC")), ratio=max(d, d2) / tol)
    if kind == "beta_limit":
        from beyond.dates import Date
        from beyond.utils.beta import beta_limit

        body = el["body"]
        mu = mu_of(body)
        cart = tb.kep2cart(el["a"], el["e"], el["i"], el["raan"], el["argp"], el["nu"], mu)
        orb = StateVector(cart, Date(2020, 1, 1), "cartesian", frame_for(body)).copy(form=case["form"])
        from beyond import constants

        R = getattr(constants, body).r
        r = float(np.linalg.norm(cart[:3]))
        got = float(beta_limit(orb))
        want = math.asin(R / r)       # half-angle of the body seen from the spacecraft = beta below which it is eclipsed
        tol = 1e-9 * k / math.sin(el["i"]) + 1e-9 + 1e-15 / max(math.cos(want), 1e-8)
        if not math.isfinite(got) or abs(got - want) > tol:
            raise Violation("beta_limit", f"beta_limit = {got!r}, asin(R / r) = {want!r} (body {body}, r = {r:.1f} m)")
        return dict(nt=True, cls=[kind, f"body:{body}", f"form:{case['form']}"], ratio=abs(got - want) / tol)
    # sun-synchronous frozen orbit: a fixed point of  i = sso(a, e),  e = -J3 R sin i / (2 J2 a),  perigee at 90 deg
    from beyond.constants import Earth
    from beyond.utils.leo import frozen, sso, sso_frozen

    a = case["a_sso"]
    e, i, w = (float(x) for x in sso_frozen(a))
    e_ref = -Earth.J3 * Earth.r * math.sin(i) / (2 * Earth.J2 * a)
    i_ref = float(sso(a=a, e=e))
    ef, wf = (float(x) for x in frozen(a, i))
    bad = (abs(e - e_ref) > 1e-11 or abs(i - i_ref) > 1e-9 or abs(w - math.pi / 2) > 1e-15 or abs(ef - e_ref) > 1e-15
           or abs(wf - math.pi / 2) > 1e-15 or not 0 < e < 0.01)
    if bad:
        raise Violation("sso_frozen", f"sso_frozen({a!r}) = ({e!r}, {i!r}, {w!r}); frozen eccentricity for that i: {e_ref!r}, "
                        f"sso inclination for that e: {i_ref!r}")
    return dict(nt=True, cls=[kind], ratio=max(abs(e - e_ref) / 1e-11, abs(i - i_ref) / 1e-9))


FACETS = [
    Facet("lambert_arrival", lambda s, t: lambert_case(), check_lambert, setup=setup,
          rule="transfer angle in (20, 340) deg and more than 5 deg away from 180 deg",
          quick=(12, 130), thorough=(32, 1500)),
    Facet("sso", lambda s, t: sso_case(), check_sso, setup=setup,
          rule="every case: 3 modes + node drift by formula and by the J2 propagator",
          quick=(4, 400), thorough=(8, 6000)),
    Facet("ltan", lambda s, t: ltan_case(), check_ltan, setup=setup,
          rule="every case: both directions, slope, definition against the mean / true sun",
          quick=(4, 400), thorough=(8, 6000)),
    Facet("walker", lambda s, t: walker_case(), check_walker, setup=setup,
          rule="every case: all t satellites compared with the Walker definition",
          quick=(2, 600), thorough=(4, 6000)),
    Facet("beta", lambda s, t: beta_case(), check_beta, setup=setup,
          rule="every case", quick=(4, 500), thorough=(8, 8000)),
    Facet("wrappers", lambda s, t: wrappers_case(), check_wrappers, setup=setup,
          rule="every case: orb2ltan (orbit held in a drawn frame / form), beta_limit, sso_frozen / frozen",
          quick=(4, 300), thorough=(8, 4000)),
    Facet("bplane", lambda s, t: bplane_case(), check_bplane, setup=setup,
          rule="every case: S, T, R, B, e, h, theta against the perifocal closed forms",
          quick=(4, 800), thorough=(8, 10000)),
]


# Only consulted for keys listed in KNOWN_FINDINGS.txt (the proposed fixes scratch/fixes/C19-2/3.patch
# make both unnecessary).
FINDINGS = {
    # sso(a=, i=) returns NaN for the circular solution: 1 - sqrt(X) = -1e-16 under the square root
    "sso-circular-nan": lambda facet, case, kind, msg, data:
        facet == "sso" and kind == "sso-inverse-e-nan" and case["e"] < 1e-7,
    # beta() returns NaN when the other body sits on the orbit normal: asin(1 + 2e-16)
    "beta-on-normal-nan": lambda facet, case, kind, msg, data:
        facet == "beta" and kind == "beta-nonfinite" and case["ref"] == "aligned" and case["tilt"] < 1e-7,
}
