"""C20 - conversion routing is correct for every registration order.

`Node` (beyond/utils/node.py) keeps, per node, a next-hop table that is rebuilt incrementally on
every `a + b`.  The model is the plain edge set; after *every* insertion every ordered pair is
checked against a breadth-first search on that edge set.
"""

import hashlib
import itertools
import math
import os

import numpy as np
from hypothesis import strategies as st

from ..core import Facet, Violation
from ..gen.draws import D
from ..oracles import graphs as G

RULE = ("A history is a list of oriented link insertions `a + b` on fresh Node objects (or of "
        "registrations in beyond's own frame graphs); after every insertion all ordered pairs "
        "(source, goal) are compared with a BFS on the inserted edge set.")
ASSUMPTIONS = [
    "oracle: BFS distances on the model edge set, Pruefer decoding, AHU canonical forms for free trees, "
    "brute-force canonical forms for graphs on <= 5 vertices (vf/oracles/graphs.py)",
    "node names are unique within a graph (two nodes with one name are outside the quantifier)",
    "trees on 7 and 8 nodes are enumerated up to isomorphism (11 and 23 shapes, labelled 0..n-1 in one "
    "way) x all insertion orders x all orientations; arbitrary labellings/names of 7-8 node trees are "
    "sampled by trees_labelled_random, not enumerated (1.7e11 histories for n = 8)",
    "graphs: a link may be inserted twice (beyond's own create_station does so), which must change nothing",
    "registrations: new frames are named <stem><sep><n> with sep among - space _ . / e-acute Omega : + (names that "
    "differ only by a non-identifier character meet in one history); the probe date carries a drawn time-scale label; half of the probe conversions hold the state "
    "in spherical form and name the frames by their objects; conversion results are held across registrations "
    "(and cloned by copy()/copy/deepcopy/pickle) and must convert like fresh ones; alias frames share the "
    "orientation object of one frame and the centre of another; names and objects are compared for "
    "StateVector.copy, Center.convert_to, Orientation.convert_to; stations on ITRF/TIRF/PEF (coordinates given as a tuple or as one float ndarray object "
    "re-used - unchanged or rewritten in place - for later stations), orbit frames (None/QSW/TNW) on Kepler orbits given in "
    "EME2000/GCRF/MOD, frames attached (orbit2frame / as_frame, None/QSW/TNW) to state vectors or Kepler orbits "
    "EXPRESSED IN a frame generated earlier in the history (stations by preference; chains of depth 2-3), "
    "a point of every new frame converted into ITRF/WGS84/PEF/TIRF/EME2000/TOD, its base frame and the latest "
    "generated frames, with the recorded conversions and np.array snapshots of every stored Center.offset "
    "compared bit for bit after every single conversion; solarsystem Moon and Sun frames (at most once per process: a second call reuses a "
    "name, which the property does not cover); EOP configuration missing-pass; conversions compared "
    "bit for bit before/after a registration, round trips to 1e-11 of the largest distance involved",
    "HillFrame(orientation) re-registers the existing name 'Hill' (frames.dynamic['Hill'] is overwritten): "
    "not a registration under a new name, hence not exercised here",
]
LEVEL_TEXT = "exhaustive for trees on <= 6 labelled / <= 8 unlabelled nodes (thorough tier); exploration elsewhere"
LEVEL_NOTE = ("trees_exhaustive enumerates every history of its sub-space in the thorough tier "
              "(5 025 434 + 506 880 + 14 837 760 histories); the quick tier completes n <= 5 and samples n = 6..8")
TECHNIQUE = "exhaustive enumeration (trees) + property-based testing (graphs, names, registrations) against a BFS model"


# ------------------------------------------------------------------ the routing oracle


class Goal(str):
    """A goal name that counts how often it is hashed / compared, and gives up beyond a limit.

    path() is a `while True` loop over the next-hop tables: if it never reaches the goal it never
    returns.  Time-outs are not evidence (BUILDING.md), so the loop is bounded deterministically:
    every iteration of path() hashes and compares the goal at least once."""

    limit = 400

    def __new__(cls, value, limit=400):
        obj = super().__new__(cls, value)
        obj.count = 0
        obj.limit = limit
        return obj

    def _tick(self):
        self.count += 1
        if self.count > self.limit:
            raise Violation("path-does-not-return", f"path('{str(self)}') is still looping after {self.limit} "
                            f"look-ups of the goal in a graph of a few nodes")

    def __hash__(self):
        self._tick()
        return str.__hash__(self)

    def __eq__(self, other):
        self._tick()
        return str.__eq__(self, other)

    def __ne__(self, other):
        self._tick()
        return str.__ne__(self, other)


def walk(nodes, index, s, gname, limit):
    """Follow the next-hop tables from nodes[s] to the node called gname without calling path()
    (which loops forever on inconsistent tables).  Returns the list of Node objects or a string
    describing what is wrong."""
    obj = nodes[s]
    out = [obj]
    while obj.name != gname:
        route = obj.routes.get(gname)
        if route is None:
            return f"no route to '{gname}' at '{obj.name}' (after {len(out) - 1} hops)"
        obj = route.direction
        out.append(obj)
        if len(out) > limit:
            return f"next hops towards '{gname}' never arrive: {[o.name for o in out]}"
    return out


def verify(nodes, names, adj, *, tree, ctx, check_steps=True, pairs=None):
    """All ordered pairs of the current state against BFS on adj.  Raises Violation."""
    n = len(nodes)
    index = {id(nd): i for i, nd in enumerate(nodes)}
    for s in range(n):
        dist = G.bfs_dist(adj, s)
        src = nodes[s]
        for g in range(n):
            if g == s or (pairs is not None and (s, g) not in pairs):
                continue
            gname = names[g]
            if dist[g] < 0:
                # unconnected: must be reported as such
                try:
                    got = src.path(Goal(gname))
                except ValueError:
                    pass
                else:
                    raise Violation("ghost-route", f"{ctx()}: '{names[s]}' and '{gname}' are not connected but "
                                    f"path() returned {[o.name for o in got]}", s=s, g=g)
                if check_steps:
                    try:
                        got = list(src.steps(Goal(gname)))
                    except ValueError:
                        pass
                    else:
                        raise Violation("ghost-route", f"{ctx()}: steps() between unconnected '{names[s]}' and "
                                        f"'{gname}' returned {len(got)} steps", s=s, g=g)
                continue
            w = walk(nodes, index, s, gname, n + 1)
            if isinstance(w, str):
                kind = "unreachable" if w.startswith("no route") else "routing-loop"
                raise Violation(kind, f"{ctx()}: '{names[s]}' -> '{gname}' (distance {dist[g]}): {w}", s=s, g=g)
            got = src.path(Goal(gname))
            if got != w:
                raise Violation("path-vs-tables", f"{ctx()}: path('{gname}') from '{names[s]}' returned "
                                f"{[o.name for o in got]}, the next-hop tables give {[o.name for o in w]}", s=s, g=g)
            ids = [index.get(id(o), -1) for o in got]
            if ids[0] != s or ids[-1] != g or -1 in ids:
                raise Violation("wrong-endpoints", f"{ctx()}: path '{names[s]}' -> '{gname}' is {[o.name for o in got]}",
                                s=s, g=g)
            for a, b in zip(ids, ids[1:]):
                if b not in adj[a]:
                    raise Violation("invalid-hop", f"{ctx()}: path '{names[s]}' -> '{gname}' = {[o.name for o in got]} "
                                    f"uses the link {names[a]}-{names[b]} which was never inserted", s=s, g=g)
            if len(set(ids)) != len(ids):
                raise Violation("node-repeated", f"{ctx()}: path '{names[s]}' -> '{gname}' = {[o.name for o in got]} "
                                f"visits a node twice", s=s, g=g)
            if len(ids) - 1 != dist[g]:
                raise Violation("not-unique-path" if tree else "not-shortest",
                                f"{ctx()}: path '{names[s]}' -> '{gname}' = {[o.name for o in got]} has "
                                f"{len(ids) - 1} hops, the shortest chain has {dist[g]}", s=s, g=g,
                                hops=len(ids) - 1, shortest=dist[g])
            if check_steps:
                st_ = list(src.steps(Goal(gname)))
                if st_ != list(zip(got, got[1:])):
                    raise Violation("steps-vs-path", f"{ctx()}: steps('{gname}') from '{names[s]}' is "
                                    f"{[(a.name, b.name) for a, b in st_]}, path() is {[o.name for o in got]}", s=s, g=g)
        if src.path(names[s]) != [src]:
            raise Violation("self-path", f"{ctx()}: path to itself from '{names[s]}' is {src.path(names[s])}")


def play(n, seq, names, *, tree, verified=0, check_steps_last_only=False, extra=None, suspend=False):
    """Run one history on fresh nodes: seq = [(a, b), ...] meaning nodes[a] + nodes[b].
    States after the first `verified` insertions are not re-verified (they were by the caller)."""
    from beyond.utils.node import Node

    nodes = [Node(nm) for nm in names]
    adj = [[] for _ in range(len(names))]
    done = []

    def ctx():
        return (f"{len(names)} nodes, after inserting " + " ".join(f"{names[a]}+{names[b]}" for a, b in done))

    pending = None
    for k, (a, b) in enumerate(seq):
        if suspend and k >= 1 and pending is None:
            # a steps() iteration started now, suspended over the next insertion, finished after it
            src = seq[k - 1][0]
            far = max(range(len(names)), key=lambda g: G.bfs_dist(adj, src)[g])
            if far != src and G.bfs_dist(adj, src)[far] >= 1:
                gen = nodes[src].steps(Goal(names[far]))
                pending = (src, far, gen, [next(gen)])
        res = nodes[a] + nodes[b]
        if res is not nodes[b]:
            raise Violation("add-result", f"`a + b` returned {res!r} instead of b")
        if b not in adj[a]:
            adj[a].append(b)
            adj[b].append(a)
        done.append((a, b))
        if pending is not None:
            src, far, gen, hops = pending
            pending = None
            for _ in range(len(names) + 2):
                try:
                    hops.append(next(gen))
                except StopIteration:
                    break
            chain = [hops[0][0]] + [h[1] for h in hops]
            idx = {id(nd): i for i, nd in enumerate(nodes)}
            ids = [idx.get(id(o), -1) for o in chain]
            ok = (ids[0] == src and ids[-1] == far and -1 not in ids and len(set(ids)) == len(ids)
                  and all(hops[i][1] is hops[i + 1][0] for i in range(len(hops) - 1))
                  and all(y in adj[x] for x, y in zip(ids, ids[1:])))
            if not ok:
                raise Violation("suspended-steps", f"{ctx()}: steps('{names[far]}') from '{names[src]}', started before the "
                                f"last insertion and finished after it, gave {[(x.name, y.name) for x, y in hops]}",
                                inserted=[list(e) for e in done])
        if k >= verified:
            last = k == len(seq) - 1
            try:
                verify(nodes, names, adj, tree=tree, ctx=ctx, check_steps=last or not check_steps_last_only)
            except Violation as v:
                v.data["inserted"] = [list(e) for e in done]
                raise
    return nodes, adj


# ------------------------------------------------------------------ trees_exhaustive


def sampled(seed, key, rate):
    """Deterministic thinning for the quick tier: keep 1 case in `rate`."""
    h = hashlib.sha256(f"{seed}/{key}".encode()).digest()
    return int.from_bytes(h[:4], "big") % rate == 0


QUICK_RATE = {6: 60, 7: 12, 8: 120}
PREFIX_LEN = {2: 0, 3: 0, 4: 0, 5: 0, 6: 1, 7: 2, 8: 2}


def oriented_prefixes(edges, k):
    """All sequences of k distinct edges, each in both orientations."""
    for idx in itertools.permutations(range(len(edges)), k):
        for mask in range(2**k):
            yield [list(edges[j]) if not (mask >> i) & 1 else list(edges[j][::-1]) for i, j in enumerate(idx)]


def tree_cases(tier, seed):
    """The sub-space cut into cases, smallest trees first.  A case = one tree + the first
    PREFIX_LEN[n] oriented insertions, and stands for every history that continues them:
    all orders x all orientations of the remaining edges."""
    for n in range(2, 9):
        trees = list(G.labelled_trees(n)) if n <= 6 else G.free_trees(n)
        k = PREFIX_LEN[n]
        for ti, edges in enumerate(trees):
            for pi, prefix in enumerate(oriented_prefixes(edges, k)):
                if tier != "thorough" and n >= 6 and not sampled(seed, f"{n}/{ti}/{pi}", QUICK_RATE[n]):
                    continue
                yield dict(n=n, tree=[list(e) for e in edges], prefix=prefix, kind="labelled" if n <= 6 else "free")


def histories_of(case):
    rest = case["n"] - 1 - len(case["prefix"])
    return math.factorial(rest) * 2**rest


def run_trees(shard, nshards, tier, stats):
    seed = os.environ.get("VERIF_SEED", "1") or "1"
    stats.extra["histories"] = 0
    for i, case in enumerate(tree_cases(tier, seed)):
        if i % nshards != shard:
            continue
        yield case
        stats.extra["histories"] += histories_of(case)
    stats.exhaustive = tier == "thorough"


def tables_signature(nodes):
    return [(nd.name, [o.name for o in nd.neighbors], [(k, r.direction.name, r.steps) for k, r in nd.routes.items()])
            for nd in nodes]


def check_tree_case(case):
    """Depth-first walk over every continuation of the prefix.  One set of Node objects is used for
    the whole walk: an insertion is undone by removing the two neighbour entries and putting back
    copies of the route tables saved before it (`_update` only touches the nodes reachable from its
    operands, and builds new tables rather than editing Route objects - this is re-checked against
    a from-scratch replay of the first and last history of every case).

    After every insertion: the next-hop tables of every node of the merged component are compared
    with BFS (every goal of the component present, nothing else, each direction an inserted link
    that is one step closer).  At the end of every history: path() for every ordered pair equals the
    unique chain, steps() agrees for a rotating seventh of the pairs.  (path()/steps() only read the
    tables; they are called after every insertion in the three other facets.)
    """
    from beyond.utils.node import Node

    n = case["n"]
    edges = [tuple(e) for e in case["tree"]]
    m = len(edges)
    names = [str(i) for i in range(n)]
    nodes = [Node(nm) for nm in names]
    for i, nd in enumerate(nodes):
        nd._vf = i
    adj = [[] for _ in range(n)]
    adjset = [set() for _ in range(n)]
    comp = [[i] for i in range(n)]          # comp[v] = list of the members of v's component (shared)
    dist = [[-1] * n for _ in range(n)]
    for i in range(n):
        dist[i][i] = 0
    # the unique chains of the complete tree, as name lists: expect[s][g] = s ... g
    full = G.adjacency(n, edges)
    expect = [[None] * n for _ in range(n)]
    for s_ in range(n):
        par = {s_: None}
        order = [s_]
        for u in order:
            for v in full[u]:
                if v not in par:
                    par[v] = u
                    order.append(v)
        for g in range(n):
            chain = [g]
            while par[chain[-1]] is not None:
                chain.append(par[chain[-1]])
            expect[s_][g] = [names[v] for v in reversed(chain)]
    seq = []
    state = dict(leaves=0, sig_first=None, seq_first=None, sig_last=None, seq_last=None)
    total = histories_of(case)

    def fail_tables():
        done = list(seq)
        verify(nodes, names, adj, tree=True,
               ctx=lambda: f"{n} nodes, after inserting " + " ".join(f"{names[a]}+{names[b]}" for a, b in done))
        raise Violation("tables-inconsistent", f"{n} nodes, after inserting {done}: next-hop tables do not match BFS")

    def insert(a, b):
        A, B = comp[a], comp[b]
        merged = A + B
        saved = [(nodes[x], dict(nodes[x].routes)) for x in merged]
        res = nodes[a] + nodes[b]
        if res is not nodes[b]:
            raise Violation("add-result", f"`a + b` returned {res!r} instead of b")
        adj[a].append(b)
        adj[b].append(a)
        adjset[a].add(b)
        adjset[b].add(a)
        for x in A:
            dxa = dist[x][a] + 1
            row = dist[x]
            for y in B:
                d = dxa + dist[b][y]
                row[y] = d
                dist[y][x] = d
        for x in merged:
            comp[x] = merged
        seq.append((a, b))
        # tables of the merged component
        size = len(merged) - 1
        for s_ in merged:
            routes = nodes[s_].routes
            if len(routes) != size:
                fail_tables()
            row = dist[s_]
            nbs = adjset[s_]
            for g in merged:
                if g == s_:
                    continue
                r = routes.get(names[g])
                if r is None:
                    fail_tables()
                di = getattr(r.direction, "_vf", -1)
                if di not in nbs or dist[di][g] != row[g] - 1:
                    fail_tables()
        return A, B, saved

    def undo(a, b, rec):
        A, B, saved = rec
        seq.pop()
        del nodes[a].neighbors[nodes[b]]
        del nodes[b].neighbors[nodes[a]]
        for nd, routes in saved:
            nd.routes = routes
        adj[a].pop()
        adj[b].pop()
        adjset[a].discard(b)
        adjset[b].discard(a)
        for x in A:
            row = dist[x]
            for y in B:
                row[y] = -1
                dist[y][x] = -1
        for x in A:
            comp[x] = A
        for x in B:
            comp[x] = B

    def leaf():
        state["leaves"] += 1
        c = state["leaves"]
        for s_ in range(n):
            src = nodes[s_]
            # bounded calls first, for the first history of the case: the tables of every later history
            # of the same tree describe the same unique chains, so path() walks the same hops
            if c == 1:
                for g in range(n):
                    if g != s_:
                        src.path(Goal(names[g]))
            for g in range(n):
                if g == s_:
                    continue
                got = src.path(names[g])
                if [o.name for o in got] != expect[s_][g]:
                    fail_tables_path(s_, g, got)
                if (s_ * n + g + c) % 7 == 0 and list(src.steps(names[g])) != list(zip(got, got[1:])):
                    raise Violation("steps-vs-path", f"after inserting {list(seq)}: steps('{names[g]}') from "
                                    f"'{names[s_]}' disagrees with path() = {[o.name for o in got]}")
        if c == 1 or c == total:
            key = "first" if c == 1 else "last"
            state["sig_" + key] = tables_signature(nodes)
            state["seq_" + key] = list(seq)

    def fail_tables_path(s_, g, got):
        done = list(seq)
        verify(nodes, names, adj, tree=True,
               ctx=lambda: f"{n} nodes, after inserting " + " ".join(f"{names[a]}+{names[b]}" for a, b in done))
        raise Violation("not-unique-path", f"after inserting {done}: path '{names[s_]}' -> '{names[g]}' is "
                        f"{[o.name for o in got]}, the unique chain is {expect[s_][g]}")

    used = [False] * m

    def rec(depth):
        if depth == m:
            leaf()
            return
        for j in range(m):
            if used[j]:
                continue
            used[j] = True
            for a, b in (edges[j], edges[j][::-1]):
                r = insert(a, b)
                rec(depth + 1)
                undo(a, b, r)
            used[j] = False

    # the prefix
    index = {tuple(sorted(e)): j for j, e in enumerate(edges)}
    for a, b in case["prefix"]:
        used[index[tuple(sorted((a, b)))]] = True
        insert(a, b)
    rec(len(case["prefix"]))
    if state["leaves"] != total:
        raise RuntimeError(f"enumerated {state['leaves']} histories, expected {total}")
    # the undo trick must be indistinguishable from fresh objects
    for key in ("first", "last"):
        fresh = [Node(nm) for nm in names]
        for a, b in state["seq_" + key]:
            fresh[a] + fresh[b]
        if tables_signature(fresh) != state["sig_" + key]:
            raise RuntimeError(f"harness: state reached by undoing differs from a fresh replay of {state['seq_' + key]}")
    return dict(nt=n >= 4, cls=[f"n={n}", case["kind"]], ratio=0.0)


# ------------------------------------------------------------------ trees_labelled_random

ALPHABET = "abAB01_ -.éΩ"
ODD_NAMES = ["", " ", "a", "A", "a ", "aa", "a_to_b", "b_to_a", "0", "00", "None", "self", "name", "routes",
             "EME2000", "ITRF", "é", "é", "Ω", "Ω"]


def draw_names(d, n):
    """n distinct names, without rejection: a pool of odd names (empty, prefixes of each other,
    unicode look-alikes, names of real frames) plus n random short strings, sampled without
    replacement (Fisher-Yates on drawn indices)."""
    pool = list(dict.fromkeys(ODD_NAMES))
    for _ in range(n):
        nm = "".join(d.pick(*ALPHABET) for _ in range(d.int(1, 3)))
        while nm in pool:
            nm += "~"
        pool.append(nm)
    names = []
    for _ in range(n):
        names.append(pool.pop(d.int(0, len(pool) - 1)))
    return names


@st.composite
def lab_case(draw, shard, tier):
    d = D(draw)
    n = d.pick(7, 8, 8)
    shape = d.pick("any", "any", "any", "any", "star", "path", "caterpillar")
    if shape == "star":
        seq = [d.int(0, n - 1)] * (n - 2)
    elif shape == "path":
        seq = G.nth_permutation(range(n), d.int(0, math.factorial(n) - 1))[: n - 2]
    elif shape == "caterpillar":
        spine = [d.int(0, n - 1), d.int(0, n - 1)]
        seq = [spine[d.int(0, 1)] for _ in range(n - 2)]
    else:
        seq = [d.int(0, n - 1) for _ in range(n - 2)]
    m = n - 1
    return dict(n=n, prufer=seq, perm=d.int(0, math.factorial(m) - 1), mask=d.int(0, 2**m - 1),
                names=draw_names(d, n), by_object=d.coin())


def check_lab_case(case):
    n = case["n"]
    m = n - 1
    edges = G.prufer_decode(case["prufer"], n)
    order = G.nth_permutation(range(m), case["perm"])
    seq = [edges[j] if not (case["mask"] >> k) & 1 else edges[j][::-1] for k, j in enumerate(order)]
    nodes, adj = play(n, seq, case["names"], tree=True, suspend=case.get("by_object", False))
    audit_final(nodes, case["names"], adj, case["by_object"])
    deg = max(len(a) for a in adj)
    return dict(nt=True, cls=[f"n={n}", "star" if deg == n - 1 else "path" if deg == 2 else "other"], ratio=0.0)


def audit_final(nodes, names, adj, by_object):
    """Things checked once per history: goal given as a Node object, `list`, symmetric neighbours."""
    n = len(nodes)
    for s in range(n):
        dist = G.bfs_dist(adj, s)
        comp = {g for g in range(n) if dist[g] >= 0}
        got = nodes[s].list
        if sorted(names[g] for g in comp) != sorted(o.name for o in got) or len(got) != len(comp):
            raise Violation("list", f"'{names[s]}'.list = {[o.name for o in got]}, its component is "
                            f"{sorted(names[g] for g in comp)}")
        nb = [o.name for o in nodes[s].neighbors]
        if sorted(nb) != sorted(names[g] for g in adj[s]):
            raise Violation("neighbors", f"'{names[s]}'.neighbors = {nb}, inserted links give "
                            f"{[names[g] for g in adj[s]]}")
        if by_object:
            for g in comp:
                if nodes[s].path(nodes[g]) != nodes[s].path(names[g]):
                    raise Violation("path-by-object", f"path(Node) and path(name) differ for '{names[s]}' -> '{names[g]}'")


# ------------------------------------------------------------------ graphs

_graph_cache = {}


def small_graphs(n):
    if n not in _graph_cache:
        _graph_cache[n] = G.connected_graphs(n)
    return _graph_cache[n]


@st.composite
def graph_case(draw, shard, tier):
    d = D(draw)
    n = d.pick(3, 4, 5, 5, 5, 6, 6, 6)
    if n <= 5:
        gi = d.int(0, len(small_graphs(n)) - 1)
        edges = [list(e) for e in small_graphs(n)[gi]]
        relabel = G.nth_permutation(range(n), d.int(0, math.factorial(n) - 1))
        edges = [[relabel[a], relabel[b]] for a, b in edges]
    else:
        tree = G.prufer_decode([d.int(0, n - 1) for _ in range(n - 2)], n)
        have = {tuple(sorted(e)) for e in tree}
        rest = [p for p in itertools.combinations(range(n), 2) if p not in have]
        extra = [p for p in rest if d.int(0, 3) == 0]
        edges = [list(e) for e in tree] + [list(e) for e in extra]
    m = len(edges)
    keys = [d.int(0, 999) for _ in range(m)]
    flips = [d.coin() for _ in range(m)]
    dup = [d.int(0, m - 1) for _ in range(d.pick(0, 0, 1, 2))]
    return dict(n=n, edges=edges, keys=keys, flips=flips, dup=dup, lonely=d.coin(), by_object=d.coin())


def check_graph_case(case):
    n = case["n"]
    edges = case["edges"]
    order = sorted(range(len(edges)), key=lambda j: (case["keys"][j], j))
    seq = [tuple(edges[j][::-1]) if case["flips"][j] else tuple(edges[j]) for j in order]
    # a link inserted a second time (possibly the other way round), somewhere later in the history
    for j in case["dup"]:
        a, b = edges[j]
        pos = order.index(j) + 1 + (case["keys"][j] % (len(seq) - order.index(j)))
        seq.insert(min(pos, len(seq)), (b, a) if case["keys"][j] % 2 else (a, b))
    names = [str(i) for i in range(n)] + (["lonely"] if case["lonely"] else [])
    cyc = G.has_cycle(n, edges)
    nodes, adj = play(n, seq, names, tree=False, suspend=case.get("by_object", False))
    audit_final(nodes, names, adj, case["by_object"])
    return dict(nt=n >= 4, cls=[f"n={n}", "cyclic" if cyc else "tree", "dup" if case["dup"] else "simple"], ratio=0.0)


def cyclic_not_shortest(facet, case, kind, msg, data):
    """In a graph that contains a cycle at the moment of the failure, a route is a valid chain of
    existing links without repetition but longer than the shortest one.  Nothing else: invalid hops,
    loops, unreachable-but-connected, exceptions and any failure on a forest stay violations."""
    if facet != "graphs" or kind != "not-shortest" or "inserted" not in data:
        return False
    edges = {tuple(sorted(e)) for e in data["inserted"]}
    nmax = 1 + max(max(e) for e in edges)
    return G.has_cycle(nmax, sorted(edges))


FINDINGS = {"C20/cyclic-not-shortest": cyclic_not_shortest}


# ------------------------------------------------------------------ registrations

_proc = dict(counter=0, bodies=set())
# CIRF and GCRF are reached through the IAU-2010 series (12 ms per evaluation, not memoised): they
# appear in one recorded conversion each, not in the random picks
BUILTIN = ["EME2000", "MOD", "TOD", "TEME", "PEF", "ITRF", "TIRF", "G50"]


@st.composite
def reg_case(draw, shard, tier):
    d = D(draw)
    ops = []
    for _ in range(d.int(2, 12)):
        kind = d.pick("station", "station", "orbit", "orbit", "attached", "attached", "attached", "body", "alias")
        if kind == "station":
            # how the 'user' hands the coordinates over: a fresh tuple, or one float ndarray object that is
            # re-used for later stations - unchanged, or rewritten in place with the new coordinates
            ops.append(dict(op="station", coords=d.pick("tuple", "array_reuse", "array_reuse", "array_rewrite"),
                            lat=d.u(-89.0, 89.0), lon=d.u(-180.0, 180.0), alt=d.u(0.0, 3000.0),
                            parent=d.pick("ITRF", "ITRF", "TIRF", "PEF"), equatorial=d.int(0, 5) == 0))
        elif kind == "orbit":
            ops.append(dict(op="orbit", epoch_off=d.pick(0.0, 0.0, 1e-6, -1e-6, 60.0, -600.0, 3600.0, 86400.0),
                            orientation=d.pick(None, "QSW", "TNW"), frame=d.pick("EME2000", "EME2000", "MOD", "TOD", "MOD", "EME2000", "TOD", "GCRF"),
                            parent=d.pick("EME2000", "EME2000", "MOD", "TOD"),
                            a=d.u(6.8e6, 4.3e7), e=d.u(0.0, 0.3), i=d.u(0.05, 3.0), raan=d.u(0, 6.2), argp=d.u(0, 6.2),
                            nu=d.u(0, 6.2),
                            # one in five: an orbit about another body, its local orbital frame declared with that
                            # body's frame as parent (probed at the orbit's own epoch)
                            about=d.pick(None, None, None, None, "Moon", "Sun"),
                            # one in three: the reference handed to orbit2frame is a TABLE of that orbit (an Ephem, 60 s
                            # nodes, held in `frame`) instead of the orbit itself
                            ref_as=d.pick("orbit", "orbit", "ephem")))
        elif kind == "attached":
            # a frame hanging off a frame generated earlier in the history (a station by preference):
            # the reference is a state vector / orbit EXPRESSED IN that frame, as a radar would give it
            ops.append(dict(op="attached", base=d.int(0, 999), prefer_station=d.int(0, 2) > 0,
                            ref=d.pick("sv", "sv", "sv_as_frame", "orbit"), orientation=d.pick(None, None, None, "QSW", "TNW"),
                            parent=d.pick("EME2000", "TOD"),
                            rel=[d.signed(1e3, 1e6) for _ in range(3)] + [d.signed(1.0, 3e3) for _ in range(3)],
                            point=[d.signed(1.0, 1e5) for _ in range(3)] + [d.signed(1e-2, 1e2) for _ in range(3)]))
        elif kind == "alias":
            # a frame under a new name that SHARES its orientation object with one frame and its centre with another
            ops.append(dict(op="alias", orient_of=d.int(0, 999), center_of=d.int(0, 999)))
        else:
            ops.append(dict(op="body", name=d.pick("Moon", "Sun")))
    # names of the new frames: one stem per history, then a separator and a small number, so that names
    # differing only by a non-identifier character ('K-1', 'K 1', 'K_1', 'K.1') meet in one history
    for o in ops:
        o["nm"] = [d.pick("-", " ", "_", ".", "/", "é", "Ω", "", ":", "+"), d.int(1, 2)]
    return dict(label=d.pick("UTC", "UTC", "TAI", "TT", "GPS", "UT1"), hold=d.pick("none", "copy()", "pickle", "deepcopy", "copy.copy"),
                ops=ops, sv=[d.u(-1.0, 1.0) * 7e6 for _ in range(3)] + [d.u(-1.0, 1.0) * 6e3 for _ in range(3)],
                day=d.int(53000, 58000), sec=d.int(0, 86399), picks=[d.int(0, 10**6) for _ in range(40)])


def graph_audit(root, what):
    """Routing invariants on one of beyond's own graphs: the model is its actual set of links."""
    nodes = [root]
    seen = {id(root)}
    for nd in nodes:
        for nb in nd.neighbors:
            if id(nb) not in seen:
                seen.add(id(nb))
                nodes.append(nb)
    index = {id(nd): i for i, nd in enumerate(nodes)}
    names = [nd.name for nd in nodes]
    if len(set(names)) != len(names):
        raise Violation("duplicate-name", f"{what} graph holds two nodes with one name: {sorted(names)}")
    adj = [[] for _ in nodes]
    nedges = 0
    for i, nd in enumerate(nodes):
        for nb in nd.neighbors:
            if nd not in nb.neighbors:
                raise Violation("asymmetric-link", f"{what} graph: {nd.name} lists {nb.name} as neighbour but not the reverse")
            adj[i].append(index[id(nb)])
            nedges += 1
    tree = nedges // 2 == len(nodes) - 1
    verify(nodes, names, adj, tree=tree, ctx=lambda: f"{what} graph ({len(nodes)} nodes)")
    return len(nodes)


def check_registrations(case):
    from beyond.dates import Date
    from beyond.env import solarsystem
    from beyond.frames import center, frames, orient
    from beyond.frames.stations import create_station
    from beyond.orbits import Orbit, StateVector
    from ..oracles import twobody as tb

    date = Date(case["day"], float(case["sec"]))
    if case.get("label", "UTC") != "UTC":
        date = date.change_scale(case["label"])       # same instant under another time-scale label
    sv0 = StateVector(case["sv"], date, "cartesian", "EME2000")
    sv_utc = StateVector(case["sv"], Date(case["day"], float(case["sec"])), "cartesian", "EME2000")
    known = list(BUILTIN) + sorted(_proc["bodies"])
    picks = iter(case["picks"] * 50)
    table = {}

    def conv(src, dst):
        """Probe state EME2000 -> src -> dst.  For every other pair the probe is HELD in spherical form, and
        the frames are named by their objects instead of their names."""
        alt = (len(src) + len(dst)) % 2 == 1
        if alt:
            a = sv0.copy(frame=frames.get_frame(src), form="spherical")
            return arr(a.copy(frame=frames.get_frame(dst))), arr(a)
        a = sv0.copy(frame=src)
        return arr(a.copy(frame=dst)), arr(a)

    def arr(sv):
        return np.array(sv.view(np.ndarray), dtype=float)

    def cloned(sv, how):
        import copy
        import pickle

        return {"none": lambda x: x, "copy()": lambda x: x.copy(), "pickle": lambda x: pickle.loads(pickle.dumps(x)),
                "deepcopy": copy.deepcopy, "copy.copy": copy.copy}[how](sv)

    held = []           # (state vector kept by the 'user', name of its frame, its numbers when it was made)

    def held_intact(what):
        """Conversion results held across registrations are untouched, still usable (also once cloned) and
        convert exactly like a fresh conversion of the probe."""
        for obj, fname, saved in held:
            if not np.array_equal(arr(obj), saved):
                raise Violation("held-result-changed", f"{what}: a state vector held in '{fname}' since before changed "
                                f"from {saved.tolist()} to {arr(obj).tolist()}")
            if obj.frame.name != fname or frames.get_frame(fname) is not obj.frame:
                raise Violation("held-result-frame", f"{what}: the held state vector is now in {obj.frame!r}")
            for tgt in ("EME2000", known[-1]):
                now = arr(cloned(obj, case.get("hold", "none")).copy(frame=tgt))
                fresh = arr(sv0.copy(frame=fname).copy(frame=tgt))
                if not np.array_equal(now, fresh):
                    raise Violation("held-result-differs", f"{what}: a state vector held in '{fname}' (clone: "
                                    f"{case.get('hold', 'none')}) converts to '{tgt}' as {now.tolist()}, a fresh conversion "
                                    f"of the same probe gives {fresh.tolist()}")

    def refused_atomically(what, name):
        """A conversion that cannot be made (target frame not connected to the graph) and a registration that is
        refused (unknown orientation) raise - and leave the state vector / the registries exactly as they were."""
        if "iso" not in _proc:
            _proc["iso"] = frames.Frame(f"VFiso{os.getpid() % 1000}", orient.EME2000, center.Center(f"VFisoC{os.getpid() % 1000}"))
        victim = sv0.copy(frame=name, form="spherical")
        before = arr(victim)
        try:
            victim.frame = _proc["iso"]
        except ValueError:
            pass
        else:
            raise Violation("unconnected-converted", f"{what}: '{name}' -> a frame whose centre is linked to nothing gave {arr(victim).tolist()}")
        # (the setter goes to cartesian form and back: the numbers may move by a rounding - exact atomicity
        #  is C15's subject; here the vector must still be the same point under the same labels)
        r_ = abs(before[0])
        v_ = math.sqrt(before[3] ** 2 + (before[0] * before[4] * math.cos(before[2])) ** 2 + (before[0] * before[5]) ** 2)
        # (a rate that is nearly zero moves by a rounding of the whole velocity: allowances follow the size of the vectors)
        allow = 1e-11 * np.array([r_, 1.0, 1.0, v_, v_ / r_, v_ / r_]) + 1e-300
        if not (np.all(np.abs(arr(victim) - before) <= allow) and victim.frame.name == name
                and victim.form.name == "spherical"):
            raise Violation("refusal-not-atomic", f"{what}: after the refused conversion the state vector is "
                            f"{arr(victim).tolist()} in {victim.frame.name}/{victim.form.name}, it was {before.tolist()} in {name}/spherical")
        nodes_before = (len(orient.EME2000.list), len(center.Earth.node.list), len(frames.dynamic))
        ghost = f"{name}?bad"
        try:
            orbit2frame_call(ghost, Orbit(case["sv"], date, "cartesian", "EME2000", "Kepler"), "XYZ", frames.get_frame("EME2000"))
        except ValueError:
            pass
        else:
            raise Violation("bad-orientation-accepted", f"{what}: orbit2frame(orientation='XYZ') was accepted")
        if (len(orient.EME2000.list), len(center.Earth.node.list), len(frames.dynamic)) != nodes_before or ghost in frames.dynamic:
            raise Violation("refusal-not-atomic", f"{what}: the refused orbit2frame('{ghost}', orientation='XYZ') left something "
                            f"registered (graph / registry sizes {nodes_before} -> "
                            f"{(len(orient.EME2000.list), len(center.Earth.node.list), len(frames.dynamic))})")

    def spellings_agree(what, name):
        """Name or object, for every API that takes a frame / centre / orientation."""
        fr_ = frames.get_frame(name)
        for other in ("EME2000", "ITRF", known[next(picks) % len(known)]):
            fo = frames.get_frame(other)
            by_name = arr(sv0.copy(frame=other).copy(frame=name))
            by_obj = arr(sv0.copy(frame=fo).copy(frame=fr_))
            if not np.array_equal(by_name, by_obj):
                raise Violation("name-vs-object", f"{what}: {other} -> {name} gives {by_name.tolist()} with names and "
                                f"{by_obj.tolist()} with Frame objects")
            c1 = np.asarray(fr_.center.convert_to(date, fo.center, fo.orientation), float)
            c2 = np.asarray(fr_.center.convert_to(date, fo.center.name, fo.orientation), float)
            o1 = np.asarray(fr_.orientation.convert_to(date, fo.orientation), float)
            o2 = np.asarray(fr_.orientation.convert_to(date, fo.orientation.name), float)
            if not (np.array_equal(c1, c2) and np.array_equal(o1, o2)):
                raise Violation("name-vs-object", f"{what}: Center.convert_to / Orientation.convert_to from '{name}' to "
                                f"'{other}' differ between the name and the object of the target")

    def record(k):
        for _ in range(k):
            src = known[next(picks) % len(known)]
            dst = known[next(picks) % len(known)]
            if (src, dst) not in table and len(table) < 20:
                table[(src, dst)] = conv(src, dst)[0]

    def scale_of(*vecs):
        return max(float(np.linalg.norm(v[:3])) for v in vecs), max(float(np.linalg.norm(v[3:])) for v in vecs)

    snaps = {}          # frame name -> (Center, copy of its offset when that is an array)
    generated = []      # (name, kind) of the frames registered by this history
    nconv = [0]

    def snapshot(fr):
        off = getattr(fr.center, "offset", None)
        if isinstance(off, np.ndarray):
            snaps[fr.name] = (fr.center, np.array(off, dtype=float, copy=True))

    def offsets_intact(what):
        """Direct aliasing detector: a conversion must never write into a stored offset."""
        for nm, (c, before) in snaps.items():
            now = np.asarray(c.offset, dtype=float)
            if not np.array_equal(now, before):
                raise Violation("offset-mutated", f"{what}: the stored offset of the center of '{nm}' changed from "
                                f"{before.tolist()} to {now.tolist()}", frame=nm)

    def table_intact(what, keys=None):
        for (src, dst) in (table if keys is None else keys):
            before = table[(src, dst)]
            now = conv(src, dst)[0]
            if not np.array_equal(now, before):
                raise Violation("pre-existing-changed", f"{what}: {src} -> {dst} of the same state changed from "
                                f"{before.tolist()} to {now.tolist()}", src=src, dst=dst)

    def after_conversion(what):
        """After every single conversion: every stored offset, and the recorded conversions that touch a
        generated frame (the latest 2; the whole table is compared after every
        registration and at the end - 30 x 2 conversions after each of ~250 conversions was 5 min a case)."""
        nconv[0] += 1
        offsets_intact(what)
        gen = {g[0] for g in generated}
        hot = [k for k in table if k[0] in gen or k[1] in gen][-2:]
        table_intact(what, hot)

    record(6)
    table[("EME2000", "GCRF")] = conv("EME2000", "GCRF")[0]
    table[("CIRF", "ITRF")] = conv("CIRF", "ITRF")[0]
    graph_audit(orient.EME2000, "orientation")
    graph_audit(center.Earth.node, "center")
    nreg = 0
    worst = 0.0
    depth = {}
    _proc["hist"] = _proc.get("hist", 0) + 1
    stem = f"K{os.getpid() % 1000}h{_proc['hist']}"
    used_names = set()
    user = dict(arr=None, uses=0)
    probes = {}

    def probe_keys():
        """A probe state between every pair of generated frames (every ordered pair while there are at most
        5 of them, then 12 drawn pairs) and between each of them and EME2000 / ITRF."""
        gens = [g[0] for g in generated]
        keys = [("EME2000", g) for g in gens] + [(g, "ITRF") for g in gens]
        if len(gens) <= 5:
            keys += [(a, b) for a in gens for b in gens if a != b]
        else:
            for _ in range(12):
                a, b = gens[next(picks) % len(gens)], gens[next(picks) % len(gens)]
                if a != b:
                    keys.append((a, b))
        return keys

    for step, op in enumerate(case["ops"]):
        _proc["counter"] += 1
        if "nm" in op:
            sep, num = op["nm"]
            name = f"{stem}{sep}{num}"
            while name in used_names:
                name = f"{name}{sep}{len(used_names)}"
            used_names.add(name)
        else:
            name = f"R{os.getpid() % 1000}x{_proc['counter']}"
        if op["op"] == "station":
            mode = op.get("coords", "tuple")
            if mode == "tuple":
                arg = (op["lat"], op["lon"], op["alt"])
            else:
                if user["arr"] is None or mode == "array_rewrite":
                    if user["arr"] is None:
                        user["arr"] = np.zeros(3)
                    user["arr"][:] = [op["lat"], op["lon"], op["alt"]]
                arg = user["arr"]
                user["uses"] += 1
            given = np.array(arg, dtype=float, copy=True)
            fr = create_station(name, arg, parent_frame=frames.get_frame(op["parent"]), equatorial=op["equatorial"])
            if mode != "tuple" and not np.array_equal(np.asarray(arg, float), given) and user.get("modified") is None:
                # C11 owns 'arguments are not modified'; it is only reported here at the end of the history,
                # if the conversions among pre-existing frames - this property's clause - did not object first
                user["modified"] = (f"create_station('{name}', <float ndarray>) rewrote the caller's array from "
                                    f"{given.tolist()} to {np.asarray(arg, float).tolist()}")
        elif op["op"] == "orbit":
            mu = 3.986004418e14
            rv = tb.kep2cart(op["a"], op["e"], op["i"], op["raan"], op["argp"], op["nu"], mu)
            off = op.get("epoch_off", 0.0)
            if op.get("about"):
                if op["about"] not in _proc["bodies"]:
                    solarsystem.get_frame(op["about"])       # (a second call would re-register the name)
                    _proc["bodies"].add(op["about"])
                op = dict(op, frame=op["about"], parent=op["about"], epoch_off=0.0)
                off = 0.0
                # an orbit of the same shape about that body, sized for it
                mu_b = float(frames.get_frame(op["about"]).center.body.mu)
                rv = tb.kep2cart(op["a"] * (0.3 if op["about"] == "Moon" else 5000.0), op["e"], op["i"], op["raan"], op["argp"],
                                 op["nu"], mu_b)
            # the reference orbit is dated `off` seconds BEFORE the probe (0 = the probe is exactly at its epoch)
            orb = Orbit(rv.tolist(), date - __import__("datetime").timedelta(seconds=off) if off else date, "cartesian",
                        op["frame"], "Kepler")
            ref_obj = orb
            if op.get("ref_as") == "ephem":
                _td = __import__("datetime").timedelta
                span = (date - orb.date).total_seconds()
                ref_obj = orb.ephem(start=orb.date + _td(seconds=min(0.0, span) - 600.0),
                                    stop=orb.date + _td(seconds=max(0.0, span) + 600.0), step=_td(seconds=60))
            fr = orbit2frame_call(name, ref_obj, op["orientation"], frames.get_frame(op["parent"]))
            # absolute check (the relations below are all relative): the origin of the new frame is where the
            # oracle's two-body propagation puts the reference orbit at the probe date
            origin = arr(StateVector([0.0] * 6, date, "cartesian", name).copy(frame=op["frame"]))
            real_off = (date - orb.date).total_seconds()
            from beyond import constants

            want_o = tb.propagate_uv(rv, real_off, float(constants.Earth.mu))   # mu as the library defines it
            # (tolerance = accuracy of the library's Kepler propagator, C05's subject: its Kepler equation is solved
            #  to ~1e-8 rad - 0.15 m seen at 17 000 km; a frozen or misdated offset is off by kilometres)
            if (np.linalg.norm(origin[:3] - want_o[:3]) > 2e-7 * np.linalg.norm(want_o[:3]) * (1 if real_off else 1e-4) + 1e-6
                    or np.linalg.norm(origin[3:] - want_o[3:]) > 2e-7 * np.linalg.norm(want_o[3:]) * (1 if real_off else 1e-4) + 1e-9):
                raise Violation("frame-origin", f"orbit frame '{name}' ({op['orientation']}) whose reference orbit is dated "
                                f"{real_off} s before the probe: its origin is at {origin.tolist()} in {op['frame']}, two-body "
                                f"motion puts the orbit at {want_o.tolist()}")
            if op["orientation"] in ("QSW", "TNW"):
                # ... and its axes are those of THIS orbit (whatever other orbit frames were registered or served
                # before at this date): 1 km along the radius vector (QSW) / the velocity (TNW) of the frame's own
                # origin lands on the x axis, 1 km along its angular momentum on the z axis
                rr, vv = origin[:3], origin[3:]
                w_ = np.cross(rr, vv)
                w_ = w_ / np.linalg.norm(w_)
                x_ = (rr / np.linalg.norm(rr)) if op["orientation"] == "QSW" else (vv / np.linalg.norm(vv))
                for axis, vec in ((0, x_), (2, w_)):
                    pt_ = StateVector(list(rr + 1000.0 * vec) + list(vv), date, "cartesian", op["frame"]).copy(frame=name)
                    want_p = np.zeros(3)
                    want_p[axis] = 1000.0
                    miss = float(np.linalg.norm(arr(pt_)[:3] - want_p))
                    worst = max(worst, miss / 1e-3)
                    if not miss <= 1e-3:
                        raise Violation("frame-axes", f"orbit frame '{name}' ({op['orientation']}, registered at step {step}): a "
                                        f"point 1 km along the {'xyz'[axis]} axis of its own orbit lands at "
                                        f"{arr(pt_)[:3].tolist()} (off by {miss:.3g} m)")
        elif op["op"] == "attached":
            pool = [g for g in generated if g[1] == "station"] if op["prefer_station"] else []
            pool = pool or generated or [("ITRF", "builtin"), ("EME2000", "builtin")]
            base = pool[op["base"] % len(pool)][0]
            if op["ref"] == "orbit":
                ref = Orbit(op["rel"], date, "cartesian", base, "Kepler")
            else:
                ref = StateVector(op["rel"], date, "cartesian", base)
            kw = {}
            if op["orientation"]:
                kw = dict(orientation=op["orientation"], parent=frames.get_frame(op["parent"]))
            fr = ref.as_frame(name, **kw) if op["ref"] == "sv_as_frame" else orbit2frame_call(
                name, ref, op["orientation"], frames.get_frame(op["parent"]))
            depth[name] = depth.get(base, 0) + 1
        elif op["op"] == "alias":
            fo = frames.get_frame(known[op["orient_of"] % len(known)])
            fc = frames.get_frame(known[op["center_of"] % len(known)])
            fr = frames.Frame(name, fo.orientation, fc.center)
            depth[name] = depth.get(fc.name, 0)
        else:
            if op["name"] in _proc["bodies"]:
                continue  # a second call would re-register an existing name
            fr = solarsystem.get_frame(op["name"])
            _proc["bodies"].add(op["name"])
            name = op["name"]
        nreg += 1
        what = f"step {step}: after registering {op['op']} '{name}'"
        if frames.get_frame(name) is not fr:
            raise Violation("registry", f"{what}: get_frame('{name}') does not return the new frame")
        # 1. routing invariants of the two graphs the registration touched (first: a routing loop is
        #    reported deterministically here, whereas a conversion through it would never return)
        graph_audit(orient.EME2000, f"{what}: orientation")
        graph_audit(center.Earth.node, f"{what}: center")
        snapshot(fr)
        if op["op"] == "station":
            depth[name] = 1
        generated.append((name, op["op"]))
        # 2. conversions among frames that existed before: bit-identical; stored offsets untouched
        offsets_intact(what)
        table_intact(what)
        for (src, dst), before in probes.items():
            now = conv(src, dst)[0]
            if not np.array_equal(now, before):
                raise Violation("pre-existing-changed", f"{what}: {src} -> {dst} of the same state changed from "
                                f"{before.tolist()} to {now.tolist()}", src=src, dst=dst)
        known.append(name)
        held_intact(what)
        spellings_agree(what, name)
        known.pop()
        refused_atomically(what, name)
        if case.get("label", "UTC") != "UTC":
            # same instant, other time-scale label: the new frame is where it was under UTC
            lab = arr(sv0.copy(frame=name))
            utc = arr(sv_utc.copy(frame=name))
            sr, sv_ = scale_of(lab, utc, arr(sv0))
            if (np.linalg.norm(lab[:3] - utc[:3]) > 1e-10 * sr + 1e-4 or np.linalg.norm(lab[3:] - utc[3:]) > 1e-10 * sv_ + 1e-7):
                raise Violation("label-dependent", f"{what}: the probe dated {date} converts to '{name}' as {lab.tolist()}, "
                                f"the same instant labelled UTC gives {utc.tolist()}")
        # 2b. a point given in the new frame goes into every orientation family - Earth-fixed, inertial,
        #     the frame it hangs off and the other generated frames - and after EVERY single conversion
        #     the pre-existing conversions and the stored offsets are still what they were
        if op["op"] in ("attached", "station", "orbit", "alias"):
            pt = StateVector(op.get("point", [1000.0, -2000.0, 500.0, 1.0, 2.0, -3.0]), date, "cartesian", name)
            targets = ["WGS84" if step % 3 == 2 else "ITRF", "PEF", "TIRF", "EME2000"]
            targets.append(generated[-2][0] if len(generated) > 1 and step % 2 else "TOD")
            if op["op"] == "attached":
                targets.insert(0, base)
            for tgt in targets:
                out = pt.copy(frame=tgt)
                after_conversion(f"{what}, then converting a point from '{name}' to '{tgt}'")
                back = np.asarray(out.copy(frame=name).base, float)
                nconv[0] += 1
                offsets_intact(f"{what}, then converting a point from '{tgt}' to '{name}'")
                mid = np.asarray(out.base, float)
                if not (np.all(np.isfinite(mid)) and np.all(np.isfinite(back))):
                    raise Violation("non-finite", f"{what}: '{name}' -> '{tgt}' gives {mid.tolist()}")
                sr, sv_ = scale_of(mid, np.asarray(pt.base, float), np.asarray(sv0.base, float))
                tol_r, tol_v = 1e-11 * sr + 1e-9, 1e-11 * sv_ + 1e-12 + 1e-3 * (1e-11 * sr + 1e-9)
                er = float(np.linalg.norm(back[:3] - np.asarray(pt.base, float)[:3]))
                ev = float(np.linalg.norm(back[3:] - np.asarray(pt.base, float)[3:]))
                worst = max(worst, er / tol_r, ev / tol_v)
                if er > tol_r or ev > tol_v:
                    raise Violation("round-trip", f"{what}: '{name}' -> '{tgt}' -> '{name}' is off by {er:.3g} m, "
                                    f"{ev:.3g} m/s (tol {tol_r:.3g}, {tol_v:.3g})", old=tgt)
        # 3. the new frame converts to and from old ones consistently
        for _ in range(4):
            old = known[next(picks) % len(known)]
            start_sv = sv0.copy(frame=old)
            there, start = arr(start_sv.copy(frame=name)), arr(start_sv)
            back = np.asarray(StateVector(there, date, "cartesian", name).copy(frame=old).base, float)
            via = np.asarray(sv0.copy(frame=name).base, float)
            if not (np.all(np.isfinite(there)) and np.all(np.isfinite(back))):
                raise Violation("non-finite", f"{what}: {old} -> {name} gives {there.tolist()}")
            sr, sv_ = scale_of(start, there, np.asarray(sv0.base, float))
            tol_r, tol_v = 1e-11 * sr + 1e-9, 1e-11 * sv_ + 1e-12 + 1e-3 * (1e-11 * sr + 1e-9)
            er = float(np.linalg.norm(back[:3] - start[:3]))
            ev = float(np.linalg.norm(back[3:] - start[3:]))
            dr = float(np.linalg.norm(there[:3] - via[:3]))
            dv = float(np.linalg.norm(there[3:] - via[3:]))
            worst = max(worst, er / tol_r, ev / tol_v, dr / tol_r, dv / tol_v)
            if er > tol_r or ev > tol_v:
                raise Violation("round-trip", f"{what}: {old} -> {name} -> {old} is off by {er:.3g} m, {ev:.3g} m/s "
                                f"(tol {tol_r:.3g}, {tol_v:.3g})", old=old)
            if dr > tol_r or dv > tol_v:
                raise Violation("path-dependent", f"{what}: EME2000 -> {old} -> {name} differs from EME2000 -> {name} by "
                                f"{dr:.3g} m, {dv:.3g} m/s (tol {tol_r:.3g}, {tol_v:.3g})", old=old)
        known.append(name)
        # new recorded conversions favour the generated frames (stations above all)
        for g in generated[-3:]:
            for other in ("ITRF", "EME2000"):
                if len(table) < 20:
                    table.setdefault((other, g[0]), conv(other, g[0])[0])
        record(2)
        probes = {k: conv(*k)[0] for k in probe_keys()}
        h_ = sv0.copy(frame=name if step % 2 else known[next(picks) % len(known)])
        held.append((h_, h_.frame.name, arr(h_)))
        del held[:-3]
    if len(known) > len(BUILTIN):
        held_intact("at the end of the history")
    offsets_intact("at the end of the history")
    table_intact("at the end of the history")
    if user.get("modified"):
        raise Violation("argument-modified", user["modified"])
    dmax = max(depth.values(), default=0)
    return dict(nt=nreg >= 1, cls=[f"regs:{min(nreg, 12) // 4 * 4}+", f"depth:{min(dmax, 3)}"]
                + (["near-colliding-names"] if len({__import__("re").sub(r"\W", "_", x) for x in used_names}) < len(used_names) else [])
                + (["shared-array"] if user["uses"] > 1 else []) + ["date:" + case.get("label", "UTC"), "hold:" + case.get("hold", "none")]
                + sorted({op["op"] for op in case["ops"]}), ratio=worst)


def orbit2frame_call(name, orb, orientation, parent):
    from beyond.frames.frames import orbit2frame

    return orbit2frame(name, orb, orientation=orientation, parent=parent)


# ------------------------------------------------------------------ registry


def _setup(shard):
    from .. import env

    env.eop("missing-pass")


FACETS = [
    Facet("trees_exhaustive", None, check_tree_case, runner=run_trees, setup=_setup,
          rule=">= 4 nodes; a case = one tree x one insertion order x all 2^(n-1) orientations",
          quick=(16, 0), thorough=(16, 0)),
    Facet("trees_labelled_random", lab_case, check_lab_case, setup=_setup,
          rule="every case (7 or 8 nodes with drawn names)", quick=(6, 400), thorough=(16, 4000)),
    Facet("graphs", graph_case, check_graph_case, setup=_setup,
          rule=">= 4 nodes", quick=(8, 500), thorough=(16, 5000)),
    Facet("registrations", reg_case, check_registrations, setup=_setup,
          rule="at least one registration between two conversions", quick=(16, 4), thorough=(32, 12),
          shrink_quick=False, case_timeout=300),
]
