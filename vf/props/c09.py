"""C09 - ephemeris interpolation is exact at nodes and accurate between them.

Two levels are exercised with the same oracles: `Interp` directly (abscissae are plain floats)
and `Ephem` (abscissae are the float MJD of `Date`s, values are StateVector rows).

What "the right value" is:
  * at a node: the stored row, bit for bit;
  * Lagrange, order k: the value of the polynomial of degree < k through k *consecutive* nodes
    that contain the query's interval (any such window is accepted - the property promises
    interpolation, not a particular centring), evaluated in extended precision;
  * linear: the chord of the bracketing interval.
"""

import math
import os

import numpy as np
from hypothesis import strategies as st

from ..core import Facet, Violation
from ..gen.draws import D
from ..oracles import lagrange as lg
from ..oracles import twobody as tb

RULE = ("Tables drawn as (n, order, start, spacing, per-node jitter <= 30 % of the spacing), queries "
        "as (interval index, fraction) or (node, +-ulps / +-microseconds); table values are "
        "polynomials evaluated in extended precision, random rows, or Kepler states from the "
        "oracle's universal-variable propagator (never the library's).")
ASSUMPTIONS = [
    "oracle: barycentric Lagrange / Lebesgue function / Cauchy remainder in vf/oracles/lagrange.py; "
    "Kepler truth from vf/oracles/twobody.py; k-th derivative of the orbit from Steffensen's two-body "
    "Taylor recurrences, maximised over the nodes of every admissible window",
    "any window of k consecutive nodes containing the query's interval is accepted as 'the' Lagrange "
    "interpolant of order k",
    "Ephem level: a polynomial trajectory is a polynomial of the date's float MJD (the abscissa the "
    "ephemeris stores); against physical truth (accuracy facet) the 0.63 us resolution of that float "
    "is allowed for as (1 + Lebesgue) * speed * half-ulp, a rigorous first-order bound, times 2",
    "accuracy: eccentric orbits (e up to 0.75) are sampled at <= 1/100 of the perigee-local period "
    "2 pi sqrt(rp^3 / (mu (1+e))); steps between P/100 and P/30 only for e <= 0.1",
    "EOP configuration missing-pass (UTC == TAI): interpolation does not depend on the time scale",
    "dates 'just outside' are >= 1 microsecond outside (closer ones are the same float MJD)",
]
LEVEL_TEXT = "exploration"
LEVEL_NOTE = ("random search over table shapes, orders 2..12, both methods, both levels; node queries "
              "enumerate every node of each drawn table")
TECHNIQUE = "property-based testing (Hypothesis) against an extended-precision barycentric oracle"

EPS = lg.EPS
EPS32 = float(np.finfo(np.float32).eps)
MU = 3.986004418e14
FRAMES = ["EME2000", "TOD", "MOD", "TEME", "ITRF", "GCRF"]
FORMS = ["cartesian", "keplerian", "spherical", "equinoctial", "keplerian_mean"]


# ------------------------------------------------------------------ tables


def table(d, level, order=None, nmin=None, nmax=40, warp=False):
    """Shape of a table; values are added by the facets.  warp=True: a third of the tables are sampled at a step
    that grows along the table (last step up to twice the first) or at two rates (a range of dates followed by one at
    2-3 times the step, the example of the iter() docstring): locally mild, but the nodes leave the uniform grid
    first + k x mean step by several steps."""
    if order is None:
        order = d.int(2, 12) if d.coin() else d.pick(2, 3, 8, 11, 12)
    lo = order if nmin is None else nmin
    n = d.int(lo, min(nmax, lo + 2)) if d.int(0, 2) == 0 else d.int(lo, max(lo, nmax))
    jit = [d.grid(-0.3, 0.3, 600) for _ in range(n)] if d.coin() else []
    t = dict(level=level, order=order, n=n, jit=jit)
    if warp and d.int(0, 2) == 0:
        if d.coin():
            t["warp"] = dict(kind="grow", g=d.u(0.2, 1.0))
        else:
            t["warp"] = dict(kind="two-rate", m=d.int(1, max(1, n - 2)), r=d.pick(2.0, 3.0, 1.0 / 3.0, 2.5))
        t["jit"] = [0.5 * j for j in jit]
    if level == "interp":
        t["x0"] = d.pick(0.0, 58000.0, -1.0) if d.int(0, 3) == 0 else d.u(-1e5, 1e5)
        t["h"] = 10 ** d.u(-4.0, 3.0)
    else:
        t["d0"] = d.int(45000, 62000)
        t["s0"] = d.pick(0.0, 86399.0, 43200.0) if d.int(0, 3) == 0 else d.u(0, 86399.999)
        t["h"] = d.pick(60.0, 180.0, 1.0) if d.int(0, 3) == 0 else d.u(0.5, 900.0)
    return t


def split(d0, s):
    """(integer day, seconds in [0, 86400)) of d0 + s seconds."""
    k = math.floor(s / 86400.0)
    return d0 + k, s - 86400.0 * k


def abscissae(t):
    """Float abscissae the library will see, and for the Ephem level the (d, s) pairs of the dates."""
    n, h = t["n"], t["h"]
    jit = t["jit"] or [0.0] * n
    w = t.get("warp")

    def at(i):
        """position of node i in units of the nominal step (jitter scaled by the local step)"""
        if not w:
            return i + jit[i]
        if w["kind"] == "grow":
            return i + w["g"] * i * i / (2.0 * max(1, n - 1)) + jit[i] * 1.0
        return (i + jit[i]) if i <= w["m"] else (w["m"] + w["r"] * (i - w["m"]) + jit[i] * min(1.0, w["r"]))

    if t["level"] == "interp":
        xs = np.array([t["x0"] + h * at(i) for i in range(n)])
        ds = None
    else:
        ds = [split(t["d0"], t["s0"] + h * at(i)) for i in range(n)]
        xs = np.array([d + s / 86400.0 for d, s in ds])
    if not np.all(np.diff(xs) > 0):
        raise RuntimeError("generator produced non-increasing abscissae")
    return xs, ds


def seconds(t, ds):
    """Node times in seconds since (d0, s0), as encoded by the (d, s) pairs."""
    return np.array([(d - t["d0"]) * 86400.0 + (s - t["s0"]) for d, s in ds])


def query(d, n):
    """Where to evaluate: an interval + fraction, or a node + a tiny offset."""
    where = d.pick("first", "last", "second", "penult", "mid", "any", "any")
    i = {"first": 0, "last": n - 2, "second": 1, "penult": n - 3, "mid": (n - 2) // 2}.get(where)
    if i is None:
        i = d.int(0, max(0, n - 2))
    i = min(max(i, 0), max(0, n - 2))
    if d.int(0, 5) == 0:
        return dict(i=d.int(0, n - 1), off=d.pick(-3, -2, -1, 1, 2, 3))
    fr = d.pick(0.0, 1.0, 0.5, 1e-9, 1 - 1e-9, 1e-3) if d.int(0, 3) == 0 else d.u()
    return dict(i=i, f=fr)


def query_x(t, xs, ds, q):
    """Float abscissa of the query, and the (d, s) of its Date at the Ephem level."""
    n = len(xs)
    if t["level"] == "interp":
        if "off" in q:
            x = float(xs[q["i"] % n])
            for _ in range(abs(q["off"])):
                x = math.nextafter(x, math.inf if q["off"] > 0 else -math.inf)
            return x, None
        i = q["i"] % max(1, n - 1)
        x = float(xs[i] + q["f"] * (xs[i + 1] - xs[i]))
        return min(max(x, float(xs[i])), float(xs[i + 1])), None
    ts = seconds(t, ds)
    if "off" in q:
        tq = ts[q["i"] % n] + q["off"] * 1e-6
    else:
        i = q["i"] % max(1, n - 1)
        tq = ts[i] + q["f"] * (ts[i + 1] - ts[i])
    d, s = split(t["d0"], t["s0"] + tq)
    return d + s / 86400.0, (d, s)


# ------------------------------------------------------------------ building library objects


def make_date(d, s):
    from beyond.dates import Date

    date = Date(int(d), float(s))
    if date._mjd != d + s / 86400.0:
        raise RuntimeError("Date abscissa differs from d + s/86400 (EOP configuration not missing-pass?)")
    return date


def make_interp(xs, ys, method, order):
    from beyond.utils.interp import Interp

    return Interp(xs, ys, method, order)


def make_ephem(ds, ys, method, order, frame="EME2000", form="cartesian", perm=None):
    from beyond.orbits import Ephem, StateVector

    svs = [StateVector(list(map(float, y)), make_date(d, s), form, frame) for (d, s), y in zip(ds, ys)]
    if perm:
        order_ = sorted(range(len(svs)), key=lambda j: (perm[j % len(perm)], j))
        svs = [svs[j] for j in order_]
    return Ephem(svs, method=method, order=order)


def evaluate(t, obj, x, dsq):
    """Call the observation point; returns a float array."""
    if t["level"] == "interp":
        return np.asarray(obj(x), float)
    return np.asarray(obj.interpolate(make_date(*dsq)).base, float)


# ------------------------------------------------------------------ oracles


def lagrange_candidates(xs, ys, k, x):
    """[(start, value, cond)] for every admissible window; cond = sum |l_j||y_j| per component."""
    out = []
    for s in lg.admissible_windows(xs, k, x):
        w = slice(s, s + k)
        out.append((s, lg.bary_eval(xs[w], ys[w], x), lg.cond_sum(xs[w], ys[w], x)))
    return out


def linear_value(xs, ys, x):
    i = lg.brackets(xs, x)[0]
    x0, x1 = lg.LD(xs[i]), lg.LD(xs[i + 1])
    tt = (lg.LD(x) - x0) / (x1 - x0)
    y0, y1 = np.asarray(ys[i], lg.LD), np.asarray(ys[i + 1], lg.LD)
    return np.asarray(y0 + (y1 - y0) * tt, float), np.abs(ys[i]) + np.abs(ys[i + 1])


def fp_tol(k, cond, mag=0.0):
    """Rounding allowance of a k-term Lagrange evaluation (the rigorous bound is 2 k eps cond) plus
    the oracle's own extended-precision evaluation error (<= 30 * 2^-64 * mag = 0.007 eps mag)."""
    return 16 * k * EPS * cond + 0.02 * EPS * mag + 1e-300


def match_interpolant(xs, ys, method, k, x, got, what):
    """got must be the interpolant of some admissible window (or the chord). Returns worst ratio."""
    if not np.all(np.isfinite(got)):
        raise Violation("non-finite", f"{what}: {got.tolist()}")
    if method == "linear":
        want, scale = linear_value(xs, ys, x)
        tol = 32 * EPS * scale + 1e-300
        r = float(np.max(np.abs(got - want) / tol))
        if r > 1:
            raise Violation("linear-value", f"{what}: got {got.tolist()}, chord gives {want.tolist()} "
                                            f"({r:.3g} x tol)", ratio=r)
        return r
    best = math.inf
    for s, want, cond in lagrange_candidates(xs, ys, k, x):
        best = min(best, float(np.max(np.abs(got - want) / fp_tol(k, cond))))
    if best > 1:
        s, want, cond = lagrange_candidates(xs, ys, k, x)[0]
        raise Violation("lagrange-value", f"{what}: got {got.tolist()}; no window of {k} consecutive "
                                          f"nodes around the query gives it (nearest is {best:.3g} x tol; "
                                          f"first window gives {want.tolist()})", ratio=best)
    return best


def poly_table(t, xs, coeffs, lead=None):
    """Callable x-vector -> (len, ncomp) values of sum_m c_m tau^m, tau = (x - centre) / halfspan
    (+ lead['c'] * ((x - lead['at']) / lead['half'])^k), rounded once from extended precision."""
    centre = float(xs[len(xs) // 2])
    half = float(max(xs[-1] - centre, centre - xs[0], abs(t["h"])))
    c = np.asarray(coeffs, float)

    def p(x):
        v = lg.poly_eval(c, lg.scaled(x, centre, half), raw=True)
        if lead is not None:
            cl = np.zeros((lead["k"] + 1, c.shape[1]))
            cl[-1] = lead["c"]
            v = v + lg.poly_eval(cl, lg.scaled(x, lead["at"], lead["half"]), raw=True)
        return np.asarray(v, float)

    def mag(x):
        """sum |c_m tau^m|: the truth above carries an absolute error <= ~30 u_ld * mag(x)."""
        v = lg.poly_eval(np.abs(c), np.abs(lg.scaled(x, centre, half)), raw=True)
        if lead is not None:
            cl = np.zeros((lead["k"] + 1, c.shape[1]))
            cl[-1] = np.abs(lead["c"])
            v = v + lg.poly_eval(cl, np.abs(lg.scaled(x, lead["at"], lead["half"])), raw=True)
        return np.asarray(v, float)

    p.mag = mag
    return p


def unit_coeffs(d, deg, ncomp, scales):
    """Seed of a (deg+1, ncomp) array of generic values in [-1, 1] x scales.  Only the seed is drawn
    (two numbers): drawing up to 72 coefficients one by one made generation 5 x dearer than the
    check, and the particular values are immaterial as long as they are generic."""
    return dict(u=d.grid(0.0, 1.0, 999), v=d.grid(0.0, 1.0, 999), rows=deg + 1, scales=scales)


def expand(seed):
    """Deterministic expansion of a coefficient seed: a golden-ratio Weyl sequence through cos."""
    n, sc = seed["rows"], seed["scales"]
    j = np.arange(n * len(sc)).reshape(n, len(sc))
    phase = seed["u"] + j * 0.6180339887498949 + seed["v"] * (j % 7)
    return np.cos(2 * math.pi * phase) * np.asarray(sc, float)


def comp_scales(d, level, ncomp):
    if level == "ephem":
        return [7e6, 7e6, 7e6, 7e3, 7e3, 7e3]
    return [10.0 ** d.int(-3, 7) for _ in range(ncomp)]


def shape(ys, ncomp):
    """1-D tables are passed as 1-D ys."""
    return ys[:, 0] if ncomp == 1 else ys


def qclass(xs, x):
    """Where a query falls: on a node, in the first / last interval, or inside."""
    if x in xs:
        return "q:node"
    i = lg.brackets(xs, x)[0]
    return "q:first" if i == 0 else "q:last" if i == len(xs) - 2 else "q:interior"


def tclasses(t, extra=()):
    c = [f"level:{t['level']}", "odd-order" if t["order"] % 2 else "even-order",
         "jittered" if t["jit"] else "uniform"] + (["warp:" + t["warp"]["kind"]] if t.get("warp") else [])
    if t["n"] == t["order"]:
        c.append("n==order")
    return c + list(extra)


# ------------------------------------------------------------------ node_exact


@st.composite
def node_case(draw, shard, tier):
    d = D(draw)
    level = d.pick("interp", "ephem")
    t = table(d, level, nmax=24, warp=True)
    method = d.pick("lagrange", "lagrange", "linear")
    ncomp = 6 if level == "ephem" else d.pick(1, 6)
    scales = comp_scales(d, level, ncomp)
    kind = d.pick("poly", "random")
    if kind == "poly":
        vals = unit_coeffs(d, d.int(0, t["order"] - 1), ncomp, scales)
    else:
        vals = unit_coeffs(d, t["n"] - 1, ncomp, scales)  # one row per node
    return dict(t=t, method=method, ncomp=ncomp, kind=kind, vals=vals)


def node_values(case, xs):
    t = case["t"]
    if case["kind"] == "poly":
        return poly_table(t, xs, expand(case["vals"]))(xs)
    return expand(case["vals"])


def check_node_exact(case):
    t = case["t"]
    xs, ds = abscissae(t)
    ys = node_values(case, xs)
    k = t["order"]
    if t["level"] == "interp":
        obj = make_interp(xs, shape(ys, case["ncomp"]), case["method"], k)
    else:
        obj = make_ephem(ds, ys, case["method"], k)
    for j in range(t["n"]):
        got = evaluate(t, obj, float(xs[j]), ds[j] if ds else None)
        want = ys[j] if case["ncomp"] > 1 else ys[j, :1]
        got = np.atleast_1d(got)
        if not np.array_equal(got, want):
            bad = int(np.argmax(got != want))
            raise Violation(
                f"node-{case['method']}",
                f"{t['level']} {case['method']} order {k}: value at node {j} of {t['n']} is "
                f"{float(got[bad])!r}, the table holds {float(want[bad])!r} (diff {got[bad] - want[bad]:.3g})",
                node=j, method=case["method"])
    return dict(nt=True, cls=tclasses(t, [case["method"], case["kind"]]), ratio=0.0)


# ------------------------------------------------------------------ poly_reproduction


@st.composite
def poly_case(draw, shard, tier):
    d = D(draw)
    level = d.pick("interp", "interp", "ephem")
    t = table(d, level, warp=True)
    method = d.pick("lagrange", "lagrange", "lagrange", "linear")
    ncomp = 6 if level == "ephem" else d.pick(1, 6)
    scales = comp_scales(d, level, ncomp)
    if method == "lagrange":
        deg = t["order"] - 1 if d.coin() else d.int(0, t["order"] - 1)
        vals = unit_coeffs(d, deg, ncomp, scales)
    else:
        vals = unit_coeffs(d, t["n"] - 1, ncomp, scales)  # arbitrary rows = piecewise-linear data
    qs = [query(d, t["n"]) for _ in range(d.int(4, 8))]
    return dict(t=t, method=method, ncomp=ncomp, vals=vals, qs=qs)


def check_poly(case):
    t = case["t"]
    xs, ds = abscissae(t)
    k = t["order"]
    method = case["method"]
    if method == "lagrange":
        p = poly_table(t, xs, expand(case["vals"]))
        ys = p(xs)
    else:
        ys = expand(case["vals"])
    if t["level"] == "interp":
        obj = make_interp(xs, shape(ys, case["ncomp"]), method, k)
    else:
        obj = make_ephem(ds, ys, method, k)
    worst = 0.0
    nt = False
    qc = set()
    for q in case["qs"]:
        x, dsq = query_x(t, xs, ds, q)
        if not (xs[0] <= x <= xs[-1]):
            continue
        got = np.atleast_1d(evaluate(t, obj, x, dsq))
        if not np.all(np.isfinite(got)):
            raise Violation("non-finite", f"{got.tolist()} at x={float(x)!r}")
        if method == "linear":
            worst = max(worst, match_interpolant(xs, ys, method, k, x, got, f"x={float(x)!r}"))
        else:
            want = p([x])[0]
            cond = np.max([c for _, _, c in lagrange_candidates(xs, ys, k, x)], axis=0) + np.abs(want)
            tol = fp_tol(k, cond, p.mag([x])[0])
            r = float(np.max(np.abs(got - want) / tol))
            worst = max(worst, r)
            if r > 1:
                j = int(np.argmax(np.abs(got - want) / tol))
                raise Violation(
                    "poly-reproduction",
                    f"{t['level']} order {k}, n={t['n']}: polynomial of degree {case['vals']['rows'] - 1} "
                    f"not reproduced at x={float(x)!r}: got {float(got[j])!r}, exact {float(want[j])!r} ({r:.3g} x tol)",
                    ratio=r)
        qc.add(qclass(xs, x))
        if qclass(xs, x) in ("q:first", "q:last") or (x not in xs and (k % 2 or t["jit"])):
            nt = True
    return dict(nt=nt, cls=tclasses(t, [method] + sorted(qc)), ratio=worst)


# ------------------------------------------------------------------ window_remainder


@st.composite
def rem_case(draw, shard, tier):
    d = D(draw)
    t = table(d, "interp")
    ncomp = d.pick(1, 3)
    scales = [10.0 ** d.int(-2, 6) for _ in range(ncomp)]
    low = unit_coeffs(d, t["order"] - 1, ncomp, scales)
    lead = [d.pick(-1.0, 1.0) * d.u(0.25, 1.0) * sc for sc in scales]
    qs = [query(d, t["n"]) for _ in range(d.int(3, 6))]
    return dict(t=t, ncomp=ncomp, low=low, lead=lead, qs=qs)


def check_remainder(case):
    """Data = polynomial of degree exactly k: the error of a k-node interpolant is exactly
    lead * prod (x - x_j), which identifies the window the library used."""
    t = case["t"]
    xs, _ = abscissae(t)
    k = t["order"]
    worst = 0.0
    nt = False
    qc = set()
    for q in case["qs"]:
        x, _ = query_x(t, xs, None, q)
        if not (xs[0] <= x <= xs[-1]):
            continue
        i0 = lg.brackets(xs, x)[0]
        half = k * t["h"] / 2
        lead = dict(k=k, c=np.asarray(case["lead"], float), at=float(xs[i0]), half=half)
        p = poly_table(t, xs, expand(case["low"]), lead)
        ys = p(xs)
        obj = make_interp(xs, shape(ys, case["ncomp"]), "lagrange", k)
        got = np.atleast_1d(np.asarray(obj(x), float))
        want = p([x])[0]
        if not np.all(np.isfinite(got)):
            raise Violation("non-finite", f"{got.tolist()} at x={float(x)!r}")
        cands = lagrange_candidates(xs, ys, k, x)
        allowed = max(abs(lg.node_poly(xs[s:s + k], x)) for s, _, _ in cands) / half**k
        cond = np.max([c for _, _, c in cands], axis=0) + np.abs(want)
        err = np.abs(got - want)
        # exact mathematics (no margin needed) + rounding allowance; the ratio reported is the share
        # of the rounding allowance that was used
        exact = np.abs(lead["c"]) * allowed * (1 + 1e-9)
        r = float(np.max((err - exact) / fp_tol(k, cond, p.mag([x])[0])))
        worst = max(worst, r)
        if r > 1:
            raise Violation(
                "extrapolating-window",
                f"order {k}, n={t['n']}, x in interval {i0}: error {err.tolist()} of the degree-{k} "
                f"test polynomial exceeds the remainder |c| prod|x-x_j| = "
                f"{(np.abs(lead['c']) * allowed).tolist()} of every window containing the query",
                ratio=r)
        qc.add(qclass(xs, x))
        if x not in xs:
            nt = True
    return dict(nt=nt, cls=tclasses(t, sorted(qc)), ratio=worst)


# ------------------------------------------------------------------ accuracy (Kepler orbits)


@st.composite
def acc_case(draw, shard, tier):
    d = D(draw)
    cls = d.pick("nominal", "nominal", "loworder", "anyorder", "eccentric", "coarse")
    if cls == "nominal":
        order = 8
    elif cls == "coarse":
        order = d.pick(4, 6, 8, 8, 9)
    else:
        order = d.int(2, 5) if cls == "loworder" else d.int(2, 12)
    t = table(d, "ephem", order=order, warp=cls != "nominal")
    if cls == "eccentric":
        e = d.u(0.1, 0.75)
    else:
        e = d.u(0.0, 0.1) if d.coin() else d.u(0.0, 0.003)
    rp = (d.u(6.6e6, 8.0e6), d.u(6.6e6, 4.3e7), 42164e3)[d.int(0, 2)]
    a = rp / (1 - e)
    period = 2 * math.pi * math.sqrt(a**3 / MU)
    local = 2 * math.pi * math.sqrt(rp**3 / (MU * (1 + e)))
    if cls == "coarse":
        div = d.u(30.0, 100.0)
    else:
        div = 100.0 if d.int(0, 3) == 0 else d.u(100.0, 400.0)
    t["h"] = (local if cls == "eccentric" else period) / div
    el = dict(a=a, e=e, i=d.u(0.01, math.pi - 0.01), raan=d.u(0, 6.28), argp=d.u(0, 6.28), M=d.u(0, 6.28))
    qs = [dict(i=0, f=d.u(0.05, 0.95)), dict(i=t["n"] - 2, f=d.u(0.05, 0.95)),
          dict(i=(t["n"] - 2) // 2, f=d.u(0.05, 0.95)), query(d, t["n"])]
    return dict(t=t, el=el, cls=cls, qs=qs)


def check_accuracy(case):
    t = case["t"]
    el = case["el"]
    k = t["order"]
    xs, ds = abscissae(t)
    ts = seconds(t, ds)
    nu0 = tb.E2nu(tb.solve_kepler_E(el["M"], el["e"]), el["e"])
    rv0 = tb.kep2cart(el["a"], el["e"], el["i"], el["raan"], el["argp"], nu0, MU)
    ys = np.array([tb.propagate_uv(rv0, float(tt), MU) for tt in ts])
    obj = make_ephem(ds, ys, "lagrange", k)
    dk, dk1 = lg.kepler_deriv_norms(ys, MU, k)
    speed = np.linalg.norm(ys[:, 3:], axis=1)
    accel = MU / np.linalg.norm(ys[:, :3], axis=1) ** 2
    half_ulp = 0.5 * float(np.spacing(xs[-1])) * 86400.0
    worst = 0.0
    for q in case["qs"]:
        x, dsq = query_x(t, xs, ds, q)
        if not (xs[0] <= x <= xs[-1]):
            continue
        tq = (dsq[0] - t["d0"]) * 86400.0 + (dsq[1] - t["s0"])
        got = evaluate(t, obj, x, dsq)
        truth = tb.propagate_uv(rv0, tq, MU)
        if not np.all(np.isfinite(got)):
            raise Violation("non-finite", f"{got.tolist()}")
        starts = lg.admissible_windows(xs, k, x)
        lo, hi = starts[0], starts[-1] + k
        rem_r = rem_v = leb = 0.0
        for s in starts:
            prod = abs(float(np.prod(tq - ts[s:s + k])))
            rem_r = max(rem_r, dk[lo:hi].max() * prod / math.factorial(k))
            rem_v = max(rem_v, dk1[lo:hi].max() * prod / math.factorial(k))
            leb = max(leb, lg.lebesgue(xs[s:s + k], x))
        noise_r = 2 * (1 + leb) * speed[lo:hi].max() * half_ulp
        noise_v = 2 * (1 + leb) * accel[lo:hi].max() * half_ulp
        fp = fp_tol(k, leb)
        tol_r = 3 * rem_r + noise_r + fp * np.linalg.norm(truth[:3]) * 2
        tol_v = 3 * rem_v + noise_v + fp * np.linalg.norm(truth[3:]) * 2
        dr = float(np.linalg.norm(got[:3] - truth[:3]))
        dv = float(np.linalg.norm(got[3:] - truth[3:]))
        worst = max(worst, dr / tol_r, dv / tol_v)
        where = f"order {k}, n={t['n']}, step {t['h']:.4g} s, e={el['e']:.3g}, interval {lg.brackets(xs, x)[0]}"
        if dr > tol_r:
            raise Violation("accuracy-position", f"{where}: |dr| = {dr:.4g} m > {tol_r:.4g} m "
                            f"(3 x remainder {rem_r:.3g} + abscissa {noise_r:.3g})", dr=dr, tol=tol_r)
        if dv > tol_v:
            raise Violation("accuracy-velocity", f"{where}: |dv| = {dv:.4g} m/s > {tol_v:.4g} m/s",
                            dv=dv, tol=tol_v)
        if case["cls"] == "nominal" and dr > 0.10:
            raise Violation("accuracy-centimetres", f"{where}: |dr| = {dr:.4g} m, not centimetres", dr=dr)
    return dict(nt=True, cls=tclasses(t, [case["cls"]]), ratio=worst)


# ------------------------------------------------------------------ refusal


@st.composite
def refusal_case(draw, shard, tier):
    d = D(draw)
    level = d.pick("interp", "ephem")
    short = d.int(0, 3) == 0
    if short:
        order = d.int(2, 12)
        n = d.int(1, order - 1)
        t = table(d, level, order=order, nmin=n, nmax=n)
        method = "lagrange"
    else:
        t = table(d, level)
        method = d.pick("lagrange", "linear")
    out = []
    for _ in range(d.int(2, 5)):
        side = d.pick("below", "above")
        if d.coin():
            out.append(dict(side=side, units=d.pick(1, 2, 3)))
        else:
            out.append(dict(side=side, steps=10 ** d.u(-3.0, 1.7)))
    qs = [query(d, max(t["n"], 2)) for _ in range(d.int(2, 5))]
    return dict(t=t, method=method, short=short, out=out, qs=qs)


def outside_x(t, xs, ds, o):
    """An abscissa strictly outside the table: `units` = ulps (interp) / microseconds (ephem)."""
    sign = -1 if o["side"] == "below" else 1
    if t["level"] == "interp":
        edge = float(xs[0] if sign < 0 else xs[-1])
        if "units" in o:
            x = edge
            for _ in range(o["units"]):
                x = math.nextafter(x, sign * math.inf)
            return x, None
        return edge + sign * o["steps"] * t["h"], None
    ts = seconds(t, ds)
    edge = ts[0] if sign < 0 else ts[-1]
    tq = edge + sign * (o["units"] * 1e-6 if "units" in o else o["steps"] * t["h"])
    d, s = split(t["d0"], t["s0"] + tq)
    return d + s / 86400.0, (d, s)


def check_refusal(case):
    t = case["t"]
    xs, ds = abscissae(t)
    k = t["order"]
    n = t["n"]
    ys = np.cos(np.arange(n)[:, None] * 0.37 + np.arange(6)[None, :]) * 7e6
    if t["level"] == "interp":
        obj = make_interp(xs, ys, case["method"], k)
    else:
        obj = make_ephem(ds, ys, case["method"], k)

    def call(x, dsq):
        try:
            return evaluate(t, obj, x, dsq), None
        except ValueError as exc:
            return None, exc

    for o in case["out"]:
        x, dsq = outside_x(t, xs, ds, o)
        if xs[0] <= x <= xs[-1]:
            raise RuntimeError("outside query landed inside")
        got, exc = call(x, dsq)
        if exc is None:
            raise Violation("not-refused", f"{t['level']} {case['method']}: x={float(x)!r} outside "
                            f"[{float(xs[0])!r}, {float(xs[-1])!r}] returned {got.tolist()} instead of ValueError",
                            side=o["side"])
    inside = [(float(xs[0]), ds[0] if ds else None), (float(xs[-1]), ds[-1] if ds else None)]
    if n >= 2:
        for q in case["qs"]:
            x, dsq = query_x(t, xs, ds, q)
            if xs[0] <= x <= xs[-1]:
                inside.append((x, dsq))
    for x, dsq in inside:
        got, exc = call(x, dsq)
        if case["short"]:
            if exc is None:
                raise Violation("short-table-accepted", f"{n} nodes, order {k}: x={float(x)!r} returned "
                                f"{got.tolist()} instead of ValueError")
        elif exc is not None:
            raise Violation("inside-refused", f"{t['level']} {case['method']} order {k}, n={n}: "
                            f"x={float(x)!r} inside [{float(xs[0])!r}, {float(xs[-1])!r}] raised ValueError({exc})")
        elif not np.all(np.isfinite(got)):
            raise Violation("non-finite", f"{got.tolist()} at x={float(x)!r}")
    return dict(nt=True, cls=tclasses(t, ["short" if case["short"] else "n>=order", case["method"]]),
                ratio=0.0)


# ------------------------------------------------------------------ session (metadata, cached interpolator)


@st.composite
def session_case(draw, shard, tier):
    d = D(draw)
    order0 = d.pick(None, None, 2, 3, 5, 8, 12)
    method0 = d.pick(None, "lagrange", "linear")
    t = table(d, "ephem", order=order0 or 8, nmax=20)
    vals = unit_coeffs(d, t["n"] - 1, 6, [7e6, 7e6, 7e6, 7e3, 7e3, 7e3])
    smooth = d.coin()
    perm = [d.int(0, 1000) for _ in range(t["n"])] if d.coin() else []
    ops = []
    for _ in range(d.int(2, 8)):
        kind = d.pick("interp", "interp", "propagate", "order", "method")
        if kind == "order":
            ops.append(dict(op="order", k=d.int(2, min(12, t["n"] + 1))))
        elif kind == "method":
            ops.append(dict(op="method", m=d.pick("lagrange", "linear")))
        else:
            # twin: right after it, the SAME CLOCK READING is asked in another time scale (another instant, 19 .. 32 s away)
            ops.append(dict(op=kind, q=query(d, t["n"]), twin=d.int(0, 2) == 0))
    ops.append(dict(op="interp", q=query(d, t["n"]), twin=d.coin()))
    return dict(t=t, order0=order0, method0=method0, vals=vals, smooth=smooth, perm=perm,
                frame=d.pick(*FRAMES), form=d.pick(*FORMS), ops=ops)


def check_session(case):
    from beyond.orbits import StateVector

    t = case["t"]
    xs, ds = abscissae(t)
    n = t["n"]
    ys = expand(case["vals"])
    if case["smooth"]:
        # a smooth table (values vary slowly from node to node) as well as rough ones
        ys = np.cumsum(ys, axis=0) / 4
    eph = make_ephem(ds, ys, case["method0"], case["order0"], case["frame"], case["form"], case["perm"])
    method = case["method0"] or "lagrange"
    k = case["order0"] or 8
    if eph.method != method or eph.order != k:
        raise Violation("defaults", f"method/order are {eph.method}/{eph.order}, expected {method}/{k}")
    worst = 0.0
    changed = False
    for step, op in enumerate(case["ops"]):
        if op["op"] == "order":
            eph.order = k = op["k"]
            changed = True
            if eph.order != k:
                raise Violation("order-setter", f"order reads {eph.order} after being set to {k}")
            continue
        if op["op"] == "method":
            eph.method = method = op["m"]
            changed = True
            if eph.method != method:
                raise Violation("method-setter", f"method reads {eph.method} after being set to {method}")
            continue
        x, dsq = query_x(t, xs, ds, op["q"])
        date = make_date(*dsq)
        inside = xs[0] <= x <= xs[-1]
        fn = eph.interpolate if op["op"] == "interp" else eph.propagate
        try:
            res = fn(date)
        except ValueError as exc:
            if inside and not (method == "lagrange" and k > n):
                raise Violation("inside-refused", f"step {step}: {exc}")
            continue
        if not inside:
            raise Violation("not-refused", f"step {step}: date outside the table returned a value")
        if method == "lagrange" and k > n:
            raise Violation("short-table-accepted", f"step {step}: order {k} with {n} points returned a value")
        if not isinstance(res, StateVector):
            raise Violation("metadata-type", f"result is a {type(res).__name__}")
        if res.frame.name != case["frame"] or res.form.name != case["form"]:
            raise Violation("metadata-frame-form", f"step {step}: result in {res.frame.name}/{res.form.name}, "
                            f"table in {case['frame']}/{case['form']}")
        if res.date._mjd != x or res.date.scale.name != date.scale.name:
            raise Violation("metadata-date", f"step {step}: result dated {res.date}, query {date}")
        got = np.asarray(res.base, float)
        worst = max(worst, match_interpolant(xs, ys, method, k, x, got,
                                             f"step {step} ({method}, order {k}, changed={changed})"))
        other = (eph.propagate if op["op"] == "interp" else eph.interpolate)(date)
        if not np.array_equal(np.asarray(other.base, float), got):
            raise Violation("propagate-differs", f"step {step}: propagate and interpolate disagree")
        if op.get("twin"):
            from beyond.dates import Date

            for scale2 in ("TT", "GPS", "UTC"):
                if scale2 == date.scale.name:
                    continue
                twin = Date(date.d, date.s, scale=scale2)
                x2 = twin._mjd
                if x2 == x or not (xs[0] <= x2 <= xs[-1]):
                    continue
                got2 = np.asarray(eph.interpolate(twin).base, float)
                worst = max(worst, match_interpolant(xs, ys, method, k, x2, got2,
                                                     f"step {step}: {twin} asked right after {date} (same reading, other scale; "
                                                     f"{method}, order {k})"))
    # the table itself is untouched, sorted by date
    for j in range(n):
        if not np.array_equal(np.asarray(eph[j].base, float), ys[j]) or eph[j].date._mjd != xs[j]:
            raise Violation("table-mutated", f"row {j} changed or is out of order after the queries")
    return dict(nt=True, cls=tclasses(t, [f"frame:{case['frame']}", "shuffled" if case["perm"] else "sorted",
                                          "reconfigured" if changed else "fixed"]), ratio=worst)


# ------------------------------------------------------------------ variants (other spellings of one ephemeris)

SCALES = ["UTC", "TAI", "TT", "GPS", "TDB", "UT1"]
ORDER_SPELL = ["int", "np.int64", "np.int32", "positional"]
METHOD_SPELL = {"lagrange": ["lagrange", "Lagrange", "LAGRANGE", "const"], "linear": ["linear", "Linear", "LINEAR", "const"]}
CLONES = ["copy.copy", "copy.deepcopy", "pickle", "copy()", "ephem()"]


@st.composite
def variant_case(draw, shard, tier):
    """One ephemeris, spelled otherwise: dates carrying other time-scale labels (mixed inside the table
    and in the queries), table handed over as list / tuple / generator, order as a numpy integer or
    positionally, method in another case, the Ephem cloned (copy, deepcopy, pickle, copy(), ephem())
    before or after its first use, results overwritten in place by the caller and asked again,
    tables several days long."""
    d = D(draw)
    order = d.pick(2, 3, 4, 5, 7, 8, 12)
    t = table(d, "ephem", order=order, nmax=18)
    if d.int(0, 3) == 0:
        t["h"] = d.u(3600.0, 6 * 3600.0)    # tables of several days
    n = t["n"]
    method = d.pick("lagrange", "lagrange", "linear")
    labels = [d.pick(*SCALES) for _ in range(n)] if d.int(0, 2) else []
    ops = []
    for _ in range(d.int(3, 8)):
        kind = d.pick("query", "query", "query", "node", "scribble", "clone", "entry")
        if kind == "clone":
            ops.append(dict(op="clone", how=d.pick(*CLONES)))
        elif kind == "node":
            ops.append(dict(op="node", i=d.int(0, n - 1), label=d.pick(*SCALES)))
        elif kind == "scribble":
            ops.append(dict(op="scribble", how=d.pick("fill", "add", "base")))
        elif kind == "entry":
            ops.append(dict(op="entry", q=query(d, n), label=d.pick(*SCALES), tie=d.pick("none", "first", "last", "node")))
        else:
            ops.append(dict(op="query", q=query(d, n), label=d.pick(*SCALES) if d.coin() else "UTC"))
    ops.append(dict(op="query", q=query(d, n), label=d.pick(*SCALES)))
    return dict(t=t, method=method, vals=unit_coeffs(d, n - 1, 6, [7e6, 7e6, 7e6, 7e3, 7e3, 7e3]),
                labels=labels, container=d.pick("list", "tuple", "generator"), order_spell=d.pick(*ORDER_SPELL),
                method_spell=d.int(0, 3), frame=d.pick(*FRAMES), form=d.pick(*FORMS), ops=ops)


def labelled_date(d, s, label):
    """The instant of the UTC date (d, s), carrying another time-scale label."""
    date = make_date(d, s)
    return date if label == "UTC" else date.change_scale(label)


def build_variant(case, dates, ys):
    from beyond.orbits import Ephem, StateVector

    svs = [StateVector(list(map(float, y)), dt, case["form"], case["frame"]) for dt, y in zip(dates, ys)]
    k = case["t"]["order"]
    order = {"int": k, "np.int64": np.int64(k), "np.int32": np.int32(k), "positional": k}[case["order_spell"]]
    spell = METHOD_SPELL[case["method"]][case["method_spell"]]
    if spell == "const":
        spell = Ephem.LAGRANGE if case["method"] == "lagrange" else Ephem.LINEAR
    table_ = {"list": list, "tuple": tuple, "generator": iter}[case["container"]](svs)
    if case["order_spell"] == "positional":
        return Ephem(table_, spell, order), svs
    return Ephem(table_, method=spell, order=order), svs


def clone(eph, how):
    import copy
    import pickle

    if how == "copy.copy":
        return copy.copy(eph)
    if how == "copy.deepcopy":
        return copy.deepcopy(eph)
    if how == "pickle":
        return pickle.loads(pickle.dumps(eph))
    if how == "copy()":
        return eph.copy()
    return eph.ephem()


def vals_of(sv):
    """The six numbers of a state vector, whether it owns its buffer (deep copies do) or not."""
    return np.array(sv.view(np.ndarray), dtype=float)


def check_variant(case):
    t = case["t"]
    _, ds = abscissae(t)
    n = t["n"]
    k = t["order"]
    method = case["method"]
    ys = np.cumsum(expand(case["vals"]), axis=0) / 4
    labels = case["labels"] or ["UTC"] * n
    dates = [labelled_date(d_, s_, lb) for (d_, s_), lb in zip(ds, labels)]
    # abscissae = the instants of the dates (Date's TAI-based float MJD - C03 owns the time scales)
    xs = np.array([dt._mjd for dt in dates])
    if not np.all(np.diff(xs) > 0):
        raise RuntimeError("relabelled dates are not increasing")
    eph, svs = build_variant(case, dates, ys)
    if str(eph.method).lower() != method or eph.order != k:
        raise Violation("spelling", f"Ephem(..., method={METHOD_SPELL[method][case['method_spell']]!r}, order="
                        f"{case['order_spell']}({k})) reports method {eph.method!r}, order {eph.order!r}")
    worst = 0.0
    last = None
    cls = set()
    for step, op in enumerate(case["ops"]):
        if op["op"] == "clone":
            eph = clone(eph, op["how"])
            cls.add("clone:" + op["how"])
            if str(eph.method).lower() != method or eph.order != k or len(eph) != n:
                raise Violation("clone-settings", f"step {step}: the {op['how']} clone of an Ephem with method {method}, "
                                f"order {k}, {n} points has method {eph.method!r}, order {eph.order!r}, {len(eph)} points",
                                how=op["how"])
            continue
        if op["op"] == "scribble":
            if last is None:
                continue
            res, qdate, saved = last
            if op["how"] == "fill":
                res[:] = 12345.678
            elif op["how"] == "add":
                res += 1.0e3
            else:
                res.view(np.ndarray)[...] = -1.0
            cls.add("scribbled")
            again = vals_of(eph.interpolate(qdate))
            if not np.array_equal(again, saved):
                raise Violation("result-aliased", f"step {step}: after the caller overwrote a result in place, the "
                                f"same request gives {again.tolist()} instead of {saved.tolist()}")
            continue
        if op["op"] == "entry":
            # the other public ways to the same interpolation: the interpolator object itself, iter(dates=),
            # ephem(dates=) - also exactly at the first / last / a middle point of the table
            if op["tie"] == "none":
                _, dsq = query_x(t, np.array([d_ + s_ / 86400.0 for d_, s_ in ds]), ds, op["q"])
            else:
                dsq = ds[{"first": 0, "last": n - 1, "node": (op["q"]["i"] + 1) % n}[op["tie"]]]
            qdate = labelled_date(*dsq, op["label"])
            if not (xs[0] <= qdate._mjd <= xs[-1]):
                continue
            cls.add("entry:" + op["tie"])
            ref = vals_of(eph.interpolate(qdate))
            raw = np.array(eph.interp(qdate), dtype=float)
            it = [vals_of(o) for o in eph.iter(dates=[qdate, qdate])]
            sub = eph.ephem(dates=[qdate])
            sub_row = vals_of(sub[0])
            for name_, val in (("Ephem.interp(date)", raw), ("iter(dates=)[0]", it[0]), ("iter(dates=)[1]", it[1]),
                               ("ephem(dates=)[0]", sub_row)):
                if not np.array_equal(val, ref):
                    raise Violation("entry-point-differs", f"step {step}: {name_} at {qdate} gives {val.tolist()}, "
                                    f"interpolate() gives {ref.tolist()}", entry=name_)
            if sub[0].form.name != case["form"] or sub[0].frame.name != case["frame"] or sub[0].date._mjd != qdate._mjd:
                raise Violation("entry-point-metadata", f"step {step}: ephem(dates=) point is {sub[0].frame.name}/"
                                f"{sub[0].form.name} dated {sub[0].date}")
            worst = max(worst, match_interpolant(xs, ys, method, k, qdate._mjd, ref, f"step {step} (entry points)"))
            continue
        if op["op"] == "node":
            j = op["i"] % n
            qdate = labelled_date(*ds[j], op["label"])
        else:
            x_utc, dsq = query_x(t, np.array([d_ + s_ / 86400.0 for d_, s_ in ds]), ds, op["q"])
            qdate = labelled_date(*dsq, op["label"])
        x = qdate._mjd
        cls.add("q:" + op["label"])
        inside = xs[0] <= x <= xs[-1]
        try:
            res = eph.interpolate(qdate)
        except ValueError as exc:
            if inside:
                raise Violation("inside-refused", f"step {step}: {exc}")
            continue
        if not inside:
            raise Violation("not-refused", f"step {step}: date outside the table returned a value")
        if res.date._mjd != x or res.date.scale.name != qdate.scale.name:
            raise Violation("metadata-date", f"step {step}: result dated {res.date}, query {qdate}")
        if res.frame.name != case["frame"] or res.form.name != case["form"]:
            raise Violation("metadata-frame-form", f"step {step}: result in {res.frame.name}/{res.form.name}")
        got = vals_of(res)
        hit = np.nonzero(xs == x)[0]
        if len(hit):
            cls.add("node-other-label" if qdate.scale.name != labels[hit[0]] else "node-same-label")
            if not np.array_equal(got, ys[hit[0]]):
                raise Violation("node-relabelled", f"step {step}: the date of point {hit[0]} ({labels[hit[0]]}) asked as "
                                f"{qdate} returns {got.tolist()}, the table holds {ys[hit[0]].tolist()}")
        worst = max(worst, match_interpolant(xs, ys, method, k, x, got,
                                             f"step {step} ({method}, order {k}, labels {sorted(set(labels))}, query {op['label']})"))
        last = (res, qdate, got.copy())
    for j in range(n):
        if not np.array_equal(vals_of(eph[j]), ys[j]) or eph[j].date._mjd != xs[j]:
            raise Violation("table-mutated", f"row {j} changed or is out of order after the queries")
        if not np.array_equal(vals_of(svs[j]), ys[j]) or svs[j].date._mjd != xs[j]:
            raise Violation("argument-modified", f"the caller's point {j} changed")
    span = (xs[-1] - xs[0]) >= 1.0
    return dict(nt=True, cls=["mixed-labels" if case["labels"] else "utc-table", case["container"],
                              "order:" + case["order_spell"], ">=1day" if span else "<1day"] + sorted(cls), ratio=worst)


# ------------------------------------------------------------------ convert_in_place

CONV_FORMS = ["keplerian", "spherical", "equinoctial", "keplerian_mean", "cylindrical", "cartesian"]
CONV_FRAMES = ["TOD", "MOD", "TEME", "ITRF", "PEF", "EME2000"]


@st.composite
def inplace_case(draw, shard, tier):
    """The usage of the class docstring - `ephem.frame = ...; ephem.form = ...` - interleaved with things
    that read the ephemeris first: its settings, a copy, a sub-ephemeris, an OEM dump, an interpolation."""
    d = D(draw)
    order = d.pick(2, 3, 5, 8)
    n = d.int(order, order + 6)
    ops = []
    for _ in range(d.int(0, 3)):
        ops.append(dict(op=d.pick("read", "read", "copy()", "ephem()", "dump", "interp", "copy.copy", "pickle",
                                  "share_new", "share_copy", "share_new_used")))
    def retune():
        # the settings are changed on the live ephemeris (before or after its interpolator was first built)
        if d.coin():
            return dict(op="set_method", method=d.pick("lagrange", "linear"))
        return dict(op="set_order", order=d.pick(*[o for o in (2, 3, 4, 5, 6, 8) if o <= n]))

    if d.int(0, 2) == 0:
        ops.append(retune())
    for _ in range(d.int(1, 3)):
        ops.append(dict(op="set_form", form=d.pick(*CONV_FORMS)) if d.coin() else dict(op="set_frame", frame=d.pick(*CONV_FRAMES)))
        ops[-1]["on_clone"] = d.int(0, 2) == 0      # the conversion is made on the library's copy taken earlier (if any)
        for _ in range(d.int(0, 2)):
            ops.append(dict(op=d.pick("interp", "node", "read", "copy()", "dump")) if d.int(0, 4) else retune())
    ops += [dict(op="node"), dict(op="interp")]
    for o in ops:
        if o["op"] in ("interp", "node"):
            o.update(i=d.int(0, n - 2), f=d.u(0.05, 0.95))
    return dict(n=n, order=order, method=d.pick("lagrange", "lagrange", "linear"), h=d.u(30.0, 300.0),
                day=d.int(50000, 60000), sec=d.int(0, 86399),
                el=dict(a=d.u(6.8e6, 2.0e7), e=d.u(0.001, 0.3), i=d.u(0.2, 2.9), raan=d.u(0.1, 6.1), argp=d.u(0.1, 6.1),
                        nu=d.u(0.1, 6.1)), ops=ops)


def check_inplace(case):
    import copy
    import pickle

    from beyond.dates import Date
    from beyond.io import ccsds
    from beyond.orbits import Ephem, StateVector

    n, k, method = case["n"], case["order"], case["method"]
    el = case["el"]
    rv0 = tb.kep2cart(el["a"], el["e"], el["i"], el["raan"], el["argp"], el["nu"], MU)
    dates = [Date(case["day"], float(case["sec"])) + __import__("datetime").timedelta(seconds=case["h"] * j) for j in range(n)]
    svs = [StateVector(tb.propagate_uv(rv0, case["h"] * j, MU).tolist(), dt, "cartesian", "EME2000") for j, dt in enumerate(dates)]
    eph = Ephem(svs, method=method, order=k)
    xs = np.array([dt._mjd for dt in dates])
    form, frame = "cartesian", "EME2000"
    other = None
    clone = None
    worst = 0.0
    seen = []
    converted = False
    for step, op in enumerate(case["ops"]):
        kind = op["op"]
        seen.append(kind)
        if kind == "read":
            if str(eph.method).lower() != method or eph.order != k:
                raise Violation("settings", f"step {step}: method/order read {eph.method!r}/{eph.order!r}")
        elif kind in ("copy()", "ephem()", "copy.copy", "pickle"):
            c = {"copy()": lambda e: e.copy(), "ephem()": lambda e: e.ephem(), "copy.copy": copy.copy,
                 "pickle": lambda e: pickle.loads(pickle.dumps(e))}[kind](eph)
            if len(c) != n:
                raise Violation("clone-length", f"step {step}: {kind} has {len(c)} points")
            if kind != "copy.copy":
                # a copy made by the library (own points): it is kept, converted on its own later, and asked again
                clone = dict(eph=c, form=form, frame=frame, how=kind)
        elif kind in ("share_new", "share_new_used", "share_copy"):
            # a second ephemeris holding the SAME point objects (built from them, or a shallow copy)
            other = copy.copy(eph) if kind == "share_copy" else Ephem(list(eph), method=method, order=k)
            if kind == "share_new_used":
                other.interpolate(dates[0])
        elif kind == "dump":
            ccsds.dumps(eph)
        elif kind == "set_method":
            eph.method = method = op["method"]
        elif kind == "set_order":
            eph.order = k = op["order"]
        elif kind == "set_form":
            if op.get("on_clone") and clone is not None:
                clone["eph"].form = clone["form"] = op["form"]
            else:
                eph.form = form = op["form"]
            converted = True
        elif kind == "set_frame":
            if op.get("on_clone") and clone is not None:
                clone["eph"].frame = clone["frame"] = op["frame"]
            else:
                eph.frame = frame = op["frame"]
            converted = True
        else:
            # the table is what the points now hold (their conversion is C01 / C02's subject)
            ys = np.array([vals_of(eph[j]) for j in range(n)])
            if not np.all(np.isfinite(ys)):
                return dict(nt=False, cls=["degenerate-conversion"], ratio=0.0)
            if kind == "node":
                qd = dates[op["i"]]
            else:
                qd = dates[op["i"]] + __import__("datetime").timedelta(seconds=case["h"] * op["f"])
            # `other` holds the same point objects; what IT answers after its points were converted behind its
            # back through `eph` is not asked (an ephemeris does not claim to follow changes made to its points by
            # another owner - DESIGN section 7); it only has to leave `eph` undisturbed
            if clone is not None and kind == "node":
                # the library's own copy answers from ITS points, whatever happened to the other ephemeris since
                ce = clone["eph"]
                rc = ce.interpolate(qd)
                want_c = vals_of(ce[op["i"]])
                if rc.form.name != clone["form"] or rc.frame.name != clone["frame"] or ce[op["i"]].form.name != clone["form"]:
                    raise Violation("metadata-frame-form", f"step {step}: the {clone['how']} copy answers in {rc.frame.name}/"
                                    f"{rc.form.name}, it is in {clone['frame']}/{clone['form']}")
                if np.all(np.isfinite(want_c)) and not np.array_equal(vals_of(rc), want_c):
                    raise Violation("stale-table-copy", f"step {step}, after {' > '.join(seen)}: the {clone['how']} copy (in "
                                    f"{clone['frame']}/{clone['form']}) returns {vals_of(rc).tolist()} at the date of its point "
                                    f"{op['i']}, which holds {want_c.tolist()}")
            res = eph.interpolate(qd)
            if res.form.name != form or res.frame.name != frame:
                raise Violation("metadata-frame-form", f"step {step}: result in {res.frame.name}/{res.form.name}, the "
                                f"ephemeris is now in {frame}/{form}")
            got = vals_of(res)
            what = f"step {step}, after {' > '.join(seen)} (now {frame}/{form}, {method}, order {k})"
            if kind == "node" and not np.array_equal(got, ys[op["i"]]):
                raise Violation("stale-table", f"{what}: the date of point {op['i']} returns {got.tolist()}, that point "
                                f"holds {ys[op['i']].tolist()}")
            if form in ("cartesian",):
                worst = max(worst, match_interpolant(xs, ys, method, k, qd._mjd, got, what))
            else:
                # angles may wrap between neighbouring points: only the node clause and the linear chord apply
                # to such tables; check the components that do not wrap (the first one: a, r or rho)
                worst = max(worst, match_interpolant(xs, ys[:, :1], method, k, qd._mjd, got[:1], what))
    return dict(nt=converted, cls=[method, *(["shared-points"] if other is not None else []),
                                   *(["retuned"] if ("set_method" in seen or "set_order" in seen) else []), "read-before-set" if any(o in seen[:seen.index("set_form") if "set_form" in seen else len(seen)]
                                                                  for o in ("read", "copy()", "ephem()", "dump", "copy.copy", "pickle")) else "plain",
                                   "interp-before-set" if "interp" in seen[: min([seen.index(x) for x in ("set_form", "set_frame") if x in seen] or [0])] else "fresh"],
                ratio=worst)


# ------------------------------------------------------------------ raw_types (containers / dtypes of the raw interpolator)

XKINDS = ["f64", "list", "tuple", "int64", "pyint-list", "f32", "view"]
YKINDS = ["f64", "list", "int64", "f32", "view", "fortran"]


@st.composite
def raw_case(draw, shard, tier):
    d = D(draw)
    k = d.int(2, 8)
    n = d.int(k, 14)
    gaps = [d.int(1, 6) for _ in range(n)]
    return dict(n=n, order=k, method=d.pick("lagrange", "lagrange", "linear"), x0=d.int(-50, 50), gaps=gaps,
                ncomp=d.pick(1, 3), ys=[[d.int(-999, 999) for _ in range(3)] for _ in range(n)],
                xkind=d.pick(*XKINDS), ykind=d.pick(*YKINDS),
                qs=[dict(i=d.int(0, n - 2), e=d.int(0, 8), xt=d.pick("float", "np.float64", "np.float32", "int")) for _ in range(6)])


def check_raw(case):
    """Integer-valued abscissae and data, exactly representable in every dtype: whatever the container
    or dtype, the interpolant is the one of the float64 values (to float32 accuracy when float32 is
    involved), exact at the nodes, and the caller's objects are left alone."""
    n, k, method = case["n"], case["order"], case["method"]
    xi = np.cumsum([case["x0"]] + case["gaps"][: n - 1]).astype(np.int64)
    yi = np.array(case["ys"], np.int64)[:, : case["ncomp"]]
    if case["ncomp"] == 1:
        yi = yi[:, 0]
    # data in eighths (exact in float32 too) unless the dtype under test is an integer one
    xs64, ys64 = xi.astype(float), yi.astype(float) / (1.0 if case["ykind"] == "int64" else 8.0)
    xk, yk = case["xkind"], case["ykind"]
    big = np.zeros(2 * n)
    big[::2] = xs64
    xs_arg = {"f64": xs64.copy(), "list": xs64.tolist(), "tuple": tuple(xs64.tolist()), "int64": xi.copy(),
              "pyint-list": [int(v) for v in xi], "f32": xs64.astype(np.float32), "view": big[::2]}[xk]
    wide = np.zeros((n, 2 * max(1, yi.ndim and (yi.shape[1] if yi.ndim == 2 else 1))))
    if yi.ndim == 2:
        wide[:, ::2] = ys64
        yview = wide[:, ::2]
    else:
        w1 = np.zeros(2 * n)
        w1[::2] = ys64
        yview = w1[::2]
    ys_arg = {"f64": ys64.copy(), "list": ys64.tolist(), "int64": yi.copy(), "f32": ys64.astype(np.float32),
              "view": yview, "fortran": np.asfortranarray(ys64)}[yk]
    import copy as _copy

    keep_x, keep_y = _copy.deepcopy(xs_arg), _copy.deepcopy(ys_arg)
    f = make_interp(xs_arg, ys_arg, method, k)
    single = "f32" in (xk, yk)
    worst = 0.0
    for q in case["qs"]:
        i = q["i"]
        x = float(xs64[i] + (xs64[i + 1] - xs64[i]) * q["e"] / 8.0)
        if q["xt"] == "int" and x != int(x):
            x = float(xs64[i])
        xq = {"float": x, "np.float64": np.float64(x), "np.float32": np.float32(x), "int": int(x)}[q["xt"]]
        raw = f(xq)
        got = np.atleast_1d(np.array(raw, dtype=float))
        if not np.all(np.isfinite(got)):
            raise Violation("non-finite", f"xs {xk}, ys {yk}, x {q['xt']}: {got.tolist()}")
        if isinstance(raw, np.ndarray) and raw.ndim and raw.flags.writeable:
            # the caller overwrites the result in place and asks again
            raw[...] = 777.0
            again = np.atleast_1d(np.array(f(xq), dtype=float))
            if not np.array_equal(again, got):
                raise Violation("result-aliased", f"xs as {xk}, ys as {yk}: after the caller overwrote the result at "
                                f"x={x} in place, the same request gives {again.tolist()} instead of {got.tolist()}")
        if x in xs64:
            want = np.atleast_1d(ys64[list(xs64).index(x)])
            if not np.array_equal(got, want):
                raise Violation("node-dtype", f"xs as {xk}, ys as {yk}, x as {q['xt']}({x}): node value {got.tolist()}, "
                                f"the table holds {want.tolist()}")
            continue
        if method == "linear":
            want, scale = linear_value(xs64, ys64, x)
            tol = 32 * (EPS32 if single or q["xt"] == "np.float32" else EPS) * np.atleast_1d(scale) + 1e-300
            r = float(np.max(np.abs(got - np.atleast_1d(want)) / tol))
        else:
            r = math.inf
            for s_, want, cond in lagrange_candidates(xs64, ys64, k, x):
                tol = fp_tol(k, np.atleast_1d(cond)) * ((EPS32 / EPS) if single or q["xt"] == "np.float32" else 1.0)
                r = min(r, float(np.max(np.abs(got - np.atleast_1d(want)) / tol)))
        worst = max(worst, r)
        if r > 1:
            raise Violation("value-dtype", f"{method} order {k}: xs as {xk}, ys as {yk}, x as {q['xt']}({x}) gives "
                            f"{got.tolist()}, not the interpolant of the same numbers as float64 ({r:.3g} x tol)", ratio=r)
    same = lambda a, b: (np.array_equal(np.asarray(a), np.asarray(b)) and type(a) is type(b)
                         and getattr(a, "dtype", None) == getattr(b, "dtype", None))
    if not same(xs_arg, keep_x) or not same(ys_arg, keep_y):
        raise Violation("argument-modified", f"Interp changed the caller's xs ({xk}) or ys ({yk})")
    return dict(nt=True, cls=["xs:" + xk, "ys:" + yk, method], ratio=worst if not single else 0.0)


# ------------------------------------------------------------------ leap seconds (real EOP)


def leap_mjds():
    """MJD (0h UTC) of the days that start right after a leap second, 1973..2017, from tai-utc.dat."""
    from .. import env

    out = []
    with open(os.path.join(env.repo(), "tests", "data", "pole", "tai-utc.dat")) as fh:
        for line in fh:
            if line.strip():
                mjd = int(float(line.split()[4]) - 2400000.5)
                if 41700 <= mjd <= 57760:
                    out.append(mjd)
    return out[1:]


@st.composite
def leap_case(draw, shard, tier):
    d = D(draw)
    order = d.pick(2, 3, 5, 8)
    t = table(d, "ephem", order=order, nmax=16)
    t["h"] = d.pick(60.0, 300.0, 900.0) if d.coin() else d.u(130.0, 1200.0)
    return dict(t=t, leap=d.int(0, 99), where=d.pick("across", "across", "across", "before", "after", "year-turn"),
                shift=d.u(0.0, 1.0), method=d.pick("lagrange", "lagrange", "linear"),
                labels=[d.pick("UTC", "UTC", "TAI", "TT", "GPS", "UT1", "TDB") for _ in range(t["n"])] if d.coin() else [],
                vals=unit_coeffs(d, order - 1, 6, [7e6, 7e6, 7e6, 7e3, 7e3, 7e3]),
                qs=[dict(f=d.u(0.0, 1.0), label=d.pick(*SCALES)) for _ in range(d.int(3, 6))])


def check_leap(case):
    """Real IERS tables: an ephemeris whose UTC-labelled points straddle a leap second (or a plain
    midnight / turn of the year).  The data are a polynomial of the instant: an interpolator working on
    the labels' clock readings instead of the instants is 1 s (7 km) off on one side of the leap."""
    from beyond.dates import Date
    from beyond.orbits import Ephem, StateVector

    t = case["t"]
    n, k, h = t["n"], t["order"], t["h"]
    leaps = leap_mjds()
    day = leaps[case["leap"] % len(leaps)]
    if case["where"] == "year-turn":
        day = [m for m in (50083, 51544, 53371, 55562, 57388)][case["leap"] % 5]   # 1 January, no leap second
    jit = t["jit"] or [0.0] * n
    centre = {"across": n / 2, "before": n + 1, "after": -2, "year-turn": n / 2}[case["where"]]
    dates = []
    for i in range(n):
        tt = h * (i + jit[i] - centre + case["shift"])
        if abs(tt) < 120.0:                      # beyond documents no handling of the leap second itself
            tt = math.copysign(120.0 + abs(tt), tt if tt else 1.0)
        dd, ss = split(day, tt)
        date = Date(int(dd), float(ss))
        if case["labels"] and case["labels"][i] != "UTC":
            date = date.change_scale(case["labels"][i])
        dates.append(date)
    xs = np.array([dt._mjd for dt in dates])
    if not np.all(np.diff(xs) > 0):
        return dict(nt=False, cls=["degenerate"], ratio=0.0)
    p = poly_table(t, xs, expand(case["vals"]))
    ys = p(xs) if case["method"] == "lagrange" else expand(dict(case["vals"], rows=n))
    eph = Ephem([StateVector(list(map(float, y)), dt, "cartesian", "EME2000") for dt, y in zip(dates, ys)],
                method=case["method"], order=k)
    worst = 0.0
    for q in case["qs"]:
        x = float(xs[0] + q["f"] * (xs[-1] - xs[0]))
        # a date for that instant: TAI-labelled date of the same float MJD, relabelled
        qd = Date(int(math.floor(x)), float((x - math.floor(x)) * 86400.0), scale="TAI")
        if q["label"] != "TAI":
            qd = qd.change_scale(q["label"])
        xq = qd._mjd
        if not (xs[0] <= xq <= xs[-1]):
            continue
        got = np.asarray(eph.interpolate(qd).base, float)
        worst = max(worst, match_interpolant(xs, ys, case["method"], k, xq, got,
                                             f"table around MJD {day} ({case['where']}), query {qd}"))
    return dict(nt=case["where"] in ("across", "year-turn"), cls=[case["where"], "mixed" if case["labels"] else "utc"],
                ratio=worst)


def _setup_real(shard):
    from .. import env

    env.eop("real")


# ------------------------------------------------------------------ registry


def _setup(shard):
    from .. import env

    env.eop("missing-pass")


def linear_node_rounding(facet, case, kind, msg, data):
    """method='linear' evaluates y0 + (y1 - y0) * 1.0 at a node: off by a rounding of the previous row."""
    return facet == "node_exact" and kind == "node-linear" and case.get("method") == "linear"


FINDINGS = {"C09/linear-node-rounding": linear_node_rounding}

FACETS = [
    Facet("node_exact", node_case, check_node_exact, setup=_setup,
          rule="every case: all n nodes of the table are queried", quick=(8, 300), thorough=(16, 4000)),
    Facet("poly_reproduction", poly_case, check_poly, setup=_setup,
          rule="a query strictly between nodes in an edge interval, or odd order, or non-uniform nodes",
          quick=(12, 400), thorough=(24, 5000)),
    Facet("window_remainder", rem_case, check_remainder, setup=_setup,
          rule="a query strictly between nodes", quick=(8, 400), thorough=(16, 5000)),
    Facet("accuracy", acc_case, check_accuracy, setup=_setup,
          rule="every case: first, last and middle interval of a Kepler ephemeris + one drawn query",
          quick=(12, 300), thorough=(24, 2500)),
    Facet("refusal", refusal_case, check_refusal, setup=_setup,
          rule="every case: 2-5 abscissae outside, both ends and 2-5 drawn abscissae inside",
          quick=(6, 300), thorough=(12, 4000)),
    Facet("session", session_case, check_session, setup=_setup,
          rule="every case: 3-9 operations on one Ephem (queries, order / method changes)",
          quick=(8, 250), thorough=(16, 3500)),
    Facet("variants", variant_case, check_variant, setup=_setup,
          rule="every case: the same ephemeris under another spelling (labels, container, order type, clone, scribble)",
          quick=(8, 250), thorough=(16, 3000)),
    Facet("convert_in_place", inplace_case, check_inplace, setup=_setup,
          rule="a form / frame change in place happens between building the ephemeris and interpolating",
          quick=(6, 200), thorough=(12, 2000)),
    Facet("raw_types", raw_case, check_raw, setup=_setup,
          rule="every case: xs / ys / x handed over in another container or dtype",
          quick=(4, 400), thorough=(8, 4000)),
    Facet("leap_second", leap_case, check_leap, setup=_setup_real,
          rule="the table straddles a leap second or the turn of a year (real IERS tables)",
          quick=(4, 250), thorough=(8, 2500)),
]
