"""C08 - propagation / iteration contract; independence from call history.

A case is a history: {kind, init, ops: [{op, ...}]}.  The machine interprets the ops on ONE shared
orbit (or ephemeris) + propagator + two listener objects; after every op the model is consulted:
expected dates = model_range() (own list arithmetic) and every yielded state = a *fresh* direct
propagation (new propagator instance on a new object rebuilt from the case data).
"""

import math
from datetime import datetime, timedelta

import numpy as np
from hypothesis import strategies as st

from .. import env
from ..core import Facet, Violation
from ..gen import orbits as go
from ..oracles import twobody as tb

RULE = ("Histories of 2..7 calls (propagate / iter over (start,stop,step) / iter over explicit dates / "
        "ephem / iter with re-used listeners / re-binding the propagator to a copy / abandoning an "
        "iterator) on one shared orbit+propagator, per propagator kind.")
ASSUMPTIONS = [
    "model of the documented contract: Date.range(start, stop, step, inclusive=True) semantics written as list arithmetic",
    "state oracle = fresh propagator instance on a freshly rebuilt initial orbit (bit-exact for analytical propagators, "
    "<= 5 cm + Lagrange remainder for the numerical propagator whose output is re-sampled by interpolation)",
    "dates are compared to 1 microsecond",
]
LEVEL_TEXT = ("Model-based generation of call histories (operation sequences drawn by Hypothesis, interpreted on shared "
              "objects, invariant checked after every step) against a pure model of the iteration contract. Exploration only.")
TECHNIQUE = "model-based / stateful property-based testing (Hypothesis-generated call histories vs. a pure reference model)"

T0 = datetime(2015, 6, 1, 3, 0, 0)
KINDS = ["sgp4", "kepler", "j2", "none", "keplernum", "cw", "ephem"]
US = 10**6


def setup(shard):
    env.eop("missing-pass")


_LABELS = {"epoch": "UTC", "ops": "UTC"}
LABELS = ["UTC", "UTC", "UTC", "TT", "GPS", "TAI"]  # exact offsets: the same instants to the microsecond


def mkdate(us):
    """The instant T0 + us, written in the time scale this history uses for its epoch (us = 0) or for the
    dates of its requests: the instants are the same, so nothing may depend on it."""
    from beyond.dates import Date

    d = Date(T0 + timedelta(microseconds=int(us)))
    label = _LABELS["epoch" if us == 0 else "ops"]
    return d if label == "UTC" else d.change_scale(label)


def us_of(date):
    return round((date - mkdate(0)).total_seconds() * 1e6)


# ------------------------------------------------------------------ model


def model_range(start_us, stop_us, step_us):
    """First to last inclusive, none beyond stop, either direction (step sign follows the direction)."""
    if step_us == 0:
        raise ValueError
    step = abs(step_us) if stop_us >= start_us else -abs(step_us)
    out = []
    t = start_us
    if step > 0:
        while t <= stop_us:
            out.append(t)
            t += step
    else:
        while t >= stop_us:
            out.append(t)
            t += step
    return out


# ------------------------------------------------------------------ objects under test

TLE = """1 25544U 98067A   15152.12500000  .00016717  00000-0  10270-3 0  9004
2 25544  51.6416 247.4627 0006703 130.5360 325.0288 15.72125391563537"""


def tle_checksum(line):
    s = 0
    for ch in line[:68]:
        if ch.isdigit():
            s += int(ch)
        elif ch == "-":
            s += 1
    return str(s % 10)


def make_tle(init):
    """A valid TLE with the drawn inclination / eccentricity / mean motion; epoch = T0."""
    inc = init["inc_deg"]
    ecc = init["ecc7"]
    n = init["n_rev"]
    l1 = "1 25544U 98067A   15152.12500000  .00016717  00000-0  10270-3 0  900"
    l2 = "2 25544 %8.4f 247.4627 %07d 130.5360 325.0288 %11.8f56353" % (inc, ecc, n)
    return l1 + tle_checksum(l1) + "\n" + l2 + tle_checksum(l2)


def make_mans(init):
    """Maneuvers of the initial orbit, rebuilt from the case data (dates relative to the epoch)."""
    from beyond.orbits.man import ContinuousMan, ImpulsiveMan

    out = []
    for m in init.get("mans", []):
        if m["type"] == "imp":
            out.append(ImpulsiveMan(mkdate(m["t_us"]), m["dv"]))
        else:
            out.append(ContinuousMan(mkdate(m["t_us"]), timedelta(microseconds=m["dur_us"]), dv=m["dv"]))
    return out


def fresh_objects(case):
    """(object, propagator-factory) rebuilt from the case data only."""
    from beyond.orbits import Orbit

    kind = case["kind"]
    init = case["init"]
    if kind == "sgp4":
        from beyond.io.tle import Tle

        return Tle(make_tle(init)).orbit()
    if kind == "cw":
        from beyond.frames.frames import HillFrame
        from beyond.propagators.cw import ClohessyWiltshire

        HillFrame(init.get("orientation", "QSW"))
        prop = ClohessyWiltshire(init["sma"])
        o = Orbit(init["rel"], mkdate(0), "cartesian", "Hill", prop)
        if init.get("mans"):
            o.maneuvers = make_mans(init)
        return o
    el = init["el"]
    mu = go.MU_LIB()
    cart = tb.kep2cart(el["a"], el["e"], el["i"], el["raan"], el["argp"], el["nu"], mu)
    if kind == "kepler":
        from beyond.propagators.kepler import Kepler

        prop = Kepler()
    elif kind == "j2":
        from beyond.propagators.j2 import J2

        prop = J2()
    elif kind == "none":
        from beyond.propagators.none import NonePropagator

        prop = NonePropagator()
    elif kind == "keplernum":
        from beyond.env.solarsystem import get_body
        from beyond.propagators.keplernum import KeplerNum

        prop = KeplerNum(timedelta(seconds=init["h"]), get_body("Earth"), method="rk4")
    elif kind == "ephem":
        from beyond.orbits.ephem import Ephem
        from beyond.propagators.kepler import Kepler

        orb = Orbit(cart, mkdate(0), "cartesian", "EME2000", Kepler())
        pts = [orb.propagate(mkdate(k * init["h"] * US)) for k in range(init["npts"])]
        return Ephem(pts)
    else:
        raise ValueError(kind)
    if init.get("by_name") and kind in ("kepler", "j2", "none"):
        prop = {"kepler": "Kepler", "j2": "J2", "none": "NonePropagator"}[kind]  # the propagator given by its name
    o = Orbit(cart, mkdate(0), "cartesian", "EME2000", prop)
    if kind == "keplernum" and init.get("mans"):
        o.maneuvers = make_mans(init)
    if init.get("form", "cartesian") != "cartesian":
        o.form = init["form"]  # the initial orbit is given in another element form
    return o


def snapshot(obj):
    if hasattr(obj, "base") and not hasattr(obj, "_orbits"):
        return (np.array(obj.base, float).tobytes(), obj.form.name, obj.frame.name, us_of(obj.date),
                tuple((type(m).__name__, us_of(m.date), tuple(np.asarray(m._dv, float).tolist())) for m in obj.maneuvers), sorted(k for k in obj._data.keys() if k not in ("infos", "cov", "maneuvers", "event")))
    return tuple((np.array(o.base, float).tobytes(), o.form.name, o.frame.name, us_of(o.date)) for o in obj._orbits)


def cart(sv):
    v = np.asarray(sv.copy(form="cartesian").base, float)
    if not np.all(np.isfinite(v)):
        raise Violation("non-finite", str(v.tolist()))
    return v


class Machine:
    def __init__(self, case):
        self.case = case
        self.kind = case["kind"]
        self.obj = fresh_objects(case)
        self.snap = snapshot(self.obj)
        self.cache = {}
        self.numeric = self.kind == "keplernum"
        self.listeners = None
        if self.kind == "ephem":
            self.lo, self.hi = 0, (case["init"]["npts"] - 1) * case["init"]["h"] * US

    # --- oracle for states
    def fresh_obj(self):
        """A never-used object holding the initial orbit: built from the case, then re-expressed by the
        same user changes (form / frame set in place) the shared object went through."""
        o = fresh_objects(self.case)
        for what, value in getattr(self, "user_ops", []):
            setattr(o, what, value)
        return o

    def fresh(self, t_us):
        if t_us not in self.cache:
            self.cache[t_us] = cart(self.fresh_obj().propagate(mkdate(t_us)))
        return self.cache[t_us]

    def state_tol(self):
        if not self.numeric:
            return 0.0
        el = self.case["init"]["el"]
        mu = go.MU_LIB()
        rp = el["a"] * (1 - el["e"])
        wp = math.sqrt(mu * (1 + el["e"]) / rp**3)
        h = self.case["init"]["h"]
        # interpolation of the re-sampled output + RK4 global error over the longest integration path a
        # history can take (retro-integration to a start before the epoch, then forward again): the
        # constant is C06's calibrated order-4 bound
        L = 2 * 30 * h + 45 * 5 * h
        tol = 2.5 * el["a"] * (wp * h) ** 8 + 0.05 + 2 * 1.0 * el["a"] * (wp * h) ** 4 * (wp * L)
        # the output is re-sampled by Lagrange interpolation through the integration grid: across an
        # impulse (a kink) the interpolant is off by a fraction of |dv| * h, window dependent
        # and an impulse takes effect at the end of the integration step containing its date (C17): two
        # integration grids of different phase apply it up to one step apart -> |dv| * h in position
        tol += 3 * sum(float(np.linalg.norm(m["dv"])) for m in self.case["init"].get("mans", [])) * h
        return tol

    def same_state(self, got, t_us, what):
        ref = self.fresh(t_us)
        g = cart(got)
        tol = self.state_tol()
        if tol == 0.0:
            if not np.array_equal(g, ref):
                d = float(np.linalg.norm(g[:3] - ref[:3]))
                raise Violation("state-differs", f"{what}: state at t={t_us / 1e6:.6f}s differs from a direct propagation by {d:.3g} m")
        else:
            d = float(np.linalg.norm(g[:3] - ref[:3]))
            if d > tol:
                raise Violation("state-differs", f"{what}: state at t={t_us / 1e6:.6f}s differs from a direct propagation by {d:.3g} m (allowed {tol:.3g})")

    def check_dates(self, got_states, want_us, what):
        got_us = [us_of(s.date) for s in got_states]
        if len(got_us) != len(want_us) or any(abs(a - b) > 1 for a, b in zip(got_us, want_us)):
            def fmt(v):
                return "[" + ", ".join(f"{x / 1e6:g}" for x in v[:12]) + (", ...]" if len(v) > 12 else "]")
            kind = "dates"
            if len(got_us) > len(want_us) and all(abs(a - b) <= 1 for a, b in zip(got_us, want_us)):
                kind = "dates-extra-beyond-stop"
            elif len(got_us) < len(want_us) and all(abs(a - b) <= 1 for a, b in zip(got_us, want_us)):
                kind = "dates-missing" if got_us else "dates-nothing-yielded"
            raise Violation(kind, f"{what}: yielded t = {fmt(got_us)} s, contract says {fmt(want_us)} s",
                            got=got_us[:50], want=want_us[:50])
        for s, t in zip(got_states, want_us):
            self.same_state(s, t, what)
        # scribble on what was handed out: results must not alias the initial orbit, the propagator's
        # private copy or an ephemeris table (later ops and the invariant would show it)
        for s in got_states:
            s.base[:] = 0.0

    def invariant(self, what):
        try:
            now = snapshot(self.obj)
        except Exception as exc:  # the object is so damaged that it cannot even be read
            raise Violation("initial-object-modified", f"after {what} the initial object is unreadable: {type(exc).__name__}: {exc}")
        if now != self.snap:
            raise Violation("initial-object-modified", f"after {what} the initial object differs from its snapshot")

    # --- ops
    def clamp(self, t_us):
        if self.kind == "ephem":
            return min(max(t_us, self.lo), self.hi)
        return t_us

    def op_propagate(self, op):
        t = self.clamp(op["t_us"])
        if op.get("as_td") and self.kind not in ("ephem", "none"):  # NonePropagator documents Date only
            res = self.obj.propagate(timedelta(microseconds=t))
        else:
            res = self.obj.propagate(mkdate(t))
        if abs(us_of(res.date) - t) > 1:
            raise Violation("propagate-date", f"propagate to t={t / 1e6}s returned a state dated t={us_of(res.date) / 1e6}s")
        self.same_state(res, t, "propagate")
        tags = ["propagate"]
        # what is returned belongs to the caller, who may do anything to it: the next request for the
        # very same date must not see it
        self.scribble(res, op.get("scribble", 0))
        if op.get("again"):
            if op.get("as_td") and op.get("again") == 2 and self.kind not in ("ephem", "none"):
                res2 = self.obj.propagate(timedelta(microseconds=t))
            else:
                res2 = self.obj.propagate(mkdate(t))
            if res2 is res:
                raise Violation("result-aliased", f"propagate to t={t / 1e6}s twice returned the very same object")
            self.same_state(res2, t, "propagate again to the same date, after the first result was changed in place")
            self.scribble(res2, 0)
            tags.append("propagate-again")
        return tags

    def scribble(self, sv, mode):
        if mode == 1 and self.kind in ("kepler", "j2", "sgp4", "keplernum", "ephem"):
            sv.form = "keplerian"
            sv.base[0] *= 1.1
        elif mode == 2:
            sv.base[3:] += 10.0
        else:
            sv.base[:] = 0.0

    def _range(self, op):
        start = self.clamp(op["start_us"])
        step = max(1, abs(op["step_us"]))
        stop = self.clamp(start + op["nsteps_x100"] * step // 100 * (-1 if op["back"] else 1))
        return start, stop, step

    def iter_kwargs(self, op, start, stop, step):
        kw = {}
        if start != 0 or op.get("explicit_start", True) or self.kind == "ephem":
            kw["start"] = mkdate(start)
        if op.get("stop_as_td"):
            kw["stop"] = timedelta(microseconds=stop - start)
        else:
            kw["stop"] = mkdate(stop)
        # analytical / numerical propagators negate a positive step themselves when stop < start;
        # Ephem.iter is documented as Date.range(start, stop, step): its step must carry the sign
        sgn = -1 if (stop < start and (op.get("neg_step") or self.kind == "ephem")) else 1
        kw["step"] = timedelta(microseconds=step * sgn)
        return kw

    def op_iter_range(self, op):
        start, stop, step = self._range(op)
        want = model_range(start, stop, step)
        kw = self.iter_kwargs(op, start, stop, step)
        tags = ["iter_range", "backward" if stop < start else "forward"]
        if (stop - start) % step:
            tags.append("step-not-dividing")
        if self.numeric:
            h = self.case["init"]["h"] * US
            if abs(stop - start) < 8 * h:
                tags.append("shorter-than-interp-order")
            if (stop - start) % h:
                tags.append("stop-off-grid")
        got = list(self.obj.iter(**kw))
        self.check_dates(got, want, f"iter(start={start / 1e6:g}s, stop={stop / 1e6:g}s, step={step / 1e6:g}s)")
        return tags

    def op_ephem(self, op):
        start, stop, step = self._range(op)
        want = model_range(start, stop, step)
        kw = self.iter_kwargs(op, start, stop, step)
        eph = self.obj.ephem(**kw)
        got = list(eph)
        want_sorted = sorted(want)
        self.check_dates(got, want_sorted, f"ephem(start={start / 1e6:g}s, stop={stop / 1e6:g}s, step={step / 1e6:g}s)")
        return ["ephem", "backward" if stop < start else "forward"]

    def op_iter_own(self, op):
        """No step given: an ephemeris yields its own points in [start, stop], the numerical propagator
        its integration grid."""
        if self.kind not in ("ephem", "keplernum"):
            return ["skip"]
        start, stop, step = self._range(op)
        if stop < start:
            start, stop = stop, start
        h = self.case["init"]["h"] * US
        if self.kind == "ephem":
            want = [t for t in range(0, self.hi + 1, h) if start <= t <= stop]
            got = list(self.obj.iter(start=mkdate(start), stop=mkdate(stop)))
        else:
            want = model_range(start, stop, h)
            got = list(self.obj.iter(start=mkdate(start), stop=mkdate(stop)))
        self.check_dates(got, want, f"iter(start={start / 1e6:g}s, stop={stop / 1e6:g}s) without step")
        return ["iter_own"]

    def op_iter_dates(self, op):
        ts = [self.clamp(t) for t in op["ts_us"]]
        if op.get("sorted"):
            ts = sorted(ts)
        dates = [mkdate(t) for t in ts]
        got = list(self.obj.iter(dates=dates))
        self.check_dates(got, ts, f"iter(dates=<list of {len(ts)}>)")
        return ["iter_dates"]

    def op_iter_daterange(self, op):
        from beyond.dates import Date

        start, stop, step = self._range(op)
        if stop == start:
            stop = self.clamp(start + step)
            if stop == start:
                return ["skip"]
        sgn = 1 if stop > start else -1
        rng = Date.range(mkdate(start), mkdate(stop), timedelta(microseconds=step * sgn), inclusive=True)
        want = model_range(start, stop, step)
        got = list(self.obj.iter(dates=rng))
        self.check_dates(got, want, f"iter(dates=Date.range({start / 1e6:g}s, {stop / 1e6:g}s, {sgn * step / 1e6:g}s))")
        return ["iter_daterange", "backward" if sgn < 0 else "forward"]

    def op_iter_listeners(self, op):
        from beyond.propagators.listeners import ApsideListener, NodeListener

        if self.kind in ("cw", "none"):
            return ["skip"]
        if self.listeners is None:
            self.listeners = [NodeListener(), ApsideListener()]
        start, stop, step = self._range(op)
        if stop < start:
            start, stop = stop, start
        want = model_range(start, stop, step)
        kw = self.iter_kwargs(op, start, stop, step)
        half_ok = (stop - start) // step >= 4 and (
            not self.numeric or ((stop - start) // step // 2) * step >= 9 * self.case["init"]["h"] * US)
        if op.get("early") and half_ok:
            # the iteration is REQUESTED, then another one using the same listener objects (the first half of the
            # span) is requested and consumed, and only then is the first one consumed
            it = self.obj.iter(listeners=self.listeners, **kw)
            half = start + ((stop - start) // step // 2) * step
            list(self.obj.iter(listeners=self.listeners, **self.iter_kwargs(dict(op, stop_as_td=False), start, half, step)))
            got = list(it)
        else:
            got = list(self.obj.iter(listeners=self.listeners, **kw))
        # A sample that coincides with a crossing may itself carry an event (the bisection returns the
        # very sample object): samples are therefore matched by date, in order; what is left over must
        # be events.
        # first the plain samples, then event-carrying states may stand in for dates still unmatched
        # (an event located within 1 us of a sample date must not be taken for that sample)
        plain = [s_ for s_ in got if s_.event is None]
        plain_us = [us_of(s_.date) for s_ in plain]
        samples, used = [], set()
        for w in want:
            hit = next((k for k, t_ in enumerate(plain_us) if k not in used and abs(t_ - w) <= 1), None)
            if hit is not None:
                used.add(hit)
                samples.append(plain[hit])
                continue
            ev = next((s_ for s_ in got if s_.event is not None and abs(us_of(s_.date) - w) <= 1), None)
            if ev is not None:
                samples.append(ev)
        samples += [s_ for k, s_ in enumerate(plain) if k not in used]  # unexpected plain samples
        samples.sort(key=lambda s_: us_of(s_.date))
        self.check_dates(samples, want, "iter(listeners=...) samples")
        ts = [us_of(s.date) for s in got]
        if any(b < a - 1 for a, b in zip(ts, ts[1:])):
            raise Violation("stream-order", "iteration with listeners is not chronological")
        # history independence: identical to a run on fresh objects with fresh listeners
        o = self.fresh_obj()
        ref = list(o.iter(listeners=[NodeListener(), ApsideListener()], **kw))
        # (events within 5 us of a sample date are the "crossing exactly on a sample" class: the sign of
        # an exact zero is not part of the statement, and a rounding of 1e-16 flips it)
        def off_sample(t_):
            return all(abs(t_ - w) > 5 for w in want)

        ref_ev = [(us_of(s.date), str(s.event)) for s in ref if s.event is not None and off_sample(us_of(s.date))]
        got_ev = [(us_of(s.date), str(s.event)) for s in got if s.event is not None and off_sample(us_of(s.date))]
        if len(ref_ev) != len(got_ev) or any(abs(a[0] - b[0]) > 2 or a[1] != b[1] for a, b in zip(ref_ev, got_ev)):
            raise Violation("listener-reuse", f"events with re-used listener objects {got_ev[:6]} differ from a fresh run {ref_ev[:6]}")
        tags = ["iter_listeners", f"events:{min(len(got_ev), 3)}"] + (["requested-early"] if op.get("early") and half_ok else [])
        # A yielded state is an orbit in its own right: taken as the start of a new iteration (it shares the
        # propagator object, and, for an event state, carries an `event`), it must give what a freshly built
        # orbit holding the same numbers gives - same samples, same events, no event on plain samples.
        if self.kind in ("kepler", "j2") and got:
            from beyond.orbits import Orbit

            evs = [s_ for s_ in got if s_.event is not None]
            derived = evs[0] if evs else got[len(got) // 2]
            if hasattr(derived, "iter"):
                span = dict(stop=timedelta(microseconds=12 * step), step=timedelta(microseconds=step))
                twin = Orbit(np.array(derived.base, float), derived.date, derived.form.name, derived.frame,
                             type(self.obj.propagator)())
                a = list(derived.iter(listeners=[NodeListener(), ApsideListener()], **span))
                b = list(twin.iter(listeners=[NodeListener(), ApsideListener()], **span))
                t0 = us_of(derived.date)
                grid = [t0 + k * step for k in range(13)]

                def evs_of(states):
                    return [(us_of(s_.date), str(s_.event)) for s_ in states
                            if s_.event is not None and all(abs(us_of(s_.date) - w) > 5 for w in grid)]

                ea, eb = evs_of(a), evs_of(b)
                plain_a = [us_of(s_.date) for s_ in a if s_.event is None]
                plain_b = [us_of(s_.date) for s_ in b if s_.event is None]
                if len(ea) != len(eb) or any(abs(x[0] - y[0]) > 2 or x[1] != y[1] for x, y in zip(ea, eb)) \
                        or len(a) != len(b) or len(plain_a) != len(plain_b):
                    raise Violation("derived-start", f"iteration restarted from a yielded state (event: {derived.event}) gives "
                                    f"{len(a)} states, {len(plain_a)} without event, events {ea[:5]}; a freshly built orbit with the "
                                    f"same numbers gives {len(b)} states, {len(plain_b)} without event, events {eb[:5]}")
                tags.append("restart-from-event-state" if evs else "restart-from-sample")
        return tags

    def op_rebind(self, op):
        if self.kind == "ephem":
            return ["skip"]
        t = op["t_us"]
        twin = self.obj.copy()
        twin.propagator = self.obj.propagator  # the very same propagator object, now bound to a copy
        res = twin.propagate(mkdate(t))
        self.same_state(res, t, "propagate on a copy sharing the propagator object")
        return ["rebind"]

    def op_rebind_other(self, op):
        """Bind the shared propagator object to a *different* orbit, use it, then come back."""
        if self.kind in ("ephem", "sgp4", "cw"):
            return ["skip"]
        other_case = dict(self.case)
        init = dict(self.case["init"])
        el = dict(init["el"])
        el["nu"] = el["nu"] + 1.0
        el["raan"] = (el["raan"] + 0.5) % (2 * math.pi)
        init["el"] = el
        other_case["init"] = init
        other = fresh_objects(other_case)
        other.propagator = self.obj.propagator
        t = op["t_us"]
        res = other.propagate(mkdate(t))
        ref = cart(fresh_objects(other_case).propagate(mkdate(t)))
        d = float(np.linalg.norm(cart(res)[:3] - ref[:3]))
        if d > self.state_tol():
            raise Violation("state-differs", f"propagator re-bound to another orbit returns a state {d:.3g} m away from that orbit's own propagation")
        return ["rebind_other"]

    def op_kick(self, op):
        """Derived states are values too: (A) a state returned by propagate() is changed in place (a manual
        delta-v) and propagated further; (B) derived quantities of an orbit are read (`.infos`), the orbit
        is changed in place, then propagated.  Both must equal the propagation of a freshly built orbit
        holding the same numbers."""
        from beyond.orbits import Orbit

        if self.kind not in ("kepler", "j2"):
            return ["skip"]
        t1, t2 = op["t_us"], op["t2_us"]
        dv = np.array(op["dv"], float)
        if op["variant"] == "A":
            sv = self.obj.propagate(mkdate(t1))
        elif op["variant"] == "B":
            sv = self.obj.copy()
            t1 = 0
            _ = sv.infos.n, sv.infos.period  # derived quantities read before the change
        else:
            # C: the orbit has already been propagated (its propagator is bound to it) when it is changed
            sv = self.obj.copy()
            t1 = 0
            sv.propagate(mkdate(op["t_us"]))
            list(sv.iter(stop=timedelta(seconds=120), step=timedelta(seconds=60)))
        sv.form = "cartesian"
        sv.base[3:] += dv
        coords = np.array(sv.base, float)
        if not hasattr(sv, "propagate"):
            return ["skip"]
        got = cart(sv.propagate(mkdate(t2)))
        fresh = Orbit(coords, mkdate(t1), "cartesian", sv.frame, type(self.obj.propagator)())
        ref = cart(fresh.propagate(mkdate(t2)))
        if not np.array_equal(got, ref):
            d = float(np.linalg.norm(got[:3] - ref[:3]))
            if d > 1e-6:
                raise Violation("derived-state-stale", f"a state {dict(A='returned by propagate()', B='whose .infos had been read', C='already propagated once')[op['variant']]} "
                                                       f"then changed in place by dv={dv.tolist()} propagates {d:.3g} m away from a freshly built "
                                                       f"orbit holding the same numbers")
        return ["kick:" + op["variant"]]

    def op_user_change(self, op):
        """The USER re-expresses the shared orbit in place (another form, another non-rotating frame): the
        initial orbit now is that re-expressed one, and every later result must equal what a never-used
        object re-expressed the same way gives, whatever the propagator cached before.  (The reference is
        propagated in the same frame: beyond relates GCRF / EME2000 / G50 through its Earth-orientation
        models, so they drift against each other by ~1e-13 rad/s and propagating in one is not propagating
        in the other.)"""
        if self.kind not in ("kepler", "j2", "keplernum", "none"):
            return ["skip"]
        if op["what"] == "form":
            self.obj.form = op["value"]
        else:
            if self.kind in ("none", "j2"):  # J2's equator is the frame's own z axis
                return ["skip"]
            self.obj.frame = op["value"]
        self.snap = snapshot(self.obj)
        self.user_ops = getattr(self, "user_ops", []) + [(op["what"], op["value"])]
        self.cache = {}
        return ["user_change:" + op["what"]]

    def op_edit_mans(self, op):
        """The USER edits the maneuver list of the shared orbit IN PLACE (`orb.maneuvers` is a list: append, +=, pop,
        clear) after it has been propagated: every later result must equal what a never-used orbit carrying the
        edited list gives.  (Analytical CW propagator only, where the contract with maneuvers is exact.)"""
        if self.kind != "cw":
            return ["skip"]
        init = dict(self.case["init"])
        mans = [dict(m) for m in init.get("mans", [])]
        how = op["how"]
        if how in ("pop", "clear") and not mans:
            how = "append"
        if how in ("append", "iadd"):
            end = max([m["t_us"] + m.get("dur_us", 0) for m in mans] + [0])
            m = dict(type="imp", t_us=end + op["gap_us"], dv=op["dv"])
            mans.append(m)
            new = make_mans(dict(mans=[m]))
            if how == "append":
                self.obj.maneuvers.append(new[0])
            else:
                self.obj.maneuvers += new
        elif how == "pop":
            mans.pop()
            self.obj.maneuvers.pop()
        else:
            mans = []
            self.obj.maneuvers.clear()
        init["mans"] = mans
        self.case = dict(self.case, init=init)
        self.snap = snapshot(self.obj)
        self.cache = {}
        return ["edit_mans:" + how]

    def other_case(self):
        """Another orbit of the same kind, built the same way (same propagator spelling)."""
        oc = dict(self.case)
        init = dict(self.case["init"])
        if self.kind == "sgp4":
            init["inc_deg"] = round((init["inc_deg"] + 7.0) % 178.0 + 0.5, 4)
            init["n_rev"] = round(11.0 + (init["n_rev"] - 11.0 + 1.7) % 4.8, 8)
        elif self.kind == "cw":
            init["rel"] = [-x for x in init["rel"]]
        else:
            el = dict(init["el"])
            el["nu"] = el["nu"] + 1.0
            el["raan"] = (el["raan"] + 0.5) % (2 * math.pi)
            init["el"] = el
        oc["init"] = init
        return oc

    def op_interleave(self, op):
        """An iteration of the shared orbit is alive while ANOTHER orbit of the same kind (its own object, its
        own propagator - built the same way, e.g. both with the propagator given by name) is propagated and
        iterated: two orbits are independent, so the suspended iteration goes on as if nothing happened."""
        if self.kind not in ("kepler", "j2", "sgp4", "none", "cw"):
            return ["skip"]
        start, stop, step = self._range(op)
        want = model_range(start, stop, step)
        if len(want) < 3:
            return ["skip"]
        kw = self.iter_kwargs(op, start, stop, step)
        if op.get("shared_range"):
            # both iterations are driven by ONE DateRange object
            from beyond.dates import Date

            sgn = 1 if stop > start else -1
            kw = dict(dates=Date.range(mkdate(start), mkdate(stop), timedelta(microseconds=step * sgn), inclusive=True))
        if op.get("same"):
            # the second user is the shared orbit itself: two iterations of one object alive at once
            other, ref_other = self.obj, self.fresh_obj()
        else:
            oc = self.other_case()
            other = fresh_objects(oc)
            if other.propagator is self.obj.propagator:
                raise Violation("propagator-shared", "two orbits built separately hold the very same propagator object")
            ref_other = fresh_objects(oc)
        t = self.clamp(op["t_us"])
        it = self.obj.iter(**kw)
        got = []
        k = 1 + op["k"] % (len(want) - 1)
        for i, s_ in enumerate(it):
            got.append(s_)
            if i + 1 == k:
                res = other.propagate(mkdate(t))
                want_o = cart(ref_other.propagate(mkdate(t)))
                if not np.array_equal(cart(res), want_o):
                    d = float(np.linalg.norm(cart(res)[:3] - want_o[:3]))
                    raise Violation("state-differs", f"another orbit propagated while an iteration of the first is suspended "
                                    f"is {d:.3g} m away from its own propagation")
                if op.get("zip"):
                    # the other orbit starts an iteration of its own and both go on in lockstep
                    it2 = other.iter(**kw)
                    ref2 = iter(list(ref_other.iter(**self.iter_kwargs(op, start, stop, step))))
                    for a2, b2 in zip(it2, ref2):
                        if not np.array_equal(cart(a2), cart(b2)):
                            raise Violation("state-differs", "iteration of another orbit, started while the first is suspended, "
                                            "differs from the same iteration on fresh objects")
                        nxt = next(it, None)
                        if nxt is None:
                            break
                        got.append(nxt)
        self.check_dates(got, want, f"iter(start={start / 1e6:g}s, stop={stop / 1e6:g}s, step={step / 1e6:g}s) suspended after {k} "
                         f"states while another orbit was used")
        return ["interleave", "interleave:same-object" if op.get("same") else "interleave:other-object"]

    def op_clone_self(self, op):
        """From now on the history goes on with a clone of the shared object (stdlib copy / deepcopy, pickle,
        its own copy()): a clone is the same initial orbit, so nothing may change."""
        import copy
        import pickle

        how = op["how"]
        if how == "copy":
            new = copy.copy(self.obj)
        elif how == "deepcopy":
            new = copy.deepcopy(self.obj)
        elif how == "pickle":
            new = pickle.loads(pickle.dumps(self.obj))
        else:
            if not hasattr(self.obj, "copy"):
                return ["skip"]
            new = self.obj.copy()
        if snapshot(new) != self.snap:
            raise Violation("clone-differs", f"the {how} clone of the initial object differs from it")
        self.obj = new
        self.listeners = None
        return ["clone:" + how]

    def op_partial(self, op):
        start, stop, step = self._range(op)
        kw = self.iter_kwargs(op, start, stop, step)
        it = self.obj.iter(**kw)
        want = model_range(start, stop, step)
        k = min(op["k"], len(want))
        got = []
        for _ in range(k):
            got.append(next(it))
        self.check_dates(got, want[:k], f"first {k} items of iter(...)")
        del it
        return ["partial_consume"]

    def run(self):
        """Every op is executed; a failure that matches a listed known finding (KNOWN_FINDINGS.txt) is
        counted and the history goes on behind it, anything else aborts the history as a violation."""
        from .. import findings
        from ..core import library_frame

        tags = []
        self.known = {}
        for i, op in enumerate(self.case["ops"]):
            name = op["op"]
            try:
                tags += getattr(self, "op_" + name)(op)
            except Exception as exc:
                if isinstance(exc, Violation):
                    kind, msg, data = exc.kind, exc.msg, dict(exc.data)
                else:
                    frame = library_frame(exc.__traceback__)
                    if frame is None:
                        raise
                    kind, msg, data = f"exception:{type(exc).__name__}@{frame}", str(exc)[:300], {}
                data.update(op_index=i, op=op, kind_of_object=self.kind, init=self.case["init"])
                key = findings.match("C08", self.kind, self.case, kind, msg, data)
                if key is None:
                    raise Violation(kind, f"op #{i} {name}: {msg}", **data) from None
                k = self.known.setdefault(key, dict(n=0, example=dict(op=op, kind=kind, msg=msg)))
                k["n"] += 1
                tags.append("known-finding-op")
            self.invariant(f"op #{i} ({name})")
        return tags


# ------------------------------------------------------------------ generators


@st.composite
def op_strategy(draw, kind, h_us, span_us):
    name = draw(st.sampled_from(["propagate", "iter_range", "iter_range", "iter_range", "iter_dates", "iter_daterange",
                                 "ephem", "iter_listeners", "rebind", "rebind_other", "partial", "iter_own", "kick", "user_change",
                                 "clone_self", "interleave"] + (["edit_mans", "edit_mans"] if kind == "cw" else [])))

    def t():
        # one in four on the grid of the integration / tabulation step (ephemeris nodes, integration points)
        if draw(st.integers(0, 3)) == 0:
            k = draw(st.integers(0 if kind == "ephem" else -(span_us // h_us), span_us // h_us))
            return k * h_us
        return draw(go.uniform_int(-span_us, span_us)) if kind != "ephem" else draw(go.uniform_int(0, span_us))

    if name == "edit_mans":
        return dict(op=name, how=draw(st.sampled_from(["append", "append", "iadd", "pop", "clear"])),
                    gap_us=draw(st.sampled_from([h_us, 2 * h_us]) | go.uniform_int(1, 5 * h_us)),
                    dv=[round(draw(go.uniform(-0.5, 0.5)), 4) for _ in range(3)])
    if name == "clone_self":
        return dict(op=name, how=draw(st.sampled_from(["copy", "deepcopy", "pickle", "own"])))
    if name == "user_change":
        what = draw(st.sampled_from(["form", "form", "frame"]))
        value = draw(st.sampled_from(["keplerian", "keplerian_mean", "spherical", "equinoctial", "cartesian"])) if what == "form" \
            else draw(st.sampled_from(["GCRF", "G50", "EME2000"]))  # frames fixed with respect to each other
        return dict(op=name, what=what, value=value)
    if name == "kick":
        return dict(op=name, t_us=t(), t2_us=t(), variant=draw(st.sampled_from(["A", "B", "C"])),
                    dv=[round(draw(go.uniform(-50, 50)), 3) for _ in range(3)])
    if name == "propagate":
        # one in two asked twice in a row for the same date; the result is changed in place in between
        return dict(op=name, t_us=t(), as_td=draw(st.booleans()), scribble=draw(st.integers(0, 2)),
                    again=draw(st.sampled_from([0, 0, 1, 2])))
    if name in ("rebind", "rebind_other"):
        return dict(op=name, t_us=t(), as_td=draw(st.booleans()))
    if name == "iter_dates":
        n = draw(st.integers(1, 6))
        return dict(op=name, ts_us=[t() for _ in range(n)], sorted=draw(st.booleans()))
    # ranges: start before / at / after the epoch; span of 0..40 steps (in 1/100 step units so that the
    # step does not always divide the span); steps around the integration step
    start_kind = draw(st.sampled_from(["epoch", "epoch", "after", "before"]))
    if kind == "ephem":
        start = draw(go.uniform_int(0, span_us))
    else:
        start = {"epoch": 0, "after": draw(go.uniform_int(1, span_us)), "before": -draw(go.uniform_int(1, span_us))}[start_kind]
    step = draw(st.sampled_from([h_us, h_us // 2, h_us * 3, draw(go.uniform_int(h_us // 10, 5 * h_us))]))
    if draw(st.integers(0, 5)) == 0:
        # sub-second steps that are not binary fractions (0.1 s is not a float): a span of k such steps holds k + 1 dates
        step = draw(st.sampled_from([100_000, 200_000, 50_000, 1_100_000, 300_000, 700_000, 10_000, 2_500_000]))
    whole = draw(st.integers(0, 9)) < 5
    nsteps = draw(st.integers(0, 40)) * 100 + (0 if whole else draw(st.integers(1, 99)))
    back = draw(st.integers(0, 3)) == 0
    if kind == "keplernum" and draw(st.booleans()):
        # half of the numerical propagator's ranges stay inside the input class where its iteration
        # contract is not already a listed finding: forward, on the integration grid, >= 8 steps
        k = draw(st.integers(8, 40))
        step = draw(st.sampled_from([h_us, h_us // 2, h_us // 3]))
        nsteps = k * 100 * (h_us // step)
        back = False
        if start_kind == "before":
            start = -draw(st.integers(1, 20)) * h_us
    d = dict(op=name, start_us=start, step_us=step, nsteps_x100=nsteps, back=back,
             stop_as_td=draw(st.booleans()), neg_step=draw(st.booleans()), explicit_start=draw(st.booleans()))
    if name == "partial":
        d["k"] = draw(st.integers(0, 5))
    if name == "iter_listeners":
        d["early"] = draw(st.booleans())
    if name == "interleave":
        d["k"] = draw(st.integers(0, 20))
        d["t_us"] = t()
        d["zip"] = draw(st.booleans())
        d["same"] = draw(st.integers(0, 2)) == 0
        d["shared_range"] = draw(st.integers(0, 2)) == 0
    return d


@st.composite
def history(draw, kind):
    init = {}
    if kind == "sgp4":
        init = dict(inc_deg=round(draw(go.uniform(0.1, 179.0)), 4), ecc7=draw(st.integers(1, 200000)),
                    n_rev=round(draw(go.uniform(11.0, 15.9)), 8))
        h = 60
    elif kind == "cw":
        init = dict(sma=draw(go.uniform(6.7e6, 4.2e7)), rel=[draw(go.uniform(-2000, 2000)) for _ in range(3)]
                    + [draw(go.uniform(-2, 2)) for _ in range(3)], orientation=draw(st.sampled_from(["QSW", "TNW"])))
        h = 60
    else:
        el = draw(go.elements(elliptic=True, hyperbolic=False, emax_ell=0.6, rp_range=(1.05, 7.0), mwind=0.5))
        init = dict(el=el)
        h = 60
        if kind in ("kepler", "j2", "none"):
            init["by_name"] = draw(st.booleans())
        if kind in ("kepler", "j2", "keplernum", "none"):
            init["form"] = draw(st.sampled_from(["cartesian", "cartesian", "keplerian", "keplerian_mean", "equinoctial", "spherical"]))
        if kind == "keplernum":
            h = draw(st.sampled_from([30, 60, 90]))
            init["h"] = h
        if kind == "ephem":
            h = draw(st.sampled_from([60, 120, 180]))
            init["h"] = h
            init["npts"] = draw(st.integers(12, 40))
    h_us = h * US
    # (maneuvers only on the analytical CW propagator, where the contract is exact; for the numerical
    # propagator an impulse takes effect "no later than one integration step after its date" (C17), so
    # two integration grids of different phase legitimately differ by |dv|*h, growing along-track)
    if kind == "cw" and draw(st.integers(0, 2)) > 0:
        # maneuvers carried by the initial orbit: a burn "now" (exactly at the epoch), on / off the
        # integration grid, before the epoch; chronologically ordered
        mans = []
        for _ in range(draw(st.integers(1, 2))):
            when = draw(st.sampled_from(["epoch", "grid", "any", "any"]))
            if kind == "keplernum" and when == "epoch":
                when = "grid"
            t = {"epoch": 0, "grid": draw(st.integers(1, 25)) * h_us, "any": draw(go.uniform_int(1, 25 * h_us))}[when]
            dv = [round(draw(go.uniform(-0.5, 0.5)), 4) for _ in range(3)]
            if kind == "cw" and draw(st.integers(0, 2)) == 0:
                mans.append(dict(type="cont", t_us=t, dur_us=draw(st.integers(1, 10)) * h_us // 2, dv=dv))
            else:
                mans.append(dict(type="imp", t_us=t, dv=dv))
        mans.sort(key=lambda m: m["t_us"])
        # no overlap between a burn and what follows it
        keep, end = [], -1
        for m in mans:
            if m["t_us"] > end or (m["t_us"] == 0 and end < 0):
                keep.append(m)
                end = m["t_us"] + m.get("dur_us", 0)
        init["mans"] = keep
    span = (init["npts"] - 1) * h_us if kind == "ephem" else 30 * h_us
    nops = draw(st.integers(2, 6))
    ops = [draw(op_strategy(kind, h_us, span)) for _ in range(nops)]
    return dict(kind=kind, init=init, ops=ops, label=draw(st.sampled_from(LABELS)), epoch_label=draw(st.sampled_from(LABELS)))


def check(case):
    _LABELS.update(epoch=case.get("epoch_label", "UTC"), ops=case.get("label", "UTC"))
    m = Machine(case)
    tags = m.run()
    kinds = {t for t in tags if t in ("propagate", "iter_range", "iter_dates", "iter_daterange", "ephem", "iter_listeners", "iter_own",
                                       "rebind", "rebind_other", "partial_consume", "kick:A", "kick:B", "kick:C", "user_change:form", "user_change:frame", "propagate-again", "restart-from-event-state", "clone:copy", "clone:deepcopy", "clone:pickle", "clone:own", "interleave")}
    # an op that failed as a listed known finding and after which the history went on also counts:
    # what follows it runs on objects that have been through a failing call
    special = {"backward", "step-not-dividing", "shorter-than-interp-order", "stop-off-grid", "known-finding-op"} & set(tags)
    labels = {case.get("label", "UTC"), case.get("epoch_label", "UTC")}
    tags.append("labels:all-UTC" if labels == {"UTC"} else "labels:mixed")
    return dict(nt=len(kinds) >= 2 and bool(special), cls=sorted(set(tags)), known=m.known)


# ------------------------------------------------------------------ known findings (see KNOWN_FINDINGS.txt)


def _ops(case):
    return case.get("ops", [])


def _range_of(data):
    """(start, stop, step, h) in microseconds of the failing op of a keplernum history, else None."""
    op = data.get("op") or {}
    if data.get("kind_of_object") != "keplernum" or "start_us" not in op:
        return None
    start = op["start_us"]
    step = max(1, abs(op["step_us"]))
    stop = start + op["nsteps_x100"] * step // 100 * (-1 if op["back"] else 1)
    if op["op"] in ("iter_listeners", "iter_own") and stop < start:
        start, stop = stop, start
    if op["op"] == "iter_own":
        step = data["init"]["h"] * US
    if op["op"] == "iter_daterange" and stop == start:
        stop = start + step
    return start, stop, step, data["init"]["h"] * US


def _kn_dates_list(facet, case, kind, msg, data):
    return (data.get("kind_of_object") == "keplernum" and (data.get("op") or {}).get("op") == "iter_dates"
            and kind == "exception:AttributeError@propagators/keplernum.py:_iter")


def _kn_backward(facet, case, kind, msg, data):
    r = _range_of(data)
    return bool(r) and r[1] < r[0] and kind.startswith("exception:ValueError@utils/interp.py")


def _kn_short(facet, case, kind, msg, data):
    r = _range_of(data)
    if not r:
        return False
    start, stop, step, h = r
    npts = 1 + -(-(stop - start) // h)  # table = start + ceil(span/h) integration steps
    # every range op of this machine passes an explicit step object (never `propagator.step` itself),
    # so the output is always re-sampled by interpolation
    return stop >= start and npts < 8 and kind == "exception:ValueError@utils/interp.py:_lagrange"


def _kn_beyond(facet, case, kind, msg, data):
    r = _range_of(data)
    if not r or kind != "dates-extra-beyond-stop":
        return False
    start, stop, step, h = r
    want, got = data.get("want", []), data.get("got", [])
    extra = got[len(want):]
    # only when the stop is off the integration grid, and only samples up to the next grid point after stop
    last_grid = start + -(-(stop - start) // h) * h
    return stop > start and (stop - start) % h != 0 and all(stop < t <= last_grid + 1 for t in extra)


FINDINGS = {
    "C08/keplernum-dates-list": _kn_dates_list,
    "C08/keplernum-backward-range": _kn_backward,
    "C08/keplernum-short-span": _kn_short,
    "C08/keplernum-beyond-stop": lambda facet, case, kind, msg, data: (
        (facet == "adaptive_dates" and kind == "adaptive-dates-beyond-stop") or _kn_beyond(facet, case, kind, msg, data)),
}


# ------------------------------------------------------------------ adaptive numerical methods: the dates of a tabulation


@st.composite
def adaptive_dates_case(draw):
    """KeplerNum with rkf54 / dopri54 (accepted steps are irregular): forward tabulations with an explicit output step
    - equal in value to the propagator's step, a divisor, a multiple, anything - over spans of at least 9 nominal
    steps (outside the listed findings on short spans / backward ranges)."""
    h = draw(st.sampled_from([30, 60, 60, 90, 120]))
    kind = draw(st.integers(0, 5))
    out = h if kind < 2 else (h // 2 if kind == 2 else (2 * h if kind == 3 else draw(st.integers(7, 3 * h))))
    nsteps = draw(st.integers(9, 40))
    span = nsteps * h
    whole = draw(st.booleans())
    if whole:
        span = (span // out) * out
    el = draw(go.elements(hyperbolic=False, emax_ell=0.75, rp_range=(1.03, 2.0)))
    return dict(h=h, out=out, span=span, method=draw(st.sampled_from(["rkf54", "dopri54"])), el=el,
                k0=draw(st.sampled_from([0, 0, 3, 11])), stop_as=draw(st.sampled_from(["date", "timedelta"])),
                route=draw(st.sampled_from(["iter", "iter", "ephemeris", "ephem"])),
                # the same grid handed over as dates=Date.range(start, stop, step, inclusive=True)
                dates_as=draw(st.sampled_from(["start-stop-step", "start-stop-step", "range"])))


def check_adaptive_dates(case):
    from beyond.env.solarsystem import get_body
    from beyond.orbits import Orbit
    from beyond.propagators.keplernum import KeplerNum

    _LABELS["epoch"] = _LABELS["ops"] = "UTC"
    h, out, span = case["h"], case["out"], case["span"]
    el = case["el"]
    mu = go.MU["Earth"]
    cart = tb.kep2cart(el["a"], el["e"], el["i"], el["raan"], el["argp"], el["nu"], mu)
    orb = Orbit(list(cart), mkdate(0), "cartesian", "EME2000", KeplerNum(timedelta(seconds=h), get_body("Earth"), method=case["method"]))
    start = case["k0"] * h * US
    stop = start + span * US
    kw = dict(start=mkdate(start), step=timedelta(seconds=out),
              stop=timedelta(seconds=span) if case["stop_as"] == "timedelta" else mkdate(stop))
    if case.get("dates_as") == "range":
        from beyond.dates import Date

        kw = dict(dates=Date.range(mkdate(start), mkdate(stop), timedelta(seconds=out), inclusive=True))
    stream = {"iter": orb.iter, "ephemeris": orb.ephemeris, "ephem": lambda **k: iter(orb.ephem(**k))}[case["route"]](**kw)
    got = list(stream)
    want = model_range(start, stop, out * US)
    ts = [us_of(o.date) for o in got]
    what = (f"KeplerNum({h} s, {case['method']}).{case['route']}({'dates=Date.range(' if case.get('dates_as') == 'range' else ''}start=+{start // US} s, stop=+{stop // US} s, step={out} s"
            f"{' = the propagator step' if out == h else ''})")
    if len(ts) > len(want) and all(abs(a - b) <= 1 for a, b in zip(ts, want)) and all(
            stop < t <= stop + h * US + 1 for t in ts[len(want):]):
        # the requested dates, then samples beyond the stop up to the next integration point: the listed finding
        # keplernum-beyond-stop (the accepted steps of an adaptive method are irregular: the stop is never "on the grid")
        raise Violation("adaptive-dates-beyond-stop", f"{what}: {len(ts) - len(want)} sample(s) after the stop, up to "
                        f"+{ts[-1] / 1e6} s", extra=len(ts) - len(want))
    if len(ts) != len(want) or any(abs(a - b) > 1 for a, b in zip(ts, want)):
        extra = [t / 1e6 for t in ts if all(abs(t - w) > 1 for w in want)][:5]
        raise Violation("adaptive-dates", f"{what}: {len(ts)} dates, the contract gives {len(want)} "
                        f"({want[0] / 1e6} .. {want[-1] / 1e6} s every {out} s); dates off the requested grid: {extra}; "
                        f"last yielded {ts[-1] / 1e6 if ts else None} s", n=len(ts))
    # each state is the two-body state of its own date (a gross check only: the accuracy of the adaptive methods is
    # C06's subject; a state belonging to another date of the grid is kilometres away)
    worst = 0.0
    for o, t in zip(got, want):
        ref = tb.propagate_uv(cart, t / 1e6, mu)
        d = float(np.linalg.norm(np.asarray(o.copy(form="cartesian").base, float)[:3] - ref[:3]))
        bound = 2000.0
        worst = max(worst, d / bound)
        if d > bound:
            raise Violation("adaptive-state", f"{what}: state dated +{t / 1e6} s is {d:.4g} m from the two-body solution")
    return dict(nt=True, cls=[case["method"], "step:=h" if out == h else "step:other", f"route:{case['route']}",
                              "start:epoch" if start == 0 else "start:later"], ratio=worst)


# ------------------------------------------------------------------ ranges that walk over a leap second


LEAPS_UTC = [datetime(2015, 7, 1), datetime(2017, 1, 1), datetime(2012, 7, 1), datetime(2009, 1, 1), datetime(2006, 1, 1),
             datetime(1999, 1, 1), datetime(1997, 7, 1)]


def setup_real(shard):
    env.eop("real")


@st.composite
def leap_range_case(draw):
    """An analytical propagator iterated over UTC dates from before to after a leap second (or the other way round),
    no sample within the two minutes around it that the library documents as not handled: the dates are the UTC grid, every state is the one of a direct propagation."""
    step = draw(st.sampled_from([300, 420, 600, 900, 317]))
    before = draw(st.integers(1, 30)) * step + draw(st.integers(130, step - 130))
    after = draw(st.integers(1, 30)) * step
    return dict(leap=draw(st.integers(0, len(LEAPS_UTC) - 1)), step=step, before=before, after=after,
                kind=draw(st.sampled_from(["kepler", "kepler", "j2", "sgp4"])), backward=draw(st.booleans()),
                route=draw(st.sampled_from(["iter", "iter", "ephemeris", "ephem"])),
                epoch_off=draw(st.sampled_from([0, -3600, 7200, -86400])),
                el=draw(go.elements(hyperbolic=False, emax_ell=0.3, rp_range=(1.05, 3.0))))


def check_leap_range(case):
    from beyond.dates import Date
    from beyond.orbits import Orbit

    leap = LEAPS_UTC[case["leap"]]
    step = case["step"]
    t_start = leap - timedelta(seconds=case["before"])
    n = (case["before"] + case["after"]) // step
    grid = [t_start + timedelta(seconds=k * step) for k in range(n + 1)]
    if any(abs((g - leap).total_seconds()) < 125 for g in grid):
        return dict(nt=False, cls=["sample-near-leap"])
    mu = go.MU["Earth"]
    el = case["el"]
    epoch = Date(t_start + timedelta(seconds=case["epoch_off"]))
    if case["kind"] == "sgp4":
        nrev = min(max(math.sqrt(mu / el["a"] ** 3) * 86400 / (2 * math.pi), 2.0), 15.5)
        orb = Orbit([el["i"], el["raan"], min(el["e"], 0.2), el["argp"], 0.3, nrev * 2 * math.pi / 86400.0], epoch, "TLE", "TEME",
                    "Sgp4", bstar=1e-5, ndot=0.0, ndotdot=0.0, norad_id=25544, cospar_id="1998-067A", element_nb=1,
                    revolutions=1, name="VERIF")
    else:
        cart = tb.kep2cart(el["a"], el["e"], el["i"], el["raan"], el["argp"], el["nu"], mu)
        orb = Orbit(list(cart), epoch, "cartesian", "EME2000", "Kepler" if case["kind"] == "kepler" else "J2")
    want = grid[::-1] if case["backward"] else grid
    kw = dict(start=Date(want[0]), stop=Date(want[-1]), step=timedelta(seconds=step))
    got = list({"iter": orb.iter, "ephemeris": orb.ephemeris, "ephem": lambda **k: iter(orb.ephem(**k))}[case["route"]](**kw))
    what = (f"{case['kind']} {case['route']}({want[0]} .. {want[-1]} UTC every {step} s, across the leap second of {leap})")
    dates = [g.date.datetime for g in got]
    if case["route"] == "ephem":
        want = sorted(want)  # an Ephem keeps its points in chronological order whatever the direction they were computed in
    if dates != want:
        raise Violation("leap-range-dates", f"{what}: {len(dates)} dates {dates[:2]} .. {dates[-2:]}, the UTC grid has "
                        f"{len(want)}: {want[:2]} .. {want[-2:]}")
    worst = 0.0
    for g in got:
        direct = np.asarray(orb.propagate(g.date).copy(form="cartesian").base, float)
        mine = np.asarray(g.copy(form="cartesian").base, float)
        d = float(np.linalg.norm(mine[:3] - direct[:3]))
        worst = max(worst, d / 1e-6)
        if not d <= 1e-6:
            raise Violation("leap-range-state", f"{what}: the state yielded for {g.date} is {d:.6g} m from orb.propagate(that date)")
    return dict(nt=True, cls=[case["kind"], "backward" if case["backward"] else "forward", f"route:{case['route']}"], ratio=worst)


def _facet(kind, quick, thorough):
    return Facet(kind, (lambda s, t, k=kind: history(k)), check, setup=setup,
                 rule=">= 2 different kinds of call on the same objects and at least one backward / non-dividing / short / off-grid range (or an op excluded as a listed known finding, after which the history continued)",
                 quick=quick, thorough=thorough, shrink_quick=True)


FACETS = [
    _facet("sgp4", (3, 60), (8, 600)),
    _facet("kepler", (3, 60), (8, 600)),
    _facet("j2", (2, 60), (8, 600)),
    _facet("none", (2, 60), (6, 600)),
    _facet("keplernum", (8, 30), (16, 300)),
    _facet("cw", (2, 60), (6, 600)),
    _facet("ephem", (3, 60), (8, 600)),
    Facet("across_leap_second", lambda s, t: leap_range_case(), check_leap_range, setup=setup_real,
          rule="every case (no sample within 125 s of the leap second)",
          quick=(4, 25), thorough=(8, 250)),
    Facet("adaptive_dates", lambda s, t: adaptive_dates_case(), check_adaptive_dates, setup=setup,
          rule="every case: a forward tabulation of an adaptive numerical propagator with an explicit output step",
          quick=(4, 40), thorough=(8, 400)),
]
