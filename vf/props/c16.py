"""C16 - Clohessy-Wiltshire propagation solves Hill's equations (and CWHelper keeps its promises).

All times are integer microseconds after the orbit's epoch: beyond computes durations through
`datetime`, so one microsecond is the resolution of the propagator's clock and every date used
here is exactly representable on it.
"""

import math
import os

import numpy as np
from hypothesis import strategies as st

from ..core import Facet, Violation
from ..gen.draws import D
from ..oracles import hill
from ..oracles import twobody as tb

RULE = ("Cases drawn as (target radius, orientation, relative state in the orientation's own axes, "
        "chronological non-overlapping list of maneuvers, query times in integer microseconds); "
        "reference solution from the matrix exponential of Hill's equations (vf/oracles/hill.py).")
ASSUMPTIONS = [
    "oracle: X' = A X + B a with A, B written from Hill's equations in QSW and, separately, in TNW "
    "(T = S, N = -Q, W = W); Phi and Gamma from an extended-precision scaling-and-squaring matrix "
    "exponential of the non-dimensional augmented system (no closed form)",
    "n = sqrt(mu / sma^3) with mu of the body the Hill frame is centred on: Earth (beyond's own centre), Mars, "
    "Moon (beyond.constants, constants not code under test) or a made-up Body of 1e24 kg (mass x G)",
    "multi_target: 2-3 propagators alive in one case, most of them with exactly the same semi major-axis about "
    "different bodies / orientations, used interleaved (propagate, propagate from a copy of the orbit, n, helper.period, helper.hohmann); each "
    "must match its own oracle whatever was evaluated before",
    "maneuvers are dated at or after the orbit's epoch and listed in chronological order of their "
    "start; maneuver frame is None (components in the orbit's own Hill axes).  Facet hill_solution "
    "uses lists that do not overlap (they may touch, as CWHelper.vbar_linear's do); facet overlap "
    "uses an impulse strictly inside a thrust arc / two arcs at once, with the superposition of the "
    "individual responses as reference (the equations are linear)",
    "a continuous maneuver thrusts on [start, stop); an impulse is in effect from its date on",
    "two_orbits: Kepler truth from vf/oracles/twobody.py (universal variables); separation 20..100 m "
    "and relative speed <= n * separation, rectilinear QSW components; 'second order' = 30 S^2/r (1+|nt|) "
    "with S the largest separation met on the way (calibrated: <= 9.2 S^2/r over 3000 cases), and the "
    "discrepancy must fall to <= 0.3 of itself when the separation is halved",
    "helper: outcomes are read at the dates carried by the maneuvers the helper returns (its period "
    "is rounded to a microsecond), tolerance = 1e-10 of the distances involved + 15 us of motion (the rounding is <= 1 us)",
    "EOP configuration missing-pass (dates are only used for their differences)",
]
LEVEL_TEXT = "exploration"
LEVEL_NOTE = "random search; both orientations, radii from LEO to GEO, up to 4 maneuvers, |dt| <= 2 periods"
TECHNIQUE = "property-based testing (Hypothesis) against a matrix-exponential oracle and a two-body oracle"

EPS = float(np.finfo(float).eps)
US = 1e-6
# Central bodies of the Hill frame.  GEN_MU only sizes the drawn time spans (the generator must not
# import beyond); the oracle takes mu from beyond.constants (a constant, not the code under test),
# for the made-up body from its own mass x G.
GEN_MU = {"Earth": 3.986004418e14, "Mars": 4.2828e13, "Moon": 4.9e12, "Custom": 6.674e13}
SMA_RANGE = {"Earth": (6.6e6, 4.3e7), "Mars": (3.6e6, 2.2e7), "Moon": (1.8e6, 1.2e7), "Custom": (5.0e6, 3.0e7)}
CUSTOM_MASS = 1.0e24
_MU = {}
_CENTERS = {}


def mu(body="Earth"):
    if body not in _MU:
        from beyond import constants

        _MU[body] = float(CUSTOM_MASS * constants.G) if body == "Custom" else float(getattr(constants, body).mu)
    return _MU[body]


def center_of(body):
    """Centre of a Hill frame about `body` (one object per process; the Earth one is beyond's own)."""
    if body not in _CENTERS:
        from beyond import constants
        from beyond.frames import center

        if body == "Earth":
            _CENTERS[body] = center.Earth
        elif body == "Custom":
            _CENTERS[body] = center.Center("VFCustom", body=constants.Body("VFCustom", CUSTOM_MASS, 5.0e6))
        else:
            _CENTERS[body] = center.Center(f"VF{body}", body=getattr(constants, body))
    return _CENTERS[body]


def body_of(case):
    return case.get("body", "Earth")


def mean_motion(sma, body="Earth"):
    return math.sqrt(mu(body) / sma**3)


# ------------------------------------------------------------------ library objects


BASE_DAYS = [(2020, 1, 1), (2019, 12, 31), (2016, 12, 31), (2020, 2, 29), (2015, 6, 30), (2021, 1, 1)]
# not TDB: relabelling to TDB moves the instant by a fraction of a microsecond and Date + timedelta is not
# uniform there (periodic TDB-TT term) - time-scale arithmetic is C03's subject, here dates must be exact
SCALES = ["UTC", "TAI", "TT", "GPS", "UT1"]


def epoch_date(k0, base=0):
    """The epoch as a UTC date; every other date of a case is this one + whole microseconds."""
    from beyond.dates import Date, timedelta

    return Date(*BASE_DAYS[base % len(BASE_DAYS)]) + timedelta(microseconds=int(k0))


def at(epoch, k, label="UTC"):
    """The instant epoch + k microseconds, carrying the given time-scale label."""
    from beyond.dates import timedelta

    date = epoch + timedelta(microseconds=int(k))
    return date if label == "UTC" else date.change_scale(label)


def as_container(values, how):
    """The same numbers in another container / dtype ('int*' only for integer-valued numbers)."""
    v = [float(x) for x in values]
    if how in ("int-list", "int64") and all(x == int(x) for x in v):
        return [int(x) for x in v] if how == "int-list" else np.array([int(x) for x in v], np.int64)
    return {"list": v, "tuple": tuple(v), "f64": np.array(v), "view": np.array([v, v]).T[:, 0]}.get(how, v)


def make_mans(epoch, mans, sp=None):
    from beyond.dates import timedelta
    from beyond.orbits.man import ContinuousMan, ImpulsiveMan

    sp = sp or {}
    labels = sp.get("lab_man") or ["UTC"]
    how = sp.get("dv_as", "list")
    out = []
    keep = []
    for j, m in enumerate(mans):
        lab = labels[j % len(labels)]
        if m["kind"] == "imp":
            arg = as_container(m["dv"], how)
            out.append(ImpulsiveMan(at(epoch, m["t"], lab), arg))
        else:
            dur = timedelta(microseconds=int(m["dur"]))
            pos = m.get("pos", "start")
            ref = {"start": m["t"], "stop": m["t"] + m["dur"], "median": m["t"] + m["dur"] // 2}[pos]
            arg = as_container(m["dv"] if "dv" in m else m["accel"], how)
            kw = {"dv": arg} if "dv" in m else {"accel": arg}
            out.append(ContinuousMan(at(epoch, ref, lab), dur, date_pos=pos, **kw))
        keep.append(arg)
    if sp.get("scribble_args"):
        # the caller re-uses its arrays for something else once the maneuvers are built
        for arg in keep:
            if isinstance(arg, np.ndarray):
                arg[...] = 9.0e9
    return out


def polar_forms(x, form):
    """Spherical / cylindrical coordinates of a cartesian state, from their definitions."""
    px, py, pz, vx, vy, vz = [float(c) for c in x]
    rho2 = px * px + py * py
    rho = math.sqrt(rho2)
    if form == "cylindrical":
        return [rho, math.atan2(py, px), pz, (px * vx + py * vy) / rho, (px * vy - py * vx) / rho2, vz]
    r = math.sqrt(rho2 + pz * pz)
    return [r, math.atan2(py, px), math.asin(pz / r), (px * vx + py * vy + pz * vz) / r,
            (px * vy - py * vx) / rho2, (vz * rho2 - pz * (px * vx + py * vy)) / (r * r * rho)]


_inertial = {}
_count = [0]


def inertial_frame(body):
    """A non-rotating frame centred on the body (EME2000 axes) in which a target orbit can be given."""
    if body == "Earth":
        return "EME2000"
    if body not in _inertial:
        from beyond.frames import frames, orient

        _inertial[body] = frames.Frame(f"VF{body}Inertial", orient.EME2000, center_of(body))
    return _inertial[body]


def propagator_from_target(case, ori):
    """ClohessyWiltshire.from_orbit(target): the target is a circular orbit of radius case['sma'] about the
    case's body, given by its cartesian state (from the oracle's perifocal construction)."""
    from beyond.orbits import Orbit
    from beyond.propagators.cw import ClohessyWiltshire

    sp = case["sp"]
    body = body_of(case)
    rv = tb.kep2cart(case["sma"], 0.0, sp.get("inc", 0.9), sp.get("raan", 1.0), 0.0, sp.get("u0", 2.0), mu(body))
    epoch = epoch_date(case["k0"], sp.get("base", 0))
    target = Orbit(rv.tolist(), epoch, "cartesian", inertial_frame(body), "Kepler")
    _count[0] += 1
    prop = ClohessyWiltshire.from_orbit(target, orientation=ori, name=f"VFcw{os.getpid() % 1000}x{_count[0]}")
    if prop.frame.orientation != ori:
        raise Violation("from-orbit-orientation", f"from_orbit(target, orientation='{ori}') gives a propagator in "
                        f"{prop.frame.name}")
    if prop.frame.center.body is not center_of(body).body:
        raise Violation("from-orbit-body", f"from_orbit(target about {body}) gives a Hill frame about "
                        f"{prop.frame.center.body!r}")
    if abs(float(prop.sma) / case["sma"] - 1) > 1e-12:
        raise Violation("from-orbit-sma", f"from_orbit: sma {float(prop.sma)!r} for a circular target of radius {case['sma']!r}")
    return prop


def make_orbit(case, ori=None, x0=None, mans=None, prop=None):
    from beyond.frames.frames import HillFrame
    from beyond.orbits import Orbit
    from beyond.propagators.cw import ClohessyWiltshire

    sp = case.get("sp") or {}
    epoch = epoch_date(case["k0"], sp.get("base", 0))
    if prop is None and sp.get("via") == "from_orbit":
        prop = propagator_from_target(case, ori or case["ori"])
    if prop is None:
        frame = HillFrame(orientation=ori or case["ori"], center=center_of(body_of(case)))
        sma = int(case["sma"]) if sp.get("sma_int") and case["sma"] == int(case["sma"]) else case["sma"]
        # "Hill" names the Hill frame created last
        prop = ClohessyWiltshire(sma, frame="Hill" if sp.get("frame_name") else frame)
    frame = prop.frame
    coords = list(case["x0"] if x0 is None else x0)
    form = sp.get("form", "cartesian")
    if form != "cartesian":
        rho = math.hypot(coords[0], coords[1])
        if rho < 0.1 * math.sqrt(rho * rho + coords[2] ** 2):
            form = "cartesian"         # too close to the polar axis of these forms
        else:
            coords = polar_forms(coords, form)
    arg = as_container(coords, sp.get("x0_as", "list"))
    orb = Orbit(arg, at(epoch, 0, sp.get("lab_epoch", "UTC")), form, frame, prop)
    if sp.get("scribble_args") and isinstance(arg, np.ndarray):
        arg[...] = -7.0e9
    ml = case.get("mans", []) if mans is None else mans
    if ml:
        orb.maneuvers = make_mans(epoch, ml, sp)
    how = sp.get("clone", "none")
    if how == "copy":
        orb = orb.copy()
    elif how == "pickle":
        import pickle

        orb = pickle.loads(pickle.dumps(orb))
    elif how in ("copy.copy", "deepcopy"):
        import copy

        orb = copy.copy(orb) if how == "copy.copy" else copy.deepcopy(orb)
    return orb, epoch


def oracle_events(mans):
    """Maneuver dicts -> events of hill.piecewise (times in seconds)."""
    ev = []
    for m in mans:
        if m["kind"] == "imp":
            ev.append(dict(kind="imp", t=m["t"] * US, dv=m["dv"]))
        else:
            acc = m["accel"] if "accel" in m else [v / (m["dur"] * US) for v in m["dv"]]
            ev.append(dict(kind="cont", t0=m["t"] * US, t1=(m["t"] + m["dur"]) * US, accel=acc))
    return ev


def state_of(res):
    v = np.array(res.view(np.ndarray), dtype=float)      # a copy: the caller may overwrite `res` later
    if v.shape != (6,) or not np.all(np.isfinite(v)):
        raise Violation("non-finite", f"result {v.tolist()}")
    return v


def offset_us(res, epoch):
    d = res.date - epoch
    return d.days * 86400 * 10**6 + d.seconds * 10**6 + d.microseconds


# ------------------------------------------------------------------ generators


def draw_state(d, rmax=5000.0, vmax=5.0):
    return [d.signed(rmax * 1e-3, rmax) for _ in range(3)] + [d.signed(vmax * 1e-3, vmax) for _ in range(3)]


def draw_target(d):
    body = d.pick("Earth", "Earth", "Earth", "Mars", "Moon", "Custom")
    lo, hi = SMA_RANGE[body]
    if body == "Earth" and d.int(0, 3) == 0:
        sma = d.pick(6.6e6, 6.778e6, 4.2164e7, 4.3e7)
    else:
        sma = d.u(lo, hi)
    return sma, d.pick("QSW", "TNW"), d.int(0, 86_399_999_999), body


def period_us(sma, body="Earth"):
    return int(2 * math.pi / math.sqrt(GEN_MU[body] / sma**3) * 1e6)


def draw_mans(d, sma, nmax=4, kinds=("imp", "cont"), min_gap=0, body="Earth"):
    """Chronological, non-overlapping maneuvers within ~2 periods after the epoch."""
    P = period_us(sma, body)
    mans = []
    now = 0
    for _ in range(d.int(0, nmax)):
        gap = d.pick(0, 0, 1, 1_000_000) if (d.int(0, 3) == 0 and min_gap == 0) else int(d.u(0, P / 2))
        t = now + max(gap, min_gap)
        if d.pick(*kinds) == "imp":
            mans.append(dict(kind="imp", t=t, dv=[d.signed(1e-3, 2.0) for _ in range(3)]))
            now = t
        else:
            dur = 2 * int(d.u(500_000, P / 4))  # even, so that 'median' is exact
            m = dict(kind="cont", t=t, dur=dur, pos=d.pick("start", "start", "stop", "median"))
            if d.coin():
                m["accel"] = [d.signed(1e-6, 1e-2) for _ in range(3)]
            else:
                m["dv"] = [d.signed(1e-3, 2.0) for _ in range(3)]
            mans.append(m)
            now = t + dur
    return mans


def draw_queries(d, sma, mans, count, body="Earth"):
    """Times of interest: around every maneuver edge, inside thrust arcs, anywhere in +-2 periods."""
    P = period_us(sma, body)
    pool = [0]
    for m in mans:
        pool += [m["t"] - 1, m["t"], m["t"] + 1]
        if m["kind"] == "cont":
            end = m["t"] + m["dur"]
            pool += [end - 1, end, end + 1, m["t"] + int(d.u() * m["dur"])]
    qs = []
    for _ in range(count):
        if d.int(0, 2) == 0:
            qs.append(int(d.u(-2.0, 2.0) * P))
        elif d.int(0, 3) == 0:
            qs.append(d.pick(1, -1, 1000, 60_000_000))
        else:
            qs.append(pool[d.int(0, 10_000) % len(pool)])
    return qs


def classes(case, extra=()):
    c = [case["ori"], body_of(case), "leo" if case["sma"] < 8e6 else "geo" if case["sma"] > 4e7 else "meo"]
    mans = case.get("mans", [])
    c.append(f"mans:{len(mans)}")
    if any(m["kind"] == "cont" for m in mans):
        c.append("thrust")
    return c + list(extra)


def tol_state(n, scale, nt, nseg=1):
    """Rounding allowance of the closed-form matrices: entries up to 7 + 6|nt| (thrust: 8 + 1.5 nt^2)
    times the non-dimensional size of the state, each evaluated with a few roundings."""
    amp = (1 + abs(nt)) ** 2
    pos = 64 * EPS * amp * scale * nseg + 1e-300
    return np.array([pos] * 3 + [pos * n] * 3)


# ------------------------------------------------------------------ hill_solution


@st.composite
def sol_case(draw, shard, tier):
    d = D(draw)
    sma, ori, k0, body = draw_target(d)
    mans = draw_mans(d, sma, body=body)
    return dict(sma=sma, ori=ori, k0=k0, x0=draw_state(d), mans=mans,
                qs=draw_queries(d, sma, mans, d.int(3, 7), body), body=body, api=d.pick("date", "date", "delta", "iter", "range"))


def check_solution(case):
    from beyond.dates import timedelta

    orb, epoch = make_orbit(case)
    n = mean_motion(case["sma"], body_of(case))
    if abs(float(orb.propagator.n) / n - 1) > 4 * EPS:
        raise Violation("mean-motion", f"propagator.n = {float(orb.propagator.n)!r}, sqrt(mu/a^3) = {n!r}")
    events = oracle_events(case["mans"])
    x0 = np.array(case["x0"], float)
    qs = list(case["qs"])
    api = case["api"]
    if api == "range":
        # start/stop/step iteration: an arithmetic progression of dates
        lo, hi = min(qs), max(qs)
        step = max((hi - lo) // 5, 1)
        qs = list(range(lo, hi + 1, step))[:8]
        got = list(orb.iter(start=at(epoch, lo), stop=at(epoch, qs[-1]), step=timedelta(microseconds=step)))
        if len(got) != len(qs):
            raise Violation("iter-count", f"iter(start, stop, step) gave {len(got)} points for {len(qs)} dates")
    elif api == "iter":
        got = list(orb.iter(dates=[at(epoch, k) for k in qs]))
        if len(got) != len(qs):
            raise Violation("iter-count", f"iter(dates=) gave {len(got)} points for {len(qs)} dates")
    elif api == "delta":
        got = [orb.propagate(timedelta(microseconds=int(k))) for k in qs]
    else:
        got = [orb.propagate(at(epoch, k)) for k in qs]
    worst = 0.0
    nt_max = 0.0
    last = max([0] + [m["t"] + m.get("dur", 0) for m in case["mans"]])
    for k, res in zip(qs, got):
        if offset_us(res, epoch) != k:
            raise Violation("result-date", f"asked epoch{k:+d} us, result dated epoch{offset_us(res, epoch):+d} us")
        if res.frame.orientation != case["ori"]:
            raise Violation("result-frame", f"result in {res.frame.name}")
        t = k * US
        want, scale = hill.piecewise(n, x0, events, t, case["ori"])
        span = max(abs(t), min(max(t, 0.0), last * US))
        nseg = 1 + sum(1 for e in events if t >= e.get("t", e.get("t0")))
        tol = tol_state(n, scale, n * span, nseg)
        v = state_of(res)
        r = float(np.max(np.abs(v - want) / tol))
        worst = max(worst, r)
        nt_max = max(nt_max, abs(n * t))
        if r > 1:
            j = int(np.argmax(np.abs(v - want) / tol))
            raise Violation(
                "hill-solution",
                f"{case['ori']} a={case['sma']:.6g} m, t={t!r} s ({len(case['mans'])} maneuvers, api {api}): "
                f"component {j} is {float(v[j])!r}, Hill's equations give {float(want[j])!r} ({r:.3g} x tol)",
                component=j, ratio=r)
    # the orbit the propagation started from is untouched
    if not np.array_equal(np.asarray(orb.base, float), x0) or offset_us(orb, epoch) != 0:
        raise Violation("source-mutated", "propagating changed the initial orbit")
    return dict(nt=nt_max > 0.1, cls=classes(case, [f"api:{api}"]), ratio=worst)


# ------------------------------------------------------------------ overlap


def draw_overlapping(d, sma, body="Earth"):
    """2-4 maneuvers in chronological order of their start, at least one pair overlapping: an impulse
    strictly inside a thrust arc, or two arcs thrusting at once."""
    P = period_us(sma, body)
    t0 = int(d.u(0, P / 2))
    dur = 2 * int(d.u(5_000_000, P / 2))
    mans = [dict(kind="cont", t=t0, dur=dur, accel=[d.signed(1e-6, 1e-2) for _ in range(3)])]
    for _ in range(d.int(1, 3)):
        t = t0 + 1 + int(d.u(0.0, 1.0) * (dur - 2)) if d.int(0, 3) else t0 + dur + int(d.u(0, P / 4))
        if d.coin():
            mans.append(dict(kind="imp", t=t, dv=[d.signed(1e-3, 2.0) for _ in range(3)]))
        else:
            m = dict(kind="cont", t=t, dur=2 * int(d.u(500_000, P / 4)))
            m["accel" if d.coin() else "dv"] = [d.signed(1e-4, 1e-2) for _ in range(3)]
            mans.append(m)
    mans.sort(key=lambda m: m["t"])
    return mans


def overlap_active(mans, k):
    """True if, at time k, a maneuver listed after a thrust arc in progress has already started."""
    for i, a in enumerate(mans):
        if a["kind"] == "cont" and a["t"] <= k < a["t"] + a["dur"]:
            return any(b["t"] <= k for b in mans[i + 1:])
    return False


@st.composite
def overlap_case(draw, shard, tier):
    d = D(draw)
    sma, ori, k0, body = draw_target(d)
    mans = draw_overlapping(d, sma, body)
    return dict(sma=sma, ori=ori, k0=k0, x0=draw_state(d), mans=mans, qs=draw_queries(d, sma, mans, d.int(3, 6), body), body=body,
                # how the dates are asked: one Orbit.propagate() each, or all of them on ONE attachment of the orbit to
                # its propagator (an iteration over the list of dates, in the drawn order or sorted; the propagator
                # itself asked date after date)
                route=d.pick("propagate", "propagate", "iter-dates", "iter-sorted", "iter-reversed", "propagator"))


def check_overlap(case):
    orb, epoch = make_orbit(case)
    n = mean_motion(case["sma"], body_of(case))
    events = oracle_events(case["mans"])
    x0 = np.array(case["x0"], float)
    worst = 0.0
    nt = False
    last = max(m["t"] + m.get("dur", 0) for m in case["mans"])
    route = case.get("route", "propagate")
    qs = list(case["qs"])
    if route == "iter-sorted":
        qs = sorted(qs)
    elif route == "iter-reversed":
        qs = sorted(qs, reverse=True)
    if route.startswith("iter"):
        answers = list(orb.iter(dates=[at(epoch, k) for k in qs]))
        if len(answers) != len(qs):
            raise Violation("iter-dates-count", f"iter(dates=<{len(qs)} dates>) yielded {len(answers)} states")
    elif route == "propagator":
        orb.propagate(at(epoch, qs[0]))          # attaches the orbit
        answers = [orb.propagator.propagate(at(epoch, k)) for k in qs]
    else:
        answers = [orb.propagate(at(epoch, k)) for k in qs]
    for k, res in zip(qs, answers):
        t = k * US
        want, scale = hill.superpose(n, x0, events, t, case["ori"])
        # beyond walks back and forth in time through overlapping maneuvers: allow for each leg
        tol = tol_state(n, scale, n * max(abs(t), min(max(t, 0.0), last * US)), 2 * len(events) + 1)
        v = state_of(res)
        r = float(np.max(np.abs(v - want) / tol))
        worst = max(worst, r)
        active = overlap_active(case["mans"], k)
        nt = nt or active
        if r > 1:
            j = int(np.argmax(np.abs(v - want) / tol))
            raise Violation(
                "hill-solution-overlap",
                f"{case['ori']} a={case['sma']:.6g} m, t={t!r} s, maneuvers starting at "
                f"{[m['t'] * US for m in case['mans']]} s ({'/'.join(m['kind'] for m in case['mans'])}): component {j} "
                f"is {float(v[j])!r}, superposition of the maneuvers' responses gives {float(want[j])!r} ({r:.3g} x tol)",
                t_us=k, component=j, ratio=r, overlap_active=active)
    return dict(nt=nt, cls=classes(case) + [f"route:{route}"], ratio=worst)


def maneuver_inside_thrust_arc(facet, case, kind, msg, data):
    """propagate() returns as soon as the date falls inside a ContinuousMan: maneuvers listed after
    that arc which have already started (an impulse during the burn, a second overlapping burn) are
    not applied until the arc is over."""
    return (facet == "overlap" and kind == "hill-solution-overlap" and "t_us" in data
            and overlap_active(case["mans"], data["t_us"]))


def suspended_iteration(facet, case, kind, msg, data):
    """AnalyticalPropagator._iter reads `self.orbit` at every step: an iteration that is suspended while another
    orbit attached to the same propagator object is propagated goes on with that other orbit."""
    return (facet == "multi_target" and kind == "suspended-iteration-multi" and data.get("step", 0) > 0
            and any("share" in t for t in case["targets"]))


FINDINGS = {"C16/maneuver-inside-thrust-arc": maneuver_inside_thrust_arc,
            "C16/suspended-iteration-follows-reattached-propagator": suspended_iteration}


# ------------------------------------------------------------------ spellings


@st.composite
def spell_case(draw, shard, tier):
    """The cases of hill_solution under other spellings of the same physical input: time-scale labels of
    the epoch / maneuver / propagation dates, relative state and delta-v as tuple, arrays, integers (the
    caller's arrays being re-used afterwards), the orbit held in spherical or cylindrical form, cloned by
    copy(), copy.copy, copy.deepcopy or pickle, the frame given by its name, the propagator obtained by ClohessyWiltshire.from_orbit(target orbit,
    orientation) about the case's body, an integer semi major-axis, other calendar days, spans
    and burns of several days, results overwritten in place by the caller and asked again."""
    d = D(draw)
    sma, ori, k0, body = draw_target(d)
    long = d.int(0, 3) == 0
    integers = d.int(0, 3) == 0
    if d.int(0, 2) == 0:
        sma = float(int(sma))
    mans = draw_mans(d, sma, nmax=3, body=body)
    if long:
        # burns of one to three days, spans of up to five days
        day = 86_400_000_000
        start = max([0] + [m["t"] + m.get("dur", 0) for m in mans])
        m = dict(kind="cont", t=start + int(d.u(0, 0.2) * day), dur=2 * int(d.u(0.5, 1.5) * day), pos=d.pick("start", "stop", "median"))
        m["dv" if d.coin() else "accel"] = [d.signed(1e-7, 1e-5) for _ in range(3)]
        if "dv" in m:
            m["dv"] = [v * 1e5 for v in m["dv"]]
        mans.append(m)
    x0 = draw_state(d)
    if integers:
        x0 = [float(round(v)) or 1.0 for v in x0]
        for m in mans:
            key = "dv" if "dv" in m else "accel"
            if key == "dv":
                m[key] = [float(round(v)) or 1.0 for v in m[key]]
    qs = draw_queries(d, sma, mans, d.int(3, 6), body)
    if long:
        qs += [int(d.u(-5.0, 5.0) * 86_400_000_000) for _ in range(2)]
    ints = ("int-list", "int64") if integers else ()
    sp = dict(base=d.int(0, 5), lab_epoch=d.pick(*SCALES), lab_man=[d.pick(*SCALES) for _ in range(3)],
              lab_q=[d.pick(*SCALES) for _ in range(4)],
              x0_as=d.pick("list", "tuple", "f64", "view", *ints), dv_as=d.pick("list", "tuple", "f64", *ints),
              scribble_args=d.coin(), form=d.pick("cartesian", "cartesian", "spherical", "cylindrical"),
              clone=d.pick("none", "none", "copy", "pickle", "copy.copy", "deepcopy"), frame_name=d.int(0, 3) == 0, sma_int=d.coin(),
              scribble=d.coin())
    if d.int(0, 7) == 0:
        # the propagator obtained from a target orbit (each call registers a frame: kept to ~1 case in 8)
        sp.update(via="from_orbit", inc=d.u(0.05, 3.0), raan=d.u(0.0, 6.2), u0=d.u(0.0, 6.2))
    return dict(sma=sma, ori=ori, k0=k0, x0=x0, mans=mans, qs=qs, body=body, api=d.pick("date", "date", "delta", "iter", "ephem"),
                sp=sp, long=long)


def check_spellings(case):
    from beyond.dates import timedelta

    sp = case["sp"]
    orb, epoch = make_orbit(case)
    n = mean_motion(case["sma"], body_of(case))
    events = oracle_events(case["mans"])
    x0 = np.array(case["x0"], float)
    qs = list(case["qs"])
    labs = sp["lab_q"]
    dates = [at(epoch, k, labs[j % len(labs)]) for j, k in enumerate(qs)]
    api = case["api"]
    if api == "iter":
        got = list(orb.iter(dates=dates))
    elif api == "ephem":
        # Orbit.ephem(): the same points gathered in an Ephem, which sorts them by date
        order_ = sorted(range(len(qs)), key=lambda j: qs[j])
        qs = [qs[j] for j in order_]
        dates = [dates[j] for j in order_]
        got = list(orb.ephem(dates=[dates[j] for j in sorted(range(len(qs)), key=lambda j: (j * 7) % len(qs))]))
    elif api == "delta":
        got = [orb.propagate(timedelta(microseconds=int(k))) for k in qs]
    else:
        got = [orb.propagate(dt) for dt in dates]
    if len(got) != len(qs):
        raise Violation("iter-count", f"{len(got)} results for {len(qs)} dates")
    worst = 0.0
    last = max([0] + [m["t"] + m.get("dur", 0) for m in case["mans"]])
    loose = 1.0 if sp["form"] == "cartesian" else 8.0
    for k, res, date in zip(qs, got, dates):
        if offset_us(res, epoch) != k:
            raise Violation("result-date", f"asked epoch{k:+d} us ({date}), result dated epoch{offset_us(res, epoch):+d} us")
        if res.frame.orientation != case["ori"]:
            raise Violation("result-frame", f"result in {res.frame.name}")
        t = k * US
        want, scale = hill.piecewise(n, x0, events, t, case["ori"])
        span = max(abs(t), min(max(t, 0.0), last * US))
        nseg = 1 + sum(1 for e in events if t >= e.get("t", e.get("t0")))
        tol = tol_state(n, scale, n * span, nseg) * loose
        v = state_of(res.copy(form="cartesian") if res.form.name != "cartesian" else res)
        r = float(np.max(np.abs(v - want) / tol))
        worst = max(worst, r)
        if r > 1:
            j = int(np.argmax(np.abs(v - want) / tol))
            raise Violation(
                "hill-solution-spelling",
                f"{case['ori']} about {body_of(case)}, a={case['sma']!r} m, t={t!r} s, {len(case['mans'])} maneuvers; spelled "
                f"{ {k_: v_ for k_, v_ in sp.items() if v_ not in (False, 'none', 'cartesian', 'list')} }: component {j} is "
                f"{float(v[j])!r}, Hill's equations give {float(want[j])!r} ({r:.3g} x tol)", component=j, ratio=r)
        if sp["scribble"] and api != "delta":
            # the caller overwrites the result in place, then asks again
            res[:] = 4321.0
            again = state_of(orb.propagate(date))
            if not np.array_equal(again, v) and res.form.name == "cartesian":
                raise Violation("result-aliased", f"t={t!r} s: after the caller overwrote the result in place the same "
                                f"request gives {again.tolist()} instead of {v.tolist()}")
    cls = [f"epoch:{sp['lab_epoch']}", "x0:" + sp["x0_as"], "dv:" + sp["dv_as"], "form:" + sp["form"], "clone:" + sp["clone"],
           "long" if case["long"] else "short"] + (["frame-by-name"] if sp["frame_name"] else []) + \
          (["via:from_orbit"] if sp.get("via") else []) + \
          (["scribble"] if sp["scribble"] else [])
    return dict(nt=True, cls=classes(case, cls), ratio=worst)


# ------------------------------------------------------------------ multi_target


@st.composite
def multi_case(draw, shard, tier):
    """2-3 propagators alive at once - some with EXACTLY the same semi major-axis about different
    bodies / in different orientations - used in a drawn interleaving."""
    d = D(draw)
    shared = d.pick(7.0e6, 1.0e7, 6.778e6) if d.coin() else d.u(6.0e6, 1.2e7)   # valid about every body
    targets = []
    for j in range(d.int(2, 3)):
        body = d.pick("Earth", "Mars", "Moon", "Custom")
        same = j == 0 or d.int(0, 3) > 0
        sma = shared if same else d.u(*SMA_RANGE[body])
        targets.append(dict(body=body, ori=d.pick("QSW", "TNW"), sma=sma, x0=draw_state(d)))
    # make sure two targets share the sma with different bodies in most cases
    if d.int(0, 4) > 0 and targets[0]["body"] == targets[1]["body"]:
        targets[1]["body"] = {"Earth": "Mars", "Mars": "Earth", "Moon": "Earth", "Custom": "Moon"}[targets[0]["body"]]
        targets[1]["sma"] = shared
    if d.int(0, 2) == 0:
        # one more chaser of target 0, attached to the SAME propagator object (Orbit.propagate re-attaches it)
        targets.append(dict(targets[0], x0=draw_state(d), share=0))
    ops = []
    for _ in range(d.int(3, 8)):
        j = d.int(0, len(targets) - 1)
        kind = d.pick("propagate", "propagate", "copy", "copy", "coelliptic", "period", "hohmann", "n", "chain", "chain",
                      "bad_attach", "two_iters", "iter_interleaved", "iter_interleaved")
        P = period_us(targets[j]["sma"], targets[j]["body"])
        t = int(d.u(-2.0, 2.0) * P)
        if d.int(0, 4) == 0:
            t = d.pick(0, 0, 1, -1) if not ops or d.coin() else ops[-1]["t"]     # exactly the epoch / the previous date
        ops.append(dict(j=j, kind=kind, t=t, t2=int(d.u(-2.0, 2.0) * P), radial=d.signed(10.0, 3000.0)))
    return dict(k0=d.int(0, 86_399_999_999), targets=targets, ops=ops, lazy=d.coin(), by_name=d.coin())


def check_multi(case):
    from beyond.utils.cwhelper import CWHelper

    built = {}

    by_name = case.get("by_name", False)

    def get(j):
        if j not in built:
            tg = case["targets"][j]
            sub = dict(sma=tg["sma"], ori=tg["ori"], body=tg["body"], k0=case["k0"], x0=tg["x0"])
            shared = get(tg["share"])[0].propagator if "share" in tg else None
            orb, epoch = make_orbit(sub, mans=[], prop=shared)
            built[j] = (orb, epoch, CWHelper(orb.propagator))
        return built[j]

    if by_name:
        # every Hill frame and propagator first; then the chaser orbits, labelled with the frame NAME
        # 'Hill' - which by then names the Hill frame created last, of another orientation / centre for
        # most targets.  The propagator's own frame rules: the numbers are taken as given.
        from beyond.frames.frames import HillFrame
        from beyond.orbits import Orbit
        from beyond.propagators.cw import ClohessyWiltshire

        props = {}
        for j, tg in enumerate(case["targets"]):
            if "share" in tg:
                props[j] = props[tg["share"]]
            else:
                props[j] = ClohessyWiltshire(tg["sma"], frame=HillFrame(orientation=tg["ori"], center=center_of(tg["body"])))
        epoch = epoch_date(case["k0"])
        order = sorted(range(len(props)), key=lambda j: (case["k0"] + 7 * j) % 5)
        for j in order:
            orb = Orbit(list(case["targets"][j]["x0"]), epoch, "cartesian", "Hill", props[j])
            built[j] = (orb, epoch, CWHelper(props[j]))
    elif not case["lazy"]:
        for j in range(len(case["targets"])):
            get(j)
    worst = 0.0
    for step, op in enumerate(case["ops"]):
        tg = case["targets"][op["j"]]
        orb, epoch, helper = get(op["j"])
        n = mean_motion(tg["sma"], tg["body"])
        who = f"step {step}: target {op['j']} ({tg['body']}, {tg['ori']}, a={tg['sma']!r} m) among " + \
              ", ".join(f"{t['body']}/a={t['sma']!r}" for t in case["targets"])
        if op["kind"] in ("propagate", "copy"):
            t = op["t"] * US
            # "copy": a copy of the orbit carries a copy of its propagator, which must stay this target's
            src = orb.copy() if op["kind"] == "copy" else orb
            res = src.propagate(at(epoch, op["t"]))
            if not by_name and res.frame.orientation != tg["ori"]:
                raise Violation("result-frame-multi", f"{who}: result in {res.frame.name}")
            got = state_of(res)
            want, scale = hill.piecewise(n, np.array(tg["x0"], float), [], t, tg["ori"])
            tol = tol_state(n, scale, n * t, 1)
            r = float(np.max(np.abs(got - want) / tol))
            worst = max(worst, r)
            if r > 1:
                j = int(np.argmax(np.abs(got - want) / tol))
                raise Violation("hill-solution-multi", f"{who}: t={t!r} s, component {j} is {float(got[j])!r}, Hill's "
                                f"equations about {tg['body']} give {float(want[j])!r} ({r:.3g} x tol)", ratio=r)
        elif op["kind"] == "chain":
            # a result handed out, propagated further by the caller (it shares the propagator: re-attached),
            # asked at its own date, then the original asked again
            x0 = np.array(tg["x0"], float)
            first = orb.propagate(at(epoch, op["t"]))
            v1 = state_of(first)
            if not hasattr(first, "propagate"):
                continue
            same = state_of(first.propagate(first.date))
            second = state_of(first.propagate(at(epoch, op["t2"])))
            again = state_of(orb.propagate(at(epoch, op["t"])))
            w1, sc1 = hill.piecewise(n, x0, [], op["t"] * US, tg["ori"])
            w2, sc2 = hill.piecewise(n, x0, [], op["t2"] * US, tg["ori"])
            tol = tol_state(n, max(sc1, sc2), n * (abs(op["t"]) + abs(op["t2"])) * US, 3)
            for what_, val, want in (("the result asked at its own date", same, v1), ("the original asked again", again, v1)):
                if not np.array_equal(val, want):
                    raise Violation("chain-multi", f"{who}: {what_} gives {val.tolist()} instead of {want.tolist()}")
            r = float(np.max(np.abs(second - w2) / tol))
            worst = max(worst, r)
            if r > 1:
                raise Violation("chain-multi", f"{who}: the state at {op['t'] * US} s propagated on to {op['t2'] * US} s is "
                                f"{second.tolist()}, Hill's equations give {w2.tolist()} ({r:.3g} x tol)", ratio=r)
        elif op["kind"] == "bad_attach":
            # an orbit that is not in a Hill frame is refused by the propagator - and the refusal leaves the
            # propagator with the orbit it had
            from beyond.orbits import Orbit

            before = state_of(orb.propagate(at(epoch, op["t"])))
            intruder = Orbit([7.0e6, 0.0, 0.0, 0.0, 7546.0, 0.0], epoch, "cartesian", "EME2000", orb.propagator)
            try:
                intruder.propagate(at(epoch, op["t"]))
            except TypeError:
                pass
            else:
                raise Violation("bad-attach-accepted", f"{who}: an orbit in EME2000 was propagated by the Clohessy-Wiltshire propagator")
            after = state_of(orb.propagator.propagate(at(epoch, op["t"])))
            if not np.array_equal(after, before):
                raise Violation("bad-attach-not-atomic", f"{who}: after a refused orbit the propagator answers {after.tolist()} "
                                f"instead of {before.tolist()} for the orbit it still holds")
        elif op["kind"] in ("two_iters", "iter_interleaved"):
            # two iterations of one orbit alive together / an iteration suspended while another chaser of the
            # same target (attached to the same propagator object) is propagated
            x0 = np.array(tg["x0"], float)
            ks = [op["t"], op["t2"], (op["t"] + op["t2"]) // 2]
            dates = [at(epoch, k) for k in ks]
            it1 = orb.iter(dates=dates)
            it2 = orb.iter(dates=dates) if op["kind"] == "two_iters" else None
            mates = [j2 for j2, t2_ in enumerate(case["targets"]) if j2 != op["j"] and
                     (t2_.get("share") == op["j"] or tg.get("share") == j2 or ("share" in tg and t2_.get("share") == tg["share"]))]
            for i_, k_ in enumerate(ks):
                got = state_of(next(it1))
                if it2 is not None and not np.array_equal(state_of(next(it2)), got):
                    raise Violation("two-iterators-multi", f"{who}: two iterations of one orbit disagree at step {i_}")
                if it2 is None and mates:
                    get(mates[0])[0].propagate(at(epoch, op["t2"]))          # re-attaches the shared propagator
                want, scale = hill.piecewise(n, x0, [], k_ * US, tg["ori"])
                tol = tol_state(n, scale, n * k_ * US, 1)
                r = float(np.max(np.abs(got - want) / tol))
                worst = max(worst, r)
                if r > 1:
                    raise Violation("suspended-iteration-multi" if (it2 is None and mates and i_ > 0) else "hill-solution-multi",
                                    f"{who}: point {i_} of iter(dates=) is {got.tolist()}, Hill's equations for THIS orbit give "
                                    f"{want.tolist()} ({r:.3g} x tol)" + (" - another orbit attached to the same propagator was "
                                    "propagated while the iteration was suspended" if mates and it2 is None else ""), ratio=r, step=i_)
        elif op["kind"] == "coelliptic":
            # CWHelper.coelliptic() labels its orbit 'Hill' as well
            t = op["t"] * US
            radial, tang = op["radial"], -2.5 * op["radial"]
            chaser = helper.coelliptic(epoch, radial, tang)
            got = state_of(chaser.propagate(at(epoch, op["t"])))
            x0c = hill.perm6(tg["ori"]) @ np.array([radial, tang, 0.0, 0.0, -1.5 * n * radial, 0.0])
            want, scale = hill.piecewise(n, x0c, [], t, tg["ori"])
            tol = tol_state(n, scale, n * t, 2)
            r = float(np.max(np.abs(got - want) / tol))
            worst = max(worst, r)
            if r > 1:
                raise Violation("coelliptic-multi", f"{who}: helper.coelliptic({radial!r}, {tang!r}) propagated {t!r} s gives "
                                f"{got.tolist()}, Hill's equations give {want.tolist()} ({r:.3g} x tol)", ratio=r)
        elif op["kind"] == "period":
            got = helper.period.total_seconds()
            if abs(got - 2 * math.pi / n) > 1e-6:
                raise Violation("period-multi", f"{who}: helper.period = {got!r} s, 2 pi / n = {2 * math.pi / n!r} s")
        elif op["kind"] == "n":
            got = float(orb.propagator.n)
            if abs(got / n - 1) > 4 * EPS:
                raise Violation("mean-motion-multi", f"{who}: propagator.n = {got!r}, sqrt(mu/a^3) = {n!r}")
        else:
            mans = helper.hohmann(op["radial"], at(epoch, max(op["t"], 0)))
            dv = np.asarray(mans[0].dv(orb), float)
            want = hill.perm6(tg["ori"])[:3, :3] @ np.array([0.0, op["radial"] * n / 4, 0.0])
            if np.max(np.abs(dv - want)) > 8 * EPS * abs(op["radial"]) * n:
                raise Violation("hohmann-multi", f"{who}: hohmann({op['radial']!r}) burns {dv.tolist()}, "
                                f"radial n / 4 along-track is {want.tolist()}")
    bodies = {(t["sma"], t["body"]) for t in case["targets"]}
    smas = {t["sma"] for t in case["targets"]}
    clash = len(bodies) > len(smas)
    return dict(nt=clash, cls=["same-sma-other-body" if clash else "distinct", f"targets:{len(case['targets'])}",
                               *(["shared-propagator"] if any("share" in t for t in case["targets"]) else []),
                               *(["orbits-by-name"] if by_name else []),
                               "lazy" if case["lazy"] else "eager"], ratio=worst)


# ------------------------------------------------------------------ composition / inverse


@st.composite
def comp_case(draw, shard, tier):
    d = D(draw)
    sma, ori, k0, body = draw_target(d)
    P = period_us(sma, body)
    return dict(sma=sma, ori=ori, k0=k0, x0=draw_state(d), body=body, t1=int(d.u(-2.0, 2.0) * P),
                t2=int(d.u(-2.0, 2.0) * P))


def check_composition(case):
    from beyond.orbits import Orbit

    orb, epoch = make_orbit(case, mans=[])
    n = mean_motion(case["sma"], body_of(case))
    t1, t2 = case["t1"], case["t2"]
    mid = orb.propagate(at(epoch, t1))
    direct = state_of(orb.propagate(at(epoch, t1 + t2)))
    orb2 = Orbit(state_of(mid).tolist(), mid.date, "cartesian", orb.frame, orb.propagator.copy())
    two = state_of(orb2.propagate(at(epoch, t1 + t2)))
    back = state_of(orb2.propagate(epoch))
    x0 = np.array(case["x0"], float)
    scale = max(hill._scale(n, x0, None), hill._scale(n, state_of(mid), None), hill._scale(n, direct, None))
    nt = n * (abs(t1) + abs(t2)) * US
    tol = tol_state(n, scale, nt, 3)
    r1 = float(np.max(np.abs(two - direct) / tol))
    r2 = float(np.max(np.abs(back - x0) / tol))
    if r1 > 1:
        raise Violation("composition", f"{case['ori']}: t1={t1 * US} s then t2={t2 * US} s gives {two.tolist()}, "
                        f"t1+t2 directly {direct.tolist()} ({r1:.3g} x tol)", ratio=r1)
    if r2 > 1:
        raise Violation("inverse", f"{case['ori']}: forth {t1 * US} s and back gives {back.tolist()} "
                        f"instead of {x0.tolist()} ({r2:.3g} x tol)", ratio=r2)
    return dict(nt=abs(n * t1 * US) > 0.1 and abs(n * t2 * US) > 0.1, cls=classes(case), ratio=max(r1, r2))


# ------------------------------------------------------------------ impulse


@st.composite
def imp_case(draw, shard, tier):
    d = D(draw)
    sma, ori, k0, body = draw_target(d)
    mans = draw_mans(d, sma, nmax=3, min_gap=1_000_000, body=body)
    # make sure there is an impulse, and pick one
    if not any(m["kind"] == "imp" for m in mans):
        end = max([0] + [m["t"] + m.get("dur", 0) for m in mans])
        mans.append(dict(kind="imp", t=end + 1_000_000 + int(d.u(0, period_us(sma, body) / 2)),
                         dv=[d.signed(1e-3, 2.0) for _ in range(3)]))
    imps = [j for j, m in enumerate(mans) if m["kind"] == "imp"]
    return dict(sma=sma, ori=ori, k0=k0, x0=draw_state(d), mans=mans, body=body, which=imps[d.int(0, 100) % len(imps)],
                later=d.u(0.0, 1.0))


def check_impulse(case):
    orb, epoch = make_orbit(case)
    n = mean_motion(case["sma"], body_of(case))
    mans = case["mans"]
    m = mans[case["which"]]
    tm = m["t"]
    dv = np.array(m["dv"], float)
    before = state_of(orb.propagate(at(epoch, tm - 1)))
    on = state_of(orb.propagate(at(epoch, tm)))
    after = state_of(orb.propagate(at(epoch, tm + 1)))
    on_again = state_of(orb.propagate(at(epoch, tm)))
    scale = max(hill._scale(n, before, None), hill._scale(n, on, None))
    tol = tol_state(n, scale, n * max(tm, 1) * US, case["which"] + 2)
    # one microsecond of free motion, by the oracle
    coast = np.asarray(hill.advance(n, before, US, None, case["ori"]), float)
    jump = on - coast
    want = np.concatenate([np.zeros(3), dv])
    r = float(np.max(np.abs(jump - want) / tol))
    if r > 1:
        raise Violation("impulse-jump", f"{case['ori']}: across the impulse at t={tm * US} s the state jumps by "
                        f"{jump.tolist()}, dv is {dv.tolist()} ({r:.3g} x tol)", ratio=r)
    coast2 = np.asarray(hill.advance(n, on, US, None, case["ori"]), float)
    r2 = float(np.max(np.abs(after - coast2) / tol))
    if r2 > 1:
        raise Violation("impulse-twice", f"{case['ori']}: 1 us after the impulse the state is {after.tolist()}, "
                        f"free motion from the state at the impulse gives {coast2.tolist()} ({r2:.3g} x tol)", ratio=r2)
    if not np.array_equal(on, on_again):
        raise Violation("not-repeatable", "two propagations to the impulse date differ")
    # until the next maneuver the motion is free: the impulse is not applied again later
    nxt = [mm["t"] for mm in mans[case["which"] + 1:]]
    horizon = (min(nxt) if nxt else tm + 2 * period_us(case["sma"], body_of(case))) - tm
    dt = int(case["later"] * max(horizon - 1, 0))
    far = state_of(orb.propagate(at(epoch, tm + dt)))
    coast3 = np.asarray(hill.advance(n, on, dt * US, None, case["ori"]), float)
    tol3 = tol_state(n, max(scale, hill._scale(n, far, None)), n * (tm + dt) * US, case["which"] + 2)
    r3 = float(np.max(np.abs(far - coast3) / tol3))
    if r3 > 1:
        raise Violation("impulse-later", f"{case['ori']}: {dt * US} s after the impulse the state is {far.tolist()}, "
                        f"free motion gives {coast3.tolist()} ({r3:.3g} x tol)", ratio=r3)
    return dict(nt=True, cls=classes(case), ratio=max(r, r2, r3))


# ------------------------------------------------------------------ tnw_is_permuted_qsw


@st.composite
def perm_case(draw, shard, tier):
    d = D(draw)
    sma, _, k0, body = draw_target(d)
    mans = draw_mans(d, sma, nmax=3, body=body)
    return dict(sma=sma, ori="QSW", k0=k0, x0=draw_state(d), mans=mans, qs=draw_queries(d, sma, mans, d.int(2, 5), body), body=body)


def permute_mans(mans, m3):
    out = []
    for m in mans:
        mm = dict(m)
        for key in ("dv", "accel"):
            if key in m:
                mm[key] = (m3 @ np.array(m[key], float)).tolist()
        out.append(mm)
    return out


def check_permutation(case):
    n = mean_motion(case["sma"], body_of(case))
    m6 = hill.perm6("TNW")
    orb_q, epoch = make_orbit(case, ori="QSW")
    res_q = [state_of(orb_q.propagate(at(epoch, k))) for k in case["qs"]]
    x0_t = (m6 @ np.array(case["x0"], float)).tolist()
    orb_t, epoch = make_orbit(case, ori="TNW", x0=x0_t, mans=permute_mans(case["mans"], hill.QSW2TNW))
    worst = 0.0
    for k, rq in zip(case["qs"], res_q):
        res = orb_t.propagate(at(epoch, k))
        if res.frame.orientation != "TNW":
            raise Violation("result-frame", f"result in {res.frame.name}")
        rt = state_of(res)
        want = m6 @ rq
        scale = hill._scale(n, rq, None) + hill._scale(n, np.array(case["x0"], float), None)
        tol = tol_state(n, scale, n * k * US, 1 + len(case["mans"]))
        r = float(np.max(np.abs(rt - want) / tol))
        worst = max(worst, r)
        if r > 1:
            raise Violation("tnw-permutation", f"t={k * US} s: TNW result {rt.tolist()} is not the permutation "
                            f"(S, -Q, W) of the QSW result {rq.tolist()} ({r:.3g} x tol)", ratio=r)
    return dict(nt=any(abs(n * k * US) > 0.1 for k in case["qs"]), cls=classes(case), ratio=worst)


# ------------------------------------------------------------------ two_orbits


@st.composite
def kep_case(draw, shard, tier):
    d = D(draw)
    sma, ori, k0, body = draw_target(d)
    n = math.sqrt(GEN_MU[body] / sma**3)
    rho = d.u(20.0, 100.0)
    # direction cosines, speed <= n * rho
    dirs = [d.u(-1.0, 1.0) for _ in range(6)]
    x0 = [rho * c for c in dirs[:3]] + [n * rho * c for c in dirs[3:]]
    return dict(sma=sma, ori=ori, k0=k0, body=body, x0=x0, inc=d.u(0.05, 3.0), raan=d.u(0, 6.28), u0=d.u(0, 6.28),
                t=int(d.u(-2.0, 2.0) * period_us(sma, body)))


def kepler_relative(case, x0_qsw, t):
    """Relative state (QSW of the target at t) of two oracle Kepler orbits; x0 in QSW axes."""
    r = case["sma"]
    body = body_of(case)
    n = mean_motion(r, body)
    tgt = tb.kep2cart(r, 0.0, case["inc"], case["raan"], 0.0, case["u0"], mu(body))

    def triad(rv):
        q = rv[:3] / np.linalg.norm(rv[:3])
        w = np.cross(rv[:3], rv[3:])
        w = w / np.linalg.norm(w)
        return np.array([q, np.cross(w, q), w]).T, w  # columns Q S W

    R0, w0 = triad(tgt)
    rho, rhod = np.array(x0_qsw[:3]), np.array(x0_qsw[3:])
    d0 = R0 @ rho
    chs = np.concatenate([tgt[:3] + d0, tgt[3:] + R0 @ rhod + np.cross(n * w0, d0)])
    tgt_t = tb.propagate_uv(tgt, t, mu(body))
    chs_t = tb.propagate_uv(chs, t, mu(body))
    R, w = triad(tgt_t)
    dd = chs_t[:3] - tgt_t[:3]
    return np.concatenate([R.T @ dd, R.T @ (chs_t[3:] - tgt_t[3:] - np.cross(n * w, dd))])


def check_two_orbits(case):
    n = mean_motion(case["sma"], body_of(case))
    t = case["t"] * US
    m6 = hill.perm6(case["ori"])
    errs = []
    for f in (1.0, 0.5):
        x0q = np.array(case["x0"], float) * f
        orb, epoch = make_orbit(case, x0=(m6 @ x0q).tolist(), mans=[])
        cw = m6.T @ state_of(orb.propagate(at(epoch, case["t"])))
        kep = kepler_relative(case, x0q, t)
        errs.append(float(np.linalg.norm(cw[:3] - kep[:3])))
    # largest separation met on the way (linear solution sampled 13 times): the neglected terms of the
    # gravity gradient are ~ 3 n^2 S^2 / r; calibration over 3000 cases: err <= 9.2 S^2 / r for every |nt| <= 13
    x0q = np.array(case["x0"], float)
    size = max(float(np.linalg.norm(np.asarray(hill.advance(n, x0q, t * j / 12), float)[:3])) for j in range(13))
    bound = 30.0 * size**2 / case["sma"] * (1 + abs(n * t))
    floor = 2e-12 * case["sma"] * (1 + abs(n * t))
    if errs[0] > bound + floor:
        raise Violation("not-second-order", f"{case['ori']} a={case['sma']:.6g} m, t={t} s: CW differs from the "
                        f"difference of two Kepler orbits by {errs[0]:.4g} m for a separation of {size:.4g} m "
                        f"(second-order bound {bound:.4g} m)", err=errs[0], bound=bound)
    if errs[1] > 0.3 * errs[0] + floor:
        raise Violation("not-quadratic", f"{case['ori']}: halving the separation reduces the discrepancy only "
                        f"from {errs[0]:.4g} m to {errs[1]:.4g} m", e1=errs[0], e2=errs[1])
    return dict(nt=abs(n * t) > 0.1, cls=classes(case), ratio=errs[0] / (bound + floor))


# ------------------------------------------------------------------ helper


HELPER_KINDS = ["coelliptic", "hohmann", "hohmann_cont", "hohmann_general", "eccentric", "eccentric_cont",
                "tangential", "vbar"]


@st.composite
def helper_case(draw, shard, tier):
    d = D(draw)
    sma, ori, k0, body = draw_target(d)
    P = period_us(sma, body)
    return dict(sma=sma, ori=ori, k0=k0, body=body, kind=d.pick(*HELPER_KINDS), dist=d.signed(5.0, 5000.0),
                radial0=d.signed(5.0, 5000.0), y0=d.signed(5.0, 20000.0), speed=math.exp(d.u(math.log(0.01), math.log(2.0))),
                hold=int(d.u(0.0, 0.5) * P) if d.coin() else 0, wait=int(d.u(0.0, 0.5) * P) if d.coin() else 0,
                frac=d.u(0.05, 0.95))


def man_events(mans, orb, epoch):
    """Oracle events from the maneuver objects the helper returned (public attributes only)."""
    from beyond.orbits.man import ImpulsiveMan

    ev = []
    for m in mans:
        if isinstance(m, ImpulsiveMan):
            ev.append(dict(kind="imp", t=offset_us_date(m.date, epoch) * US, dv=np.asarray(m.dv(orb), float).tolist()))
        else:
            ev.append(dict(kind="cont", t0=offset_us_date(m.start, epoch) * US, t1=offset_us_date(m.stop, epoch) * US,
                           accel=np.asarray(m.accel(orb), float).tolist()))
    return ev


def offset_us_date(date, epoch):
    d = date - epoch
    return d.days * 86400 * 10**6 + d.seconds * 10**6 + d.microseconds


def check_helper(case):
    from beyond.frames.frames import HillFrame
    from beyond.propagators.cw import ClohessyWiltshire
    from beyond.utils.cwhelper import CWHelper

    frame = HillFrame(orientation=case["ori"], center=center_of(body_of(case)))
    prop = ClohessyWiltshire(case["sma"], frame=frame)
    helper = CWHelper(prop)
    n = mean_motion(case["sma"], body_of(case))
    m6 = hill.perm6(case["ori"])
    epoch = epoch_date(case["k0"])
    kind = case["kind"]
    dist, y0 = case["dist"], case["y0"]
    P = 2 * math.pi / n
    if abs(helper.period.total_seconds() - P) > 1e-6:
        raise Violation("helper-period", f"period {helper.period.total_seconds()!r} s, 2 pi / n = {P!r} s")

    # --- initial orbit
    if kind in ("coelliptic", "hohmann_general"):
        radial0 = case["radial0"]
    elif kind in ("hohmann", "hohmann_cont"):
        radial0 = -dist  # arrival on the target's orbit
    else:
        radial0 = 0.0  # the boosts and the V-bar approach start at rest on the V-bar
    orb = helper.coelliptic(epoch, radial0, y0)
    start_q = np.array([radial0, y0, 0.0, 0.0, -1.5 * n * radial0, 0.0])
    got0 = state_of(orb)
    L = abs(radial0) + abs(y0) + abs(dist)
    if orb.frame.orientation != case["ori"]:
        raise Violation("helper-frame", f"coelliptic() orbit in {orb.frame.name}")
    if np.max(np.abs(m6.T @ got0 - start_q) / np.array([L] * 3 + [L * n] * 3)) > 1e-14:
        raise Violation("coelliptic-state", f"coelliptic({radial0}, {y0}) is {(m6.T @ got0).tolist()} in QSW, "
                        f"expected {start_q.tolist()}")
    if abs(float(helper.coelliptic_velocity(radial0)) - 1.5 * n * radial0) > 1e-14 * n * L:
        raise Violation("coelliptic-velocity", f"{helper.coelliptic_velocity(radial0)!r}")

    # --- maneuvers
    tm = at(epoch, case["hold"])
    if kind == "coelliptic":
        mans = []
    elif kind in ("hohmann", "hohmann_general"):
        mans = list(helper.hohmann(dist, tm))
    elif kind == "hohmann_cont":
        mans = list(helper.hohmann(dist, tm, continuous=True))
    elif kind == "eccentric":
        mans = list(helper.eccentric_boost(dist, tm))
    elif kind == "eccentric_cont":
        mans = list(helper.eccentric_boost(dist, tm, continuous=True))
    elif kind == "tangential":
        mans = list(helper.tangential_boost(dist, tm))
    else:
        mans = list(helper.vbar_linear(dist, tm, case["speed"]))
    if mans:
        orb.maneuvers = mans
    ends = [offset_us_date(getattr(m, "stop", None) or m.date, epoch) for m in mans]
    t_end = max(ends) if mans else case["hold"]
    hold_s = case["hold"] * US
    y_hold = y0 - 1.5 * n * radial0 * hold_s  # coelliptic drift before the maneuver starts

    # --- announced outcome at the end of the maneuver (QSW axes)
    expect_dur = {"hohmann": P / 2, "hohmann_general": P / 2, "hohmann_cont": P, "eccentric": P / 2,
                  "eccentric_cont": P, "tangential": P, "vbar": abs(dist / case["speed"]), "coelliptic": 0.0}[kind]
    if abs((t_end - case["hold"]) * US - expect_dur) > 2.5e-6:
        raise Violation("helper-duration", f"{kind}: maneuver lasts {(t_end - case['hold']) * US!r} s, "
                        f"announced {expect_dur!r} s")
    if kind == "coelliptic":
        announced = np.array([radial0, y_hold, 0, 0, -1.5 * n * radial0, 0])
    elif kind == "hohmann":
        announced = np.array([0, y_hold + float(helper.hohmann_distance(dist)), 0, 0, 0, 0])
    elif kind == "hohmann_cont":
        announced = np.array([0, y_hold + float(helper.hohmann_distance(dist, continuous=True)), 0, 0, 0, 0])
    elif kind == "hohmann_general":
        # from any coelliptic orbit: radial change = dist, coelliptic again; along-track = drift + transfer
        x1 = radial0 + dist
        travel = -1.5 * math.pi * radial0 - 0.75 * math.pi * dist
        announced = np.array([x1, y_hold + travel, 0, 0, -1.5 * n * x1, 0])
    else:
        announced = np.array([0, y_hold + dist, 0, 0, 0, 0])
    speed = n * L + (case["speed"] if kind == "vbar" else 0.0)
    tol_p = 1e-10 * L * (1 + n * t_end * US) ** 2 + 1.5e-5 * speed
    tol = np.array([tol_p] * 3 + [tol_p * n + 1e-16] * 3)
    if kind == "vbar":
        tol[3:] += 4 * EPS * case["speed"]

    worst = 0.0

    def compare(what, t_us, want):
        nonlocal worst
        lib = m6.T @ state_of(orb.propagate(at(epoch, t_us)))
        orc, _ = hill.piecewise(n, got0, man_events(mans, orb, epoch), t_us * US, case["ori"])
        orc = m6.T @ orc
        for name, val in (("library CW", lib), ("Hill oracle", orc)):
            r = float(np.max(np.abs(val - want) / tol))
            worst = max(worst, r)
            if r > 1:
                raise Violation(f"helper-{kind}", f"{case['ori']} a={case['sma']:.6g} m, {kind}(distance {dist:.6g} m): "
                                f"{what}, propagated by the {name}, the chaser is at {val.tolist()} (QSW), "
                                f"announced {want.tolist()} ({r:.3g} x tol)", ratio=r, by=name)

    compare("at the end of the maneuver", t_end, announced)
    # afterwards the chaser stays where it was left (or keeps drifting coelliptically)
    w = case["wait"]
    if w:
        later = announced.copy()
        later[1] += announced[4] * w * US
        compare(f"{w * US} s after the maneuver", t_end + w, later)
    if kind == "vbar":
        # straight line at constant speed, radial stays zero
        tq = case["hold"] + int(case["frac"] * (t_end - case["hold"]))
        v = math.copysign(case["speed"], dist)
        compare("during the approach", tq, np.array([0, y_hold + v * (tq - case["hold"]) * US, 0, 0, v, 0]))
    if kind == "coelliptic" and case["wait"] == 0:
        compare("one period later", case["hold"] + period_us(case["sma"], body_of(case)),
                np.array([radial0, y_hold - 1.5 * n * radial0 * period_us(case["sma"], body_of(case)) * US, 0, 0, -1.5 * n * radial0, 0]))
    return dict(nt=True, cls=[case["ori"], kind, "hold" if case["hold"] else "immediate"], ratio=worst)


# ------------------------------------------------------------------ registry


def _setup(shard):
    from .. import env

    env.eop("missing-pass")


FACETS = [
    Facet("hill_solution", sol_case, check_solution, setup=_setup,
          rule="|n t| > 0.1 for some query (all three axes always carry position and velocity)",
          quick=(12, 400), thorough=(24, 4000)),
    Facet("overlap", overlap_case, check_overlap, setup=_setup,
          rule="some query falls inside a thrust arc after a later-listed maneuver has started",
          quick=(6, 300), thorough=(12, 3000)),
    Facet("spellings", spell_case, check_spellings, setup=_setup,
          rule="every case: hill_solution input under another spelling (labels, containers, form, clone, days, ...)",
          quick=(8, 300), thorough=(16, 3000)),
    Facet("multi_target", multi_case, check_multi, setup=_setup,
          rule="two live propagators have exactly the same semi major-axis about different bodies",
          quick=(6, 300), thorough=(12, 3000)),
    Facet("composition", comp_case, check_composition, setup=_setup,
          rule="|n t1| > 0.1 and |n t2| > 0.1", quick=(6, 400), thorough=(12, 4000)),
    Facet("impulse", imp_case, check_impulse, setup=_setup,
          rule="every case (an impulsive maneuver is present by construction)", quick=(8, 350), thorough=(16, 3000)),
    Facet("tnw_is_permuted_qsw", perm_case, check_permutation, setup=_setup,
          rule="|n t| > 0.1 for some query", quick=(6, 350), thorough=(12, 3000)),
    Facet("two_orbits", kep_case, check_two_orbits, setup=_setup,
          rule="|n t| > 0.1", quick=(8, 350), thorough=(16, 3000)),
    Facet("helper", helper_case, check_helper, setup=_setup,
          rule="every case: one CWHelper scenario measured with the library's CW and with the oracle",
          quick=(8, 450), thorough=(16, 3000)),
]
