"""C02 - frame conversions are consistent rigid motions with correct kinematics."""

import math
import os

import numpy as np
from hypothesis import strategies as st

from ..core import Facet, Violation
from ..gen.draws import D
from ..oracles import earth as oe
from ..oracles import iers
from ..oracles import twobody as tb

RULE = ("A case is one instant + one state; the check walks through *all* ordered pairs (a drawn "
        "slice of all ordered triples) of the frame set of a generated world: 11 built-in names, "
        "2 stations, 3 frames attached to a Kepler orbit (axes of the parent / QSW / TNW), and in "
        "JPL shards Moon, Sun, MarsBarycenter, SolarSystemBarycenter. Reference facets draw dates "
        "evenly over 1973-2017.")
ASSUMPTIONS = [
    "attached_origin: the reference orbits include SGP4 orbits from a TLE and a numerically propagated orbit with an "
    "impulsive maneuver dated at its epoch (their stored state is not what their propagator returns at that date); "
    "dates include exactly the reference's epoch and epoch +- 1 us; oracle = reference.propagate(date) taken to the "
    "parent frame by the library's cartesian conversion + own QSW / TNW triads",
    "inverse facet: the six numbers of a state are handed over as list / tuple / float64 / float32 / python-int / "
    "int64 containers (the caller's array must stay untouched and unshared), the state may be a clone (.copy(), "
    "pickle, copy.copy, copy.deepcopy - the original must stay untouched), the target frame is named by object, by "
    "name or through copy(same=template), the state is held in cartesian / spherical / cylindrical form while its "
    "frame changes (element forms: forms_across_bodies, also between Earth-centred frames); 30 % of the reference "
    "dates fall 5-20 min from 0h UTC on the turn of a year, a leap-second day or its eve, or the first / last "
    "days of the EOP tables",
    "forms_across_bodies: the reference is the library's own conversion of the *cartesian* state (decided by the "
    "other facets; closed form for the fixed-offset frames); conics with |e-1| < 1e-3, e > 20, |H| > 8 or within "
    "0.01 rad of the equator about either body are outside; tolerance 3e-10 x conditioning + 3e-9 relative",
    "oracle: GMST-82, ERA, IAU-76 precession, 35-term IAU-1980 nutation, pole axis in vf/oracles/earth.py "
    "(self-tested on Meeus' worked examples); UT1 / TT readings and x, y, LOD from the independent IERS "
    "reader vf/oracles/iers.py",
    "the date handed to the library carries a drawn scale label (UTC/TAI/TT/GPS everywhere; also UT1/TDB in the "
    "reference, chain and EOP-switch facets, whose tolerances absorb the 1 us relabelling quantum); the oracle always "
    "works from the UTC reading of the instant",
    "instants are kept >= 50 min away from 0h UTC: which day's EOP record serves next to midnight, and leap "
    "seconds, are decided by C03 / C04",
    "the derivative clause is not applied to a frame centred on an SGP4 orbit (its velocity is not the exact "
    "derivative of its position, by a few cm/s), nor to QSW / TNW orientations (instantaneous axes, no rate by design); "
    "it allows for the precession / nutation rate the model leaves out (<= 1.8e-11 rad/s; 2e-10 rad/s x geocentric "
    "distance allowed) and for the 40 us staircase of the library's sidereal time (single-float Julian date)",
    "body-centred frames: the library hands jplephem a single-float Julian date (40 us); their derivative "
    "clause is checked with 600 s / 2400 s differences to 0.02 m/s + 1e-7 |v|",
    "worlds (stations, orbit, epoch) are a fixed function of the world number carried by the case; the reference "
    "orbit of the ORB / QSW / TNW frames propagates in EME2000, TEME (SGP4 from a TLE), MOD, GCRF, G50 or TOD, the "
    "parent of the local frames being EME2000, MOD or GCRF",
]

BUILTIN = ["EME2000", "MOD", "TOD", "TEME", "PEF", "ITRF", "WGS84", "TIRF", "CIRF", "GCRF", "G50"]
LOCAL = ["S0", "S1", "ORB", "QSW", "TNW"]
JPL = ["Moon", "Sun", "MarsBarycenter", "SolarSystemBarycenter"]
ROTATING = {"PEF", "ITRF", "WGS84", "TIRF", "S0", "S1"}
NO_RATE = {"QSW", "TNW"}

MU_EARTH = 3.986004418e14
US_DAY = iers.US_DAY
ARCSEC = oe.ARCSEC

# ----------------------------------------------------------------- shard configuration


def eop_of(shard):
    return ("real", "zero", "missing-pass")[shard % 3]


def is_jpl(shard):
    return (shard // 3) % 2 == 1


def setup_world(shard):
    from .. import env

    env.eop(eop_of(shard))
    if is_jpl(shard):
        env.jpl(with_pck=True)
        from beyond.env import jpl

        jpl.create_frames()


def setup_ref(shard):
    from .. import env

    env.eop(eop_of(shard))
    if shard % 2 == 1:
        # the FIRST conversion of this process starts from TEME (a TLE state sent elsewhere - the commonest first use
        # of the library): whatever tables or caches the first evaluation fills, the references below are absolute
        from beyond.dates import Date
        from beyond.orbits import StateVector

        StateVector([7e6, 1e5, 2e5, 10.0, 7.5e3, 100.0], Date(2004, 4, 6, 7, 51, 28), "cartesian", "TEME").copy(frame="ITRF")


def oracle_kind(eop):
    return {"real": "real", "zero": "zero"}.get(eop, "missing")


# ----------------------------------------------------------------- worlds

_IRR = [0.41421356237, 0.73205080757, 0.23606797750, 0.64575131106, 0.31662479036, 0.60555127546,
        0.12310562562, 0.35889894354, 0.79583152331, 0.09901951359, 0.56776436283, 0.91607978309]
_worlds = {}


def _g(wid, k):
    return ((wid + 1) * _IRR[k]) % 1.0


# (frame the reference orbit of ORB / QSW / TNW is expressed in, parent frame of the local frames):
# the reference orbit propagates in its own frame, which is mostly *not* the parent's
REFERENCES = [("EME2000", "EME2000"), ("TEME", "EME2000"), ("MOD", "EME2000"), ("GCRF", "EME2000"),
              ("G50", "EME2000"), ("TOD", "MOD"), ("TEME", "GCRF")]


def reference_orbit(spec):
    """Kepler orbit given in spec['ref_frame']; for TEME an SGP4 orbit from a TLE written by the
    independent formatter (epoch = epoch of the world, near-Earth elements)."""
    from beyond.dates import Date
    from beyond.orbits import Orbit
    from beyond.propagators.kepler import Kepler

    k = spec["kep"]
    if spec["ref_frame"] == "TEME":
        import datetime

        from beyond.io.tle import Tle

        from ..oracles import tlefmt

        day0 = datetime.date(1858, 11, 17) + datetime.timedelta(days=spec["epoch"])
        doy = (day0 - datetime.date(day0.year, 1, 1)).days + 1
        f = dict(name=None, cat=25544, cls="U", desig=dict(yy=98, launch=67, piece="A"),
                 eyy=day0.year % 100, eday=doy * 10**8 + 50000000,  # 12h of the epoch day
                 ndot=1234, nddot=dict(s=1, m=0, x=0), bstar=dict(s=1, m=31745, x=-4), etype=0, elnum=999,
                 inc=int(round(math.degrees(k["i"]) * 1e4)), raan=int(round(math.degrees(k["raan"]) * 1e4)) % 3600000,
                 ecc=int(1e7 * min(k["e"], 0.6) / 60) + 1000, argp=int(round(math.degrees(k["argp"]) * 1e4)) % 3600000,
                 ma=int(round(math.degrees(k["nu"]) * 1e4)) % 3600000,
                 n=int((14.0 + 1.5 * (k["e"] / 0.6)) * 1e8), rev=1234)
        return Tle(tlefmt.format_text(f)).orbit()
    cart = tb.kep2cart(k["a"], k["e"], k["i"], k["raan"], k["argp"], k["nu"], MU_EARTH)
    return Orbit(list(cart), Date(spec["epoch"], 43200.0), "cartesian", spec["ref_frame"], Kepler())


def world_spec(wid, jpl):
    """Everything that defines the generated frames of world `wid` (no random source)."""
    lo, hi = (51700, 57700) if jpl else (41800, 57700)
    e = 0.6 * _g(wid, 8) ** 2
    rp = 6.7e6 * (6.0 ** _g(wid, 7))
    ref_frame, parent = REFERENCES[wid % len(REFERENCES)]
    return dict(
        ref_frame=ref_frame, parent=parent,
        stations=[(-85.0 + 170.0 * _g(wid, 0), -180.0 + 540.0 * _g(wid, 1), 4000.0 * _g(wid, 2)),
                  (85.0 - 170.0 * _g(wid, 3), -180.0 + 540.0 * _g(wid, 4), 4000.0 * _g(wid, 5) - 300.0)],
        epoch=lo + int((hi - lo) * _g(wid, 6)),
        kep=dict(a=rp / (1 - e), e=e, i=0.05 + 3.0 * _g(wid, 9), raan=2 * math.pi * _g(wid, 10),
                 argp=2 * math.pi * _g(wid, 11), nu=2 * math.pi * _g(wid, 2)),
    )


def world(wid, jpl):
    """Registers (once per process) the 5 generated frames of the world and returns label -> frame."""
    if wid in _worlds:
        return _worlds[wid]
    from beyond.frames import create_station, frames

    spec = world_spec(wid, jpl)
    orb = reference_orbit(spec)
    parent = frames.get_frame(spec["parent"])
    fr = {
        "S0": create_station(f"W{wid}S0", spec["stations"][0]),
        "S1": create_station(f"W{wid}S1", spec["stations"][1]),
    }
    if wid % 2:
        # the same thing asked through the method of the orbit (keyword arguments passed on)
        fr["ORB"] = orb.as_frame(f"W{wid}O", parent=parent)
        fr["QSW"] = orb.as_frame(f"W{wid}Q", orientation="QSW", parent=parent)
        fr["TNW"] = orb.as_frame(f"W{wid}T", orientation="TNW", parent=parent)
    else:
        fr["ORB"] = frames.orbit2frame(f"W{wid}O", orb, None, parent)
        fr["QSW"] = frames.orbit2frame(f"W{wid}Q", orb, "QSW", parent)
        fr["TNW"] = frames.orbit2frame(f"W{wid}T", orb, orientation="TNW", parent=parent)
    for name in BUILTIN + (JPL if jpl else []):
        fr[name] = frames.get_frame(name)
    fr["_spec"] = spec
    fr["_orb"] = orb
    fr["_parent"] = parent
    _worlds[wid] = fr
    return fr


def burn_world(wid):
    """Three frames attached to a numerically propagated orbit that carries an impulsive maneuver dated at
    its own epoch: the stored state is then NOT what the orbit's propagator gives at that date."""
    key = ("burn", wid)
    if key in _worlds:
        return _worlds[key]
    from beyond.dates import Date, timedelta
    from beyond.env.solarsystem import get_body
    from beyond.frames import frames
    from beyond.orbits import Orbit
    from beyond.orbits.man import ImpulsiveMan

    Earth = get_body("Earth")
    from beyond.propagators.keplernum import KeplerNum

    spec = world_spec(wid, False)
    k = spec["kep"]
    cart = tb.kep2cart(k["a"], k["e"], k["i"], k["raan"], k["argp"], k["nu"], MU_EARTH)
    epoch = Date(spec["epoch"], 43200.0)
    orb = Orbit(list(cart), epoch, "cartesian", "EME2000", KeplerNum(timedelta(seconds=60), Earth))
    orb.maneuvers = [ImpulsiveMan(epoch, [20.0, -35.0, 50.0])]
    parent = frames.get_frame("EME2000")
    fr = {"ORB": frames.orbit2frame(f"B{wid}O", orb, parent=parent),
          "QSW": frames.orbit2frame(f"B{wid}Q", orb, orientation="QSW", parent=parent),
          "TNW": frames.orbit2frame(f"B{wid}T", orb, orientation="TNW", parent=parent),
          "_spec": dict(spec, ref_frame="EME2000", parent="EME2000"), "_orb": orb, "_parent": parent}
    _worlds[key] = fr
    return fr


def prime(fr, case):
    """Every case starts from the same library state: one conversion through each orbit-attached
    frame at *another* date first.  Anything the library keeps from its last call (which a
    conforming library does not) is then the same on a replay of the case as on its first run."""
    from beyond.orbits import StateVector

    other = mkdate(case["mjd"] + 3, 43200 * 10**6)
    for name in ("ORB", "QSW", "TNW"):
        StateVector([1e6, 2e6, 3e6, 1.0, 2.0, 3.0], other, "cartesian", "EME2000").copy(frame=fr[name])


def labels_of(case):
    return BUILTIN + LOCAL + (JPL if case["jpl"] else [])


# ----------------------------------------------------------------- generators


def _state(d):
    v = [d.u(-1, 1), d.u(-1, 1), d.u(-1, 1)]
    n = math.sqrt(sum(x * x for x in v)) or 1.0
    mag = 10 ** d.u(2.0, 7.65)
    r = [mag * x / n for x in v]
    k = d.int(0, 9)
    if k == 0:
        vel = [0.0, 0.0, 0.0]
    elif k < 3:
        vel = [d.u(-10, 10) for _ in range(3)]
    else:
        vel = [d.u(-1e4, 1e4) for _ in range(3)]
    return r + vel


def _base_case(draw, shard, worlds_per_shard=3):
    d = D(draw)
    jpl = is_jpl(shard)
    per = 2 if jpl else worlds_per_shard
    wid = shard * 4 + d.int(0, per - 1)
    spec = world_spec(wid, jpl)
    mjd = spec["epoch"] + d.int(-2, 1)
    sod = d.int(3000, 83400) * 10**6 + d.int(0, 999) * 1000 + d.int(0, 999)
    return d, dict(shard=shard, jpl=jpl, world=wid, mjd=mjd, sod_us=sod, state=_state(d),
                   label=EXACT_LABELS[(d.int(0, 3) + shard) % 4])


@st.composite
def pair_case(draw, shard, tier):
    d, c = _base_case(draw, shard)
    c["setter"] = d.coin()
    c["how"] = dict(container=d.int(0, 5), clone=d.int(0, 4), spell=d.int(0, 3), held=d.int(0, 2))
    return c


@st.composite
def triple_case(draw, shard, tier):
    d, c = _base_case(draw, shard)
    n = len(labels_of(c))
    c["slices"] = (n * (n - 1) * (n - 2)) // 120
    c["slice"] = d.int(0, c["slices"] - 1)
    c["setter"] = d.coin()
    return c


@st.composite
def rigid_case(draw, shard, tier):
    d, c = _base_case(draw, shard)
    c["slice"] = d.int(0, 3)
    return c


@st.composite
def ref_case(draw, shard, tier, chains=False):
    d = D(draw)
    # four date bands walked through by the shards (few examples per shard)
    band = shard % 4 if chains else (shard // 3) % 4
    lo = 41700 + band * 4025
    mjd, sod = d.int(lo, lo + 4024), d.int(300, 86100)
    edge = "none"
    if d.int(0, 9) < 3:
        # days on which something changes: turn of the year, the day a leap second takes effect and the
        # day before, both ends of the shipped tables; 5 .. 20 min from 0h UTC on either side
        from .. import env

        tab = iers.tables(env.repo())
        leaps = [m for m in tab.leap_days() if tab.first < m < tab.last]
        edge = ("year", "leap", "leap-eve", "table-end")[(d.int(0, 3) + shard) % 4]
        if edge == "year":
            year = 1974 + (d.int(0, 42) + 7 * shard) % 43
            import datetime

            mjd = (datetime.date(year, 1, 1) - datetime.date(1858, 11, 17)).days - d.int(0, 1)
        elif edge == "leap":
            mjd = leaps[(d.int(0, len(leaps) - 1) + shard) % len(leaps)]
        elif edge == "leap-eve":
            mjd = leaps[(d.int(0, len(leaps) - 1) + shard) % len(leaps)] - 1
        else:
            mjd = d.pick(tab.first, tab.first + 1, tab.last - 1, tab.last)
        sod = d.int(300, 1200) if d.coin() else d.int(85200, 86100)
    return dict(shard=shard, mjd=mjd, sod_us=sod * 10**6 + d.int(0, 999999), edge=edge,
                label=ALL_LABELS[(d.int(0, 5) + shard) % 6])


EXACT_LABELS = ("UTC", "TAI", "TT", "GPS")  # whole-microsecond offsets: relabelling is lossless
ALL_LABELS = EXACT_LABELS + ("UT1", "TDB")  # relabelling rounds the instant to 1 us (7e-11 rad of ERA)


def mkdate(mjd, sod_us, label="UTC"):
    """The instant whose *UTC* reading is (mjd, sod_us), labelled in `label`.  The oracle is always
    fed the UTC / UT1 / TT readings of the instant, whatever label the library is handed."""
    from beyond.dates import Date

    d = Date(int(mjd), sod_us / 1e6)
    return d if label == "UTC" else d.change_scale(label)


def era_label(mjd):
    y = 1973 + (mjd - 41683) / 365.25
    return "1973-1987" if y < 1988 else "1988-2002" if y < 2003 else "2003-2017"


# ----------------------------------------------------------------- helpers


CONTAINERS = ["list", "tuple", "f64", "f32", "ints", "i64"]
CLONES = ["none", ".copy()", "pickle", "copy.copy", "copy.deepcopy"]
SPELLS = ["object", "name", "same", "transform"]
HELD = ["cartesian", "spherical", "cylindrical"]  # mu-free forms; element forms: facet forms_across_bodies


def shape_state(x, container):
    """(object handed to StateVector, the float64 numbers it stands for)."""
    x = np.asarray(x, float)
    if container in ("ints", "i64"):
        vals = [int(round(v)) for v in x]
        return (vals if container == "ints" else np.array(vals, dtype=np.int64)), np.array(vals, float)
    if container == "f32":
        arr = np.array(x, dtype=np.float32)
        return arr, arr.astype(float)
    if container == "f64":
        return np.array(x, dtype=np.float64), x
    return (tuple(float(v) for v in x) if container == "tuple" else [float(v) for v in x]), x


def clone_of(obj, how):
    import copy
    import pickle

    if how == ".copy()":
        return obj.copy()
    if how == "pickle":
        return pickle.loads(pickle.dumps(obj))
    if how == "copy.copy":
        c = copy.copy(obj)
    elif how == "copy.deepcopy":
        c = copy.deepcopy(obj)
    else:
        return obj
    if c.base is None:
        raise Violation("clone-unusable", f"{how}() of a StateVector owns no base buffer: its copy() and its frame / form "
                                          f"setters raise")
    return c


def frame_spelling(fr, label, spell):
    if spell == "object":
        return fr[label]
    return label if label in BUILTIN or label in JPL else fr[label].name


def polar_conditioning(*vecs):
    k = 1.0
    for v in vecs:
        rho2 = v[0] ** 2 + v[1] ** 2
        k = max(k, (rho2 + v[2] ** 2) / max(rho2, 1e-300))
    return k


def convert(fr, state, dt, a, b, setter=False, how=None):
    """state in frame a -> frame b (cartesian numbers).  how = dict(container, clone, spell, held):
    the container the numbers are handed over in, a clone made of the state before it is used, the
    way the target frame is named, the form the state is held in while its frame changes."""
    from beyond.orbits import StateVector

    how = how or {}
    arg, _ = shape_state(state, how.get("container", "list"))
    before = arg.copy() if isinstance(arg, np.ndarray) else None
    sv = StateVector(arg, dt, "cartesian", fr[a])
    held = how.get("held", "cartesian")
    spell = how.get("spell", "object")
    if spell == "transform":
        # the method the setter itself relies on, called directly on a cartesian state
        out = fr[a].transform(StateVector(arg, dt, "cartesian", fr[a]), fr[b])
        res = np.array(out, float)
        if not np.all(np.isfinite(res)):
            raise Violation("non-finite", f"{a}->{b}: {res.tolist()}")
        return res
    if held != "cartesian" and (setter or spell != "same"):
        sv = sv.copy(form=held)  # (with same=<template> the template alone says which form comes out)
    original, kept = sv, (np.array(sv.base, float), sv.frame, sv.form.name)
    sv = clone_of(sv, how.get("clone", "none"))
    if sv is not original and (np.shares_memory(np.asarray(sv.base), np.asarray(original.base)) or sv._data is original._data):
        raise Violation("clone-shares", f"{how.get('clone')} of a state shares its buffer or attributes with the original")
    if sv is not original and how.get("spoil"):
        # the clone was taken BEFORE the caller went on changing his own object in place
        original.frame = fr["MOD" if a != "MOD" else "TOD"]
        original.form = "cylindrical" if held != "cylindrical" else "cartesian"
        kept = (np.array(original.base, float), original.frame, original.form.name)
    if setter:
        sv.frame = frame_spelling(fr, b, "name" if spell == "same" else spell)
        out = sv
    elif spell == "same":
        template = StateVector([4e6, 5e6, 6e6, 1.0, 2.0, 3.0], dt, "cartesian", fr[b]).copy(form=held)
        out = sv.copy(same=template)
    else:
        out = sv.copy(frame=frame_spelling(fr, b, spell))
    if out.frame is not fr[b]:
        raise Violation("frame-attr", f"{a}->{b}: result carries frame {out.frame}")
    if out.form.name != held:
        raise Violation("form-attr", f"{a}->{b}: a state held in {held} comes back in {out.form.name}")
    if sv is not original and not (np.array_equal(np.asarray(original.base, float), kept[0])
                                   and original.frame is kept[1] and original.form.name == kept[2]):
        raise Violation("clone-shares", f"{a}->{b}: converting a {how.get('clone')} clone changed the original state")
    if before is not None:
        if not np.array_equal(arg, before):
            raise Violation("argument-modified", f"{a}->{b}: the caller's array was changed")
        if np.shares_memory(arg, np.asarray(out.base)):
            raise Violation("argument-aliased", f"{a}->{b}: the state lives in the caller's array")
    if held != "cartesian":
        out = out.copy(form="cartesian")
    res = np.array(out.base, float)
    if not np.all(np.isfinite(res)):
        raise Violation("non-finite", f"{a}->{b}: {res.tolist()}")
    return res


def reconvert(fr, vec, dt, a, b, setter=False, how=None):
    return convert(fr, vec, dt, a, b, setter, how)


REL = 2.5e-14  # 1e-6 m on 4e7 m, 1e-3 m on 1e11 m


def close(got, want, scales, what, factor=1.0):
    """Position / velocity agreement relative to the magnitudes that went through the arithmetic."""
    ps = max(float(np.linalg.norm(s[:3])) for s in scales)
    vs = max(float(np.linalg.norm(s[3:])) for s in scales)
    # a velocity also carries omega x r of the positions involved (1e7 m/s for the Sun seen from ITRF)
    vs = max(vs, 7.3e-5 * ps)
    tol_p = (REL * ps + 1e-9) * factor
    tol_v = (REL * vs + 1e-12) * factor
    dp = float(np.linalg.norm(got[:3] - want[:3]))
    dv = float(np.linalg.norm(got[3:] - want[3:]))
    if dp > tol_p or dv > tol_v:
        raise Violation(what.split(":")[0], f"{what}: off by {dp:.3g} m (tol {tol_p:.3g}), {dv:.3g} m/s (tol {tol_v:.3g})",
                        dp=dp, dv=dv)
    return max(dp / tol_p, dv / tol_v)


def pair_classes(a, b):
    c = []
    if a in ROTATING or b in ROTATING:
        c.append("rotating")
    if a in LOCAL or b in LOCAL:
        c.append("generated-frame")
    if a in NO_RATE or b in NO_RATE:
        c.append("QSW/TNW")
    if a in JPL or b in JPL:
        c.append("body-centred")
    return c


def case_classes(case):
    spec = world_spec(case["world"], case["jpl"]) if "world" in case else None
    extra = [f"ref:{spec['ref_frame']}/parent:{spec['parent']}"] if spec else []
    return extra + [f"eop:{eop_of(case['shard'])}", "jpl" if case.get("jpl") else "earth-only", era_label(case["mjd"]),
            f"label:{case.get('label', 'UTC')}"]


# ----------------------------------------------------------------- facet: inverse


def check_inverse(case):
    fr = world(case["world"], case["jpl"])
    prime(fr, case)
    dt = mkdate(case["mjd"], case["sod_us"], case.get("label", "UTC"))
    x = np.array(case["state"], float)
    names = labels_of(case)
    worst = 0.0
    n = 0
    used = set()
    for i, a in enumerate(names):
        for j, b in enumerate(names):
            if a == b:
                continue
            setter = case["setter"] ^ ((i + j) % 2 == 0)
            # the spelling of the request walks through its variants with the pair
            base = case.get("how")
            how = None
            if base:
                k = 3 * i + j
                how = dict(container=CONTAINERS[(base["container"] + k) % len(CONTAINERS)],
                           clone=CLONES[(base["clone"] + k // 2) % len(CLONES)],
                           spell=SPELLS[(base["spell"] + k // 3) % len(SPELLS)],
                           held=HELD[(base["held"] + k // 5) % len(HELD)], spoil=(k // 7) % 2 == 0)
                for v in how.values():
                    if isinstance(v, str):
                        used.add(v)
            x_in = shape_state(x, how["container"])[1] if how else x
            y = convert(fr, x_in, dt, a, b, setter, how)
            factor = 1.0
            if how and how["held"] != "cartesian":
                factor = polar_conditioning(x_in, y)
                if factor > 1e6:
                    continue
            if how and how["container"] == "f32":
                # the way back hands the float32-rounded image over: compare with what that image stands for
                y = shape_state(y, "f32")[1]
                z = reconvert(fr, y, dt, b, a, setter, how)
                back = convert(fr, y, dt, b, a, setter)
                worst = max(worst, close(z, back, (x_in, y), f"inverse: {a}->{b}->{a} ({how})", factor))
            elif how and how["container"] in ("ints", "i64"):
                y = shape_state(y, "ints")[1]
                z = reconvert(fr, y, dt, b, a, setter, how)
                back = convert(fr, y, dt, b, a, setter)
                worst = max(worst, close(z, back, (x_in, y), f"inverse: {a}->{b}->{a} ({how})", factor))
            else:
                z = reconvert(fr, y, dt, b, a, setter, how)
                worst = max(worst, close(z, x_in, (x_in, y), f"inverse: {a}->{b}->{a}" + (f" ({how})" if how else ""), factor))
            n += 1
    worst = max(worst, ties_and_refusals(fr, x, dt, names, case))
    return dict(nt=True, cls=case_classes(case) + [f"pairs:{n}"] + sorted("how:" + u for u in used), ratio=worst)


def ties_and_refusals(fr, x, dt, names, case):
    """A frame change to the frame the state is already in leaves every number as it is; a frame change that is
    refused (the Hill frame cannot be converted, an unknown name) leaves the whole object as it was."""
    from beyond.errors import UnknownFrameError
    from beyond.orbits import StateVector

    for k, a in enumerate(names):
        held = HELD[(k + case["mjd"]) % len(HELD)]
        sv = StateVector(list(x), dt, "cartesian", fr[a]).copy(form=held)
        snap = np.array(sv.base, float)
        for how, got in (("copy(frame=same frame)", sv.copy(frame=fr[a])), ("copy(frame=its name)", sv.copy(frame=fr[a].name))):
            if not (np.array_equal(np.asarray(got.base, float), snap) and got.frame is fr[a] and got.form.name == held):
                raise Violation("same-frame", f"{a}: {how} changed the state")
        # (towards the Hill frame the refusal comes from the orientation graph: ValueError "Unknown 'QSW'")
        for target, exc in (("Hill", (RuntimeError, ValueError)), ("NoSuchFrame", UnknownFrameError)):
            for way in ("setter", "copy"):
                try:
                    if way == "setter":
                        sv.frame = target
                    else:
                        sv.copy(frame=target)
                except exc:
                    pass
                else:
                    raise Violation("refusal-missing", f"{a} -> {target} by {way} was not refused")
                # (the setter goes through cartesian and back: the numbers may move by rounding, not more)
                now = np.asarray(sv.copy(form="cartesian").base, float)
                same = (float(np.linalg.norm(now[:3] - x[:3])) <= 1e-9 * float(np.linalg.norm(x[:3])) + 1e-9
                        and float(np.linalg.norm(now[3:] - x[3:])) <= 1e-9 * float(np.linalg.norm(x[3:])) + 1e-12)
                if not (same and sv.frame is fr[a] and sv.form.name == held):
                    raise Violation("refusal-not-atomic",
                                    f"{a} -> {target} by {way} was refused but left the state in {sv.frame}/{sv.form.name} "
                                    f"with other numbers (it was held in {held})")
    return 0.0


# ----------------------------------------------------------------- facet: path independence


def check_path(case):
    fr = world(case["world"], case["jpl"])
    prime(fr, case)
    dt = mkdate(case["mjd"], case["sod_us"], case.get("label", "UTC"))
    x = np.array(case["state"], float)
    names = labels_of(case)
    worst = 0.0
    k = -1
    cache = {}

    def conv(a, b, vec, key):
        if key not in cache:
            cache[key] = convert(fr, vec, dt, a, b, case["setter"])
        return cache[key]

    cls = set()
    for a in names:
        for b in names:
            if b == a:
                continue
            for c in names:
                if c in (a, b):
                    continue
                k += 1
                if k % case["slices"] != case["slice"]:
                    continue
                y = conv(a, b, x, (a, b))
                z = convert(fr, y, dt, b, c, case["setter"])
                direct = conv(a, c, x, (a, c))
                worst = max(worst, close(z, direct, (x, y, direct), f"path: {a}->{b}->{c} against {a}->{c}"))
                cls.update(pair_classes(a, b) + pair_classes(b, c))
    return dict(nt=True, cls=case_classes(case) + sorted(cls), ratio=worst)


# ----------------------------------------------------------------- facet: rigid


def check_rigid(case):
    fr = world(case["world"], case["jpl"])
    prime(fr, case)
    dt = mkdate(case["mjd"], case["sod_us"], case.get("label", "UTC"))
    p = np.array(case["state"][:3], float)
    names = labels_of(case)
    worst = 0.0
    k = -1
    for a in names:
        for b in names:
            if a == b:
                continue
            k += 1
            if k % 4 != case["slice"]:
                continue
            o = convert(fr, [0.0] * 6, dt, a, b)[:3]
            # basis vectors long enough for the offset between the centres not to eat their digits
            L = max(1e6, 10 ** math.ceil(math.log10(max(float(np.linalg.norm(o)), 1.0))))
            R = np.array([convert(fr, [L * (m == q) for q in range(3)] + [0, 0, 0], dt, a, b)[:3] - o
                          for m in range(3)]).T / L
            ortho = float(np.linalg.norm(R.T @ R - np.eye(3)))
            det = float(np.linalg.det(R))
            img = convert(fr, list(p) + [0, 0, 0], dt, a, b)[:3] - o
            scale = max(float(np.linalg.norm(p)), float(np.linalg.norm(o)))
            dn = abs(float(np.linalg.norm(img)) - float(np.linalg.norm(p)))
            lin = float(np.linalg.norm(img - R @ p))
            tol_n = 1e-13 * scale + 1e-9
            worst = max(worst, ortho / 1e-12, abs(det - 1) / 1e-12, dn / tol_n, lin / (10 * tol_n))
            if ortho > 1e-12 or abs(det - 1) > 1e-12:
                raise Violation("rigid-rotation", f"{a}->{b}: position map has |RtR-I| = {ortho:.3g}, det = {det!r}")
            if dn > tol_n:
                raise Violation("rigid-norm", f"{a}->{b}: a vector of {np.linalg.norm(p)!r} m comes out {dn:.3g} m longer/shorter")
            if lin > 10 * tol_n:
                raise Violation("rigid-affine", f"{a}->{b}: image of a point differs by {lin:.3g} m from origin + R p")
    return dict(nt=True, cls=case_classes(case), ratio=worst)


# ----------------------------------------------------------------- facet: kinematics

KIN = [n for n in BUILTIN + LOCAL if n not in NO_RATE]
KIN_JPL = ["EME2000", "G50"] + JPL
# rad/s the IAU-1980/2010 chains leave out by design (no rate on the precession / nutation edges):
# precession 7.7e-12 + nutation up to 1e-11 (13.7 d, 183 d, 18.6 y terms) = 1.8e-11, x 10 margin.
# Earth-rotation coupling is 7.3e-5 rad/s: a wrong sign or a missing coupling is 4e5 times larger.
OMITTED_RATE = 2e-10
# The library computes sidereal time / ERA from a single-float Julian date: the Earth-fixed <->
# inertial rotation is a staircase in time with steps of 40 us = 2.9e-9 rad (2 cm at the surface).
# Differences across that edge therefore use long steps; the residual noise is at most
# 3e-9 rad x (16/(2 h1) + 1/(2 h2))/15 (= 0.068 for 8/32 s, 0.009 for 60/240 s; 3x that is allowed).
SIDEREAL_STEP = 3e-9


def _moving(fr, x, mjd, sod_us, h, a, b, label="UTC"):
    """Central difference over +-h seconds of the converted *position* of x0 + v0 (t - t0)."""
    hu = int(round(h * 1e6))
    out = []
    for sgn in (1, -1):
        t = sod_us + sgn * hu
        pos = x[:3] + x[3:] * (sgn * h)
        out.append(convert(fr, list(pos) + list(x[3:]), mkdate(mjd, t, label), a, b)[:3])
    return (out[0] - out[1]) / (2 * h)


def kin_plan(a, b):
    """(h1, h2, noise weight, coarse) for the pair: Richardson of central differences at h1 < h2."""
    if a in JPL or b in JPL:
        return 600.0, 2400.0, 0.0, True
    crosses = (a in ROTATING) != (b in ROTATING)
    if "ORB" in (a, b):
        # the frame centre moves on an orbit: the steps must stay short; they must not be too short
        # either, the centre carries ~0.5 mm of noise from the Kepler-equation iteration
        return 8.0, 32.0, 0.2 if crosses else 0.0, False
    if not crosses:
        return 0.5, 2.0, 0.0, False
    return 60.0, 240.0, 0.03, False


def check_kinematics(case):
    fr = world(case["world"], case["jpl"])
    prime(fr, case)
    mjd, sod = case["mjd"], case["sod_us"]
    label = case.get("label", "UTC")
    dt = mkdate(mjd, sod, label)
    x = np.array(case["state"], float)
    worst = 0.0
    cls = set()
    pairs = [(a, b) for a in KIN for b in KIN if a != b]
    if world_spec(case["world"], case["jpl"])["ref_frame"] == "TEME":
        # an SGP4 velocity is not the exact derivative of the SGP4 position (centimetres per second;
        # the theory's own property, decided against the reference implementation by C07)
        pairs = [(a, b) for a, b in pairs if "ORB" not in (a, b)]
    if case["jpl"]:
        pairs += [(a, b) for a in KIN_JPL for b in KIN_JPL if a != b and (a in JPL or b in JPL)]
    for k, (a, b) in enumerate(pairs):
        if k % 3 != case["slice"]:
            continue
        h1, h2, weight, coarse = kin_plan(a, b)
        y = convert(fr, x, dt, a, b)
        d1 = _moving(fr, x, mjd, sod, h1, a, b, label)
        d2 = _moving(fr, x, mjd, sod, h2, a, b, label)
        q = (h2 / h1) ** 2
        deriv = (q * d1 - d2) / (q - 1)  # Richardson: the h^2 term of both differences cancels
        if coarse:
            tol = 2e-2 + 1e-7 * float(np.linalg.norm(y[3:]))
        else:
            # geocentric distance of the point, for the rotation rates the model omits
            # (+ the path |v| h2 the point travels between the outer samples); the last term is the
            # h^4 truncation left by Richardson, 16 (omega h1)^4 |v| / 24 at most 2.4e-10 |v|
            speed = float(np.linalg.norm(x[3:]))
            geo = float(np.linalg.norm(convert(fr, x, dt, a, "EME2000")[:3])) + speed * h2
            tol = (OMITTED_RATE + SIDEREAL_STEP * weight) * geo + 2e-5 + 2e-9 * speed
            if "ORB" in (a, b):
                tol += 3e-4
        err = float(np.linalg.norm(y[3:] - deriv))
        worst = max(worst, err / tol)
        if err > 0.25 * tol:
            cls.add(f"near-tol:{a}->{b}")
        if err > tol:
            raise Violation("kinematics",
                            f"{a}->{b}: converted velocity {y[3:].tolist()} m/s, time derivative of the "
                            f"converted position {deriv.tolist()} m/s ({err:.3g} apart, tol {tol:.3g})",
                            a=a, b=b, err=err)
        cls.update(pair_classes(a, b))
        cls.add(f"h:{h1:g}")
    return dict(nt=True, cls=case_classes(case) + sorted(cls), ratio=worst)


@st.composite
def kin_case(draw, shard, tier):
    d, c = _base_case(draw, shard)
    c["slice"] = d.int(0, 2)
    return c


# ----------------------------------------------------------------- facet: Earth rotation reference


def basis_map(a, b, dt):
    """6x3: images (position and velocity) of the three unit positions at rest in frame a."""
    from beyond.orbits import StateVector

    cols = []
    for k in range(3):
        e = [0.0] * 6
        e[k] = 1.0
        cols.append(np.asarray(StateVector(e, dt, "cartesian", a).copy(frame=b).base, float))
    M = np.array(cols).T
    if not np.all(np.isfinite(M)):
        raise Violation("non-finite", f"{a}->{b}")
    return M


def oracle_times(case, kind):
    from .. import env

    tab = iers.tables(env.repo())
    us = (case["mjd"] - iers.BASE_MJD) * US_DAY + case["sod_us"]
    rd = iers.readings(us, tab, kind)

    def split(v):
        return iers.BASE_MJD + v // US_DAY, (v % US_DAY) / 1e6

    rec = tab.days[case["mjd"]] if kind == "real" else dict(x=0.0, y=0.0, lod=0.0)
    return split(rd["UT1"]), split(rd["TT"]), rec


def z_rotation(M, what):
    """Angle of a pure rotation about z (r_b = Rz(angle) r_a, counter-clockwise) + its rate vector."""
    R, V = M[:3], M[3:]
    off = max(abs(R[2, 2] - 1), abs(R[0, 2]), abs(R[1, 2]), abs(R[2, 0]), abs(R[2, 1]),
              abs(R[0, 0] - R[1, 1]), abs(R[0, 1] + R[1, 0]))
    if off > 1e-12:
        raise Violation("not-z-rotation", f"{what} is not a rotation about the z axis (off by {off:.3g})")
    W = V @ R.T  # [omega]x
    omega = np.array([W[2, 1], W[0, 2], W[1, 0]])
    sym = float(np.linalg.norm(W + W.T))
    if sym > 1e-15:
        raise Violation("rate-not-skew", f"{what}: velocity coupling is not a cross product ({sym:.3g})")
    return math.atan2(R[1, 0], R[0, 0]), omega


def times_from_values(case, vals):
    """UT1 and TT clock readings for explicit (ut1_utc, tai_utc): plain additions to the UTC reading."""
    def shift(sec):
        tot = case["sod_us"] / 1e6 + sec
        return case["mjd"] + int(tot // 86400), tot % 86400.0

    return shift(vals["ut1_utc"]), shift(vals["tai_utc"] + 32.184), vals


def reference_checks(case, kind, vals=None):
    """All comparisons with the independent Earth-rotation model.  kind: real | zero | missing,
    or any label together with explicit values vals = dict(ut1_utc, tai_utc, x, y, lod)."""
    dt = mkdate(case["mjd"], case["sod_us"], case.get("label", "UTC"))
    if vals is None:
        (du, su), (dtt, stt), rec = oracle_times(case, kind)
    else:
        (du, su), (dtt, stt), rec = times_from_values(case, vals)
    T = oe.centuries(dtt, stt)
    worst = 0.0

    def gauge(err, tol, kindname, msg):
        nonlocal worst
        worst = max(worst, err / tol)
        if not err <= tol:
            raise Violation(kindname, f"{msg} at {dt} (EOP {kind}): off by {err:.3g}, allowed {tol:.3g}")

    want_rate = np.array([0.0, 0.0, oe.OMEGA_EARTH * (1.0 - rec["lod"] / 1000.0 / 86400.0)])

    ang, omega = z_rotation(basis_map("PEF", "TOD", dt), "PEF->TOD")
    gast = oe.gmst82(du, su) + oe.equation_of_equinoxes_1980(T, case["mjd"])
    gauge(abs(oe.angdiff(ang, gast)), 0.05 * ARCSEC, "sidereal-time",
          f"PEF->TOD turns by {ang % oe.TWO_PI!r} rad, GMST-82(UT1) + equation of the equinoxes = {gast % oe.TWO_PI!r}")
    gauge(float(np.linalg.norm(omega - want_rate)) / oe.OMEGA_EARTH, 1e-11, "rotation-rate",
          f"PEF->TOD rate vector {omega.tolist()}, omega(1 - LOD/86400) z = {want_rate.tolist()}")

    ang, omega = z_rotation(basis_map("TIRF", "CIRF", dt), "TIRF->CIRF")
    era = oe.era2000(du, su)
    gauge(abs(oe.angdiff(ang, era)), 2e-8, "earth-rotation-angle",
          f"TIRF->CIRF turns by {ang % oe.TWO_PI!r} rad, ERA(UT1) = {era!r}")
    gauge(float(np.linalg.norm(omega - want_rate)) / oe.OMEGA_EARTH, 1e-11, "rotation-rate",
          f"TIRF->CIRF rate vector {omega.tolist()}, omega(1 - LOD/86400) z = {want_rate.tolist()}")

    M = basis_map("MOD", "EME2000", dt)
    gauge(float(np.abs(M[:3] - oe.precession_matrix_iau76(T).T).max()), 1e-12, "precession",
          "MOD->EME2000 against the IAU-76 precession matrix")
    gauge(float(np.abs(M[3:]).max()), 1e-18, "precession", "MOD->EME2000 velocity coupling (none is modelled)")

    M = basis_map("TOD", "MOD", dt)
    gauge(oe.rotation_angle(M[:3] @ oe.nutation_matrix_1980(T)), 0.05 * ARCSEC, "nutation",
          "TOD->MOD against the IAU-1980 nutation matrix (35 largest terms)")

    axis = oe.pole_axis(rec["x"], rec["y"])
    for inter in ("PEF", "TIRF"):
        M = basis_map(inter, "ITRF", dt)
        gauge(float(np.linalg.norm(M[:3, 2] - axis)), 1e-10, "polar-motion",
              f"z axis of {inter} seen from ITRF {M[:3, 2].tolist()}, pole (x_p, -y_p, 1) = {axis.tolist()}")
        if rec["x"] == 0 and rec["y"] == 0:
            gauge(float(np.abs(M[:3] - np.eye(3)).max()), 1e-9, "polar-motion", f"{inter}->ITRF without pole coordinates")
    return worst


def check_reference(case):
    kind = oracle_kind(eop_of(case["shard"]))
    worst = reference_checks(case, kind)
    return dict(nt=True, cls=[f"eop:{kind}", era_label(case["mjd"]), f"label:{case.get('label', 'UTC')}",
                              f"edge:{case.get('edge', 'none')}"], ratio=worst)


def check_chains(case):
    dt = mkdate(case["mjd"], case["sod_us"], case.get("label", "UTC"))
    M = basis_map("EME2000", "GCRF", dt)
    ang = oe.rotation_angle(M[:3])
    back = basis_map("GCRF", "EME2000", dt)
    if float(np.abs(back[:3] @ M[:3] - np.eye(3)).max()) > 1e-13:
        raise Violation("chains-inverse", "EME2000->GCRF and GCRF->EME2000 are not inverse rotations")
    if not ang < 0.1 * ARCSEC:
        raise Violation("chains-disagree",
                        f"IAU-1980 and IAU-2010 chains differ by {ang / ARCSEC:.4f} arcsec at {dt} "
                        f"(EME2000->GCRF through ITRF)")
    # both chains carry the same Earth rotation rate: no net velocity coupling beyond rounding
    v = float(np.abs(M[3:]).max())
    if v > 1e-15:
        raise Violation("chains-rate", f"EME2000->GCRF leaves a velocity coupling of {v:.3g} 1/s")
    return dict(nt=True, cls=[f"eop:{eop_of(case['shard'])}", era_label(case["mjd"]), f"label:{case.get('label', 'UTC')}",
                              f"edge:{case.get('edge', 'none')}"], ratio=ang / (0.1 * ARCSEC))


# ----------------------------------------------------------------- facet: EOP configurations

EOP_MODES = ["missing-pass", "missing-warning", "missing-error", "real-warning"]
_records = []


def setup_eopcfg(shard):
    import logging

    from .. import env

    mode = EOP_MODES[shard % 4]
    if mode == "real-warning":
        env.bootstrap()
        from beyond.config import config

        config.update({"eop": {"folder": os.path.join(env.repo(), "tests", "data", "pole"), "type": "all",
                               "missing_policy": "warning"}})
        env._eop_set = "real-warning"
    else:
        env.eop(mode)

    class Collect(logging.Handler):
        def emit(self, record):
            _records.append(record.getMessage())

    lg = logging.getLogger("beyond.dates.eop")
    lg.setLevel(logging.WARNING)
    lg.addHandler(Collect())
    lg.propagate = False


@st.composite
def eopcfg_case(draw, shard, tier):
    d = D(draw)
    mode = EOP_MODES[shard % 4]
    if mode == "real-warning":
        where = d.pick("inside", "inside", "after", "before")
        if where == "inside":
            mjd = d.int(41700, 57790)
        elif where == "after":
            mjd = d.int(57810, 62000)
        else:
            mjd = d.int(30000, 41600)
    else:
        where = "none"
        mjd = d.int(41700, 59000)
    return dict(shard=shard, mode=mode, where=where, mjd=mjd, sod_us=d.int(300, 86100) * 10**6 + d.int(0, 999999),
                label=ALL_LABELS[(d.int(0, 5) + shard) % 6])


def check_eopcfg(case):
    from beyond.errors import EopError

    mode = case["mode"]
    del _records[:]
    if mode == "missing-error":
        try:
            dt = mkdate(case["mjd"], case["sod_us"], case.get("label", "UTC"))
        except (EopError, KeyError):
            return dict(nt=True, cls=[mode])
        raise Violation("eop-error-policy", f"policy 'error' with no data: Date built silently ({dt})")
    dt = mkdate(case["mjd"], case["sod_us"], case.get("label", "UTC"))
    n_warn = len(_records)
    missing = mode != "real-warning" or case["where"] != "inside"
    if mode == "missing-pass" and n_warn:
        raise Violation("eop-pass-policy", f"policy 'pass' logged {_records[:2]}")
    if mode in ("missing-warning", "real-warning"):
        if missing and not n_warn:
            raise Violation("eop-warning-policy", f"no warning logged for {dt} although no EOP data covers it")
        if not missing and n_warn:
            raise Violation("eop-warning-policy", f"warning {_records[:2]} for {dt}, which the tables cover")
    e = dt.eop
    vals = [e.x, e.y, e.dx, e.dy, e.deps, e.dpsi, e.lod, e.ut1_utc, e.tai_utc]
    if missing:
        if any(v != 0 for v in vals):
            raise Violation("eop-missing-values", f"no data for {dt} but EOP = {vals}")
        worst = reference_checks(case, "missing")
    else:
        worst = reference_checks(case, "real")
    return dict(nt=True, cls=[mode, f"data:{'missing' if missing else 'present'}"], ratio=worst)


# ----------------------------------------------------------------- facet: EOP switched inside one process

_synth = {}  # values the synthetic database hands out right now


def setup_switch(shard):
    """Three databases side by side in ONE process: the real tables ('default'), zero corrections
    with the tabulated leap seconds, and a synthetic one whose values every case sets anew.
    'verif-none' is not registered: with policy 'pass' that is the 'missing' configuration.
    (vf.env.eop is not used: it pins one configuration per process.)"""
    from .. import env

    env.bootstrap()
    from beyond.config import config
    from beyond.dates.eop import Eop, EopDb

    tab = iers.tables(env.repo())
    config.update({"eop": {"folder": os.path.join(env.repo(), "tests", "data", "pole"), "type": "all",
                           "missing_policy": "pass"}})
    env._eop_set = "switching"

    class Zero:
        def __getitem__(self, mjd):
            return Eop(x=0, y=0, dx=0, dy=0, deps=0, dpsi=0, lod=0, ut1_utc=0, tai_utc=tab.tai_utc(mjd))

    class Synthetic:
        def __getitem__(self, mjd):
            return Eop(**_synth)

    EopDb.register(Zero, "verif-sw-zero")
    EopDb.register(Synthetic, "verif-sw-synth")


def use_config(step):
    from beyond.config import config

    kind = step["kind"]
    if kind == "synth":
        _synth.clear()
        _synth.update(step["eop"])
    config.set("eop", "dbname", {"real": "default", "zero": "verif-sw-zero", "synth": "verif-sw-synth",
                                 "missing": "verif-none"}[kind])


@st.composite
def switch_case(draw, shard, tier):
    d = D(draw)
    band = shard % 4
    lo = 41700 + band * 4025
    steps = []
    for _ in range(d.int(2, 4)):
        kind = d.pick("real", "zero", "missing", "synth", "synth", "synth")
        step = dict(kind=kind)
        if kind == "synth":
            step["eop"] = dict(x=d.u(-0.6, 0.6), y=d.u(-0.6, 0.6), dx=d.u(-1, 1), dy=d.u(-1, 1),
                               dpsi=d.u(-100, 100), deps=d.u(-20, 20), lod=d.u(-4, 4),
                               ut1_utc=d.u(-0.9, 0.9), tai_utc=float(d.int(10, 37)))
        steps.append(step)
    return dict(shard=shard, mjd=d.int(lo, lo + 4024), sod_us=d.int(300, 86100) * 10**6 + d.int(0, 999999),
                steps=steps, state=_state(d), label=ALL_LABELS[(d.int(0, 5) + shard) % 6])


def check_switch(case):
    """The same calendar date converted under a sequence of EOP configurations: every time the
    Earth-fixed <-> inertial chain must be the one of the configuration in force."""
    from beyond.orbits import StateVector

    worst = 0.0
    cls = []
    x = case["state"]
    prev = None
    try:
        for n, step in enumerate(case["steps"]):
            use_config(step)
            kind = step["kind"]
            vals = step["eop"] if kind == "synth" else None
            try:
                worst = max(worst, reference_checks(case, kind, vals))
            except Violation as v:
                raise Violation(v.kind, f"configuration {n + 1} of {len(case['steps'])} ({kind}"
                                        f"{', after ' + prev if prev else ''}): {v.msg}", **v.data) from None
            # the composed chain under this configuration: direct = edge by edge, and there and back
            dt = mkdate(case["mjd"], case["sod_us"], case.get("label", "UTC"))
            sv = StateVector(list(x), dt, "cartesian", "ITRF")
            direct = np.asarray(sv.copy(frame="EME2000").base, float)
            hop = sv
            for name in ("PEF", "TOD", "MOD", "EME2000"):
                hop = hop.copy(frame=name)
            back = np.asarray(StateVector(list(direct), dt, "cartesian", "EME2000").copy(frame="ITRF").base, float)
            xs = np.array(x, float)
            worst = max(worst, close(np.asarray(hop.base, float), direct, (xs, direct),
                                     f"path: ITRF->PEF->TOD->MOD->EME2000 against ITRF->EME2000 under configuration {n + 1} ({kind})"))
            worst = max(worst, close(back, xs, (xs, direct),
                                     f"inverse: ITRF->EME2000->ITRF under configuration {n + 1} ({kind})"))
            through = np.asarray(sv.copy(frame="GCRF").base, float)
            via = np.asarray(sv.copy(frame="TIRF").copy(frame="CIRF").copy(frame="GCRF").base, float)
            worst = max(worst, close(via, through, (xs, through),
                                     f"path: ITRF->TIRF->CIRF->GCRF against ITRF->GCRF under configuration {n + 1} ({kind})"))
            cls.append(f"{prev}->{kind}" if prev else f"first:{kind}")
            prev = kind
    finally:
        use_config(dict(kind="missing"))
    return dict(nt=len({s["kind"] for s in case["steps"]}) > 1 or any(s["kind"] == "synth" for s in case["steps"]),
                cls=cls + [era_label(case["mjd"]), f"label:{case.get('label', 'UTC')}"], ratio=worst)


# ----------------------------------------------------------------- facet: a frame name registered again

_rereg = [0]


@st.composite
def rereg_case(draw, shard, tier):
    d = D(draw)

    def geo():
        return [d.u(-89.0, 89.0), d.u(-180.0, 360.0), d.u(-300.0, 4000.0)]

    def kep():
        e = 0.5 * d.u() ** 2
        return dict(a=6.8e6 * 6 ** d.u() / (1 - e), e=e, i=d.u(0.05, 3.0), raan=d.u(0, 6.28), argp=d.u(0, 6.28),
                    nu=d.u(0, 6.28))

    # creations under the same name that the library refuses (malformed coordinates of ANOTHER site, unknown parent
    # frame), attempted after a successful one: the station that stays registered must go on converting consistently
    refusals = [[dict(kind=d.pick(*REFUSED), lat=d.u(-89.0, 89.0), lon=d.u(-180.0, 360.0)) for _ in range(d.int(0, 2))]
                for _ in range(2)]
    return dict(shard=shard, mjd=d.int(41800, 57700), sod_us=d.int(3000, 83000) * 10**6 + d.int(0, 999999),
                stations=[geo(), geo()], orbits=[kep(), kep()], state=_state(d), refusals=refusals)


REFUSED = ["no-altitude", "altitude-none", "four-values", "latitude-text", "one-value", "altitude-text", "none",
           "unknown-parent"]


def _refused_call(create_station, name, r):
    lat, lon = r["lat"], r["lon"]
    kw = {}
    arg = {"no-altitude": (lat, lon), "altitude-none": (lat, lon, None), "four-values": (lat, lon, 10.0, 20.0),
           "latitude-text": ("x", lon, 10.0), "one-value": (lat,), "altitude-text": [lat, lon, "a"], "none": None,
           "unknown-parent": (lat, lon, 10.0)}[r["kind"]]
    if r["kind"] == "unknown-parent":
        kw["parent_frame"] = "NoSuchFrame"
    try:
        create_station(name, arg, **kw)
    except Exception:
        return True
    return False


def check_rereg(case):
    """Creating a frame under a name that is already taken: the frame just created must stand
    where *its* coordinates / orbit say, not where the previous holder of the name stood."""
    from beyond.constants import Earth
    from beyond.dates import Date
    from beyond.frames import create_station, frames
    from beyond.orbits import Orbit, StateVector
    from beyond.propagators.kepler import Kepler

    env_eop_once()
    _rereg[0] += 1
    dt = mkdate(case["mjd"], case["sod_us"], case.get("label", "UTC"))
    x = np.array(case["state"], float)
    worst = 0.0
    cls = []
    name = f"R{case['shard']}x{_rereg[0]}S"
    for n, (lat, lon, alt) in enumerate(case["stations"]):
        fr = create_station(name, (lat, lon, alt))
        site = oe.geodetic_to_ecef(math.radians(lat), math.radians(lon), alt, Earth.r, Earth.f)
        east, north, up = oe.enu(math.radians(lat), math.radians(lon))
        got = np.asarray(StateVector(list(x), dt, "cartesian", "ITRF").copy(frame=fr).base, float)
        rel = x[:3] - site
        want = np.array([rel @ north, -(rel @ east), rel @ up])
        err = float(np.linalg.norm(got[:3] - want))
        worst = max(worst, err / 1e-6)
        if err > 1e-6:
            raise Violation("reregistered-station",
                            f"station '{name}' created {'again ' if n else ''}at ({lat}, {lon}, {alt}): an ITRF point "
                            f"lands {err:.3g} m from where WGS-84 puts it")
        for r in (case.get("refusals") or [[], []])[n]:
            if not _refused_call(create_station, name, r):
                # accepted after all: the name now belongs to a site this check does not know
                return dict(nt=False, cls=[f"accepted:{r['kind']}"], ratio=worst)
            cls.append(f"refused:{r['kind']}")
            now = frames.get_frame(name)
            sv = StateVector(list(x), dt, "cartesian", "ITRF")
            there = sv.copy(frame=now)
            got = np.asarray(there.base, float)
            back = np.asarray(there.copy(frame="ITRF").base, float)
            err = float(np.linalg.norm(got[:3] - want))
            errb = float(np.linalg.norm(back[:3] - x[:3]))
            via = np.asarray(sv.copy(frame="EME2000").copy(frame=now).base, float)
            errp = float(np.linalg.norm(via[:3] - got[:3]))
            worst = max(worst, err / 1e-6, errb / 1e-6, errp / 1e-5)
            if err > 1e-6 or errb > 1e-6 or errp > 1e-5:
                raise Violation("station-after-refused-creation",
                                f"station '{name}' at ({lat}, {lon}, {alt}); create_station('{name}', <{r['kind']}, other "
                                f"site>) was refused; afterwards ITRF -> station is {err:.3g} m from WGS-84, ITRF -> station "
                                f"-> ITRF {errb:.3g} m from the identity, ITRF -> EME2000 -> station {errp:.3g} m from "
                                f"ITRF -> station")
    name = f"R{case['shard']}x{_rereg[0]}O"
    epoch = Date(case["mjd"], 43200.0)
    for n, k in enumerate(case["orbits"]):
        cart = np.array(tb.kep2cart(k["a"], k["e"], k["i"], k["raan"], k["argp"], k["nu"], MU_EARTH))
        orb = Orbit(list(cart), epoch, "cartesian", "EME2000", Kepler())
        fr = frames.orbit2frame(name, orb, exists_warning=False)
        got = np.asarray(StateVector(list(x), epoch, "cartesian", "EME2000").copy(frame=fr).base, float)
        want = x - cart  # at the epoch of the orbit itself the centre is the given state
        err = float(np.linalg.norm(got[:3] - want[:3]))
        errv = float(np.linalg.norm(got[3:] - want[3:]))
        # the Kepler propagator re-derives the state through the mean anomaly (its Kepler-equation
        # iteration stops at 1e-8 rad): millimetres; the two orbits differ by thousands of km
        worst = max(worst, err / 0.05, errv / 5e-5)
        if err > 0.05 or errv > 5e-5:
            raise Violation("reregistered-orbit-frame",
                            f"orbit frame '{name}' created {'again ' if n else ''}: a point lands {err:.3g} m, "
                            f"{errv:.3g} m/s from (state - orbit state at epoch)")
    return dict(nt=True, cls=[era_label(case["mjd"])] + cls, ratio=worst)


def env_eop_once():
    from .. import env

    env.eop("zero")


# ----------------------------------------------------------------- facet: where an orbit-attached frame is

WHEN = ["epoch", "epoch", "epoch+1us", "epoch-1us", "later", "earlier"]


@st.composite
def attached_case(draw, shard, tier):
    d = D(draw)
    burn = (d.int(0, 3) + shard) % 4 == 0
    wid = shard * 4 + d.int(0, 2)
    when = WHEN[(d.int(0, 5) + shard) % 6]
    if burn and when in ("epoch-1us", "earlier"):
        when = "later"  # the numerical propagator of that world only goes forward
    return dict(shard=shard, jpl=False, world=wid, burn=burn, when=when,
                offset_us=d.int(2, 600) * 10**6 + d.int(0, 999999), label=ALL_LABELS[(d.int(0, 5) + shard) % 6],
                probe=[d.u(-1e4, 1e4) for _ in range(3)])


def check_attached(case):
    """The origin of an orbit-attached frame at t is reference.propagate(t) - at every t, the reference's
    own epoch included - and its axes are those of the reference frame / the QSW / TNW triad of that state."""
    from beyond.dates import timedelta
    from beyond.orbits import StateVector

    fr = burn_world(case["world"]) if case["burn"] else world(case["world"], False)
    orb, parent = fr["_orb"], fr["_parent"]
    shift = {"epoch": 0, "epoch+1us": 1, "epoch-1us": -1, "later": case["offset_us"], "earlier": -case["offset_us"]}[case["when"]]
    dt = orb.date if shift == 0 else orb.date + timedelta(microseconds=shift)
    if case["label"] != dt.scale.name:
        dt = dt.change_scale(case["label"])
    ref = orb.propagate(dt)
    in_parent = np.asarray(ref.copy(form="cartesian", frame=parent).base, float)
    in_own = np.asarray(ref.copy(form="cartesian").base, float)
    r0, v0 = in_parent[:3], in_parent[3:]
    h = np.cross(r0, v0)
    triads = {"QSW": np.array([r0 / np.linalg.norm(r0), np.cross(h, r0) / np.linalg.norm(np.cross(h, r0)), h / np.linalg.norm(h)]),
              "TNW": np.array([v0 / np.linalg.norm(v0), np.cross(h, v0) / np.linalg.norm(np.cross(h, v0)), h / np.linalg.norm(h)])}
    x = np.array(case["probe"], float)
    tol_p = 1e-6 + 1e-13 * float(np.linalg.norm(r0))
    tol_v = 1e-9 + 1e-13 * float(np.linalg.norm(v0))
    worst = 0.0

    def gauge(got, want, what):
        nonlocal worst
        dp = float(np.linalg.norm(got[:3] - want[:3]))
        dv = float(np.linalg.norm(got[3:] - want[3:]))
        worst = max(worst, dp / tol_p, dv / tol_v)
        if not (dp <= tol_p and dv <= tol_v):
            raise Violation("attached-origin",
                            f"{what} at {case['when']} of its reference orbit ({'burn at epoch' if case['burn'] else fr['_spec']['ref_frame'] + ' reference'}"
                            f", date {dt}): {dp:.6g} m, {dv:.3g} m/s from reference.propagate(date)")

    for name in ("ORB", "QSW", "TNW"):
        origin = np.asarray(StateVector([0.0] * 6, dt, "cartesian", fr[name]).copy(frame=parent).base, float)
        gauge(origin, in_parent, f"origin of the {name} frame")
        back = np.asarray(StateVector(list(in_parent), dt, "cartesian", parent).copy(frame=fr[name]).base, float)
        gauge(back + in_parent, in_parent, f"reference state seen from the {name} frame (should be zero)")
    # axes
    pt = np.asarray(StateVector(list(x) + [0, 0, 0], dt, "cartesian", fr["ORB"]).copy(frame=orb.frame).base, float)
    gauge(pt, in_own + np.concatenate((x, np.zeros(3))), "a point of the ORB frame, in the reference's own frame")
    for name, tri in triads.items():
        pt = np.asarray(StateVector(list(x) + [0, 0, 0], dt, "cartesian", fr[name]).copy(frame=parent).base, float)
        gauge(pt, in_parent + np.concatenate((tri.T @ x, np.zeros(3))), f"a point of the {name} frame")
    return dict(nt=True, cls=[f"when:{case['when']}", "ref:burn-at-epoch" if case["burn"] else f"ref:{fr['_spec']['ref_frame']}",
                              f"label:{case['label']}"], ratio=worst)


# ----------------------------------------------------------------- facet: element forms across central bodies

FORMS = ["cartesian", "spherical", "cylindrical", "keplerian", "keplerian_eccentric", "keplerian_mean",
         "keplerian_circular", "keplerian_mean_circular", "equinoctial", "tle"]
HYP_FORMS = [f for f in FORMS if f not in ("tle", "keplerian_mean_circular")]
MU_FREE = ("cartesian", "spherical", "cylindrical")
BODY_RADIUS = {"TOD": 6.3781e6, "GCRF": 6.3781e6, "Moon": 1.7374e6, "Mars": 3.3962e6, "MarsBarycenter": 3.3962e6, "Venus": 6.0518e6,
               "Mercury": 2.4397e6, "Earth": 6.3781e6, "EME2000": 6.3781e6, "MOD": 6.3781e6, "XM": 1.7374e6}
# (frame around the smaller body, frame around the body it moves about): a bound or mildly hyperbolic
# orbit drawn around the first is a reasonable conic around the second as well
BODY_PAIRS_JPL = [("Moon", "EME2000"), ("Moon", "Earth"), ("Moon", "MOD"), ("Mars", "Sun"),
                  ("Mars", "SolarSystemBarycenter"), ("MarsBarycenter", "Sun"), ("Venus", "Sun"),
                  ("Mercury", "SolarSystemBarycenter"), ("Earth", "Sun"), ("EME2000", "SolarSystemBarycenter"),
                  ("EME2000", "MOD"), ("TOD", "G50")]
BODY_PAIRS_OWN = [("XM", "EME2000"), ("XM", "MOD"), ("EME2000", "XS"), ("MOD", "XS"), ("EME2000", "MOD"),
                  ("GCRF", "TEME"), ("TOD", "G50")]
_own = {}


def setup_bodies(shard):
    from .. import env

    env.eop(("real", "zero")[(shard // 2) % 2])
    if shard % 2 == 1:
        env.jpl(with_pck=True)
        from beyond.env import jpl

        jpl.create_frames()
    else:
        # frames on centres that carry another body, at a fixed offset from the Earth's centre
        from beyond import constants
        from beyond.frames import center, frames, orient

        for name, body, off in (("XM", constants.Moon, [3.6e8, 1.0e8, 4.0e7, -250.0, 900.0, 350.0]),
                                ("XS", constants.Sun, [1.4e11, 4.0e10, 2.0e10, -8.0e3, 2.6e4, 1.1e4])):
            c = center.Center(f"VF{name}", body=body)
            c.add_link(center.Earth, orient.EME2000, np.array(off))
            _own[name] = (frames.Frame(f"VF{name}", orient.EME2000, c), np.array(off))


def body_frame(name):
    from beyond.frames import frames

    return _own[name][0] if name in _own else frames.get_frame(name)


@st.composite
def bodies_case(draw, shard, tier):
    d = D(draw)
    pairs = BODY_PAIRS_JPL if shard % 2 == 1 else BODY_PAIRS_OWN
    low, up = pairs[(d.int(0, len(pairs) - 1) + shard // 2) % len(pairs)]
    hyp = d.int(0, 9) < 3
    e = d.u(1.1, 3.0) if hyp else (10 ** d.u(-3, -1) if d.int(0, 3) == 0 else d.u(0.05, 0.8))
    rp = BODY_RADIUS[low] * d.u(1.1, 8.0)
    anom = d.u(-2.0, 2.0) if hyp else d.u(-TWO_PI_, TWO_PI_)
    nu = tb.H2nu(anom, e) if hyp else tb.E2nu(tb.solve_kepler_E(anom, e), e)
    lo, hi = (51700, 57700) if shard % 2 == 1 else (41800, 57700)
    forms = HYP_FORMS if hyp else FORMS
    return dict(shard=shard, low=low, up=up, upward=d.coin(),
                el=dict(rp=rp, e=e, i=d.u(0.1, math.pi - 0.1), raan=d.u(0, TWO_PI_), argp=d.u(0, TWO_PI_), nu=nu),
                form=forms[(d.int(0, len(forms) - 1) + shard) % len(forms)],
                mjd=d.int(lo, hi), sod_us=d.int(3000, 83000) * 10**6 + d.int(0, 999999),
                label=EXACT_LABELS[(d.int(0, 3) + shard) % 4])


TWO_PI_ = 2 * math.pi


def conditioning(el):
    """Conditioning of element <-> cartesian maps at this conic (same rule as C01)."""
    e = el["e"]
    k = 1.0 / abs(1 - e)
    if e > 1:
        k *= math.cosh(el["E"]) ** 2
    return k / math.sin(el["i"])


def check_bodies(case):
    """A state held in an element form, taken from a frame about one body to a frame about another:
    the elements must be rebuilt with the *new* body's mu - i.e. changing the frame commutes with
    reading the cartesian state."""
    from beyond.orbits import StateVector

    low, up = body_frame(case["low"]), body_frame(case["up"])
    dt = mkdate(case["mjd"], case["sod_us"], case.get("label", "UTC"))
    el = case["el"]
    mu_low = float(low.center.body.mu)
    cart_low = np.array(tb.kep2cart(el["rp"] / (1 - el["e"]), el["e"], el["i"], el["raan"], el["argp"], el["nu"], mu_low))
    sv_low = StateVector(list(cart_low), dt, "cartesian", low)
    if case["upward"]:
        a_fr, b_fr, sv = low, up, sv_low
    else:
        a_fr, b_fr = up, low
        sv = StateVector(list(np.asarray(sv_low.copy(frame=up).base, float)), dt, "cartesian", up)
    x_a = np.asarray(sv.base, float)
    want = np.asarray(sv.copy(frame=b_fr).base, float)  # the cartesian route (decided by the other facets)
    if case["low"] in _own or case["up"] in _own:
        # own frames: a fixed offset in EME2000 axes, so the cartesian route has a closed form too
        def geo(vec, name):  # state relative to the Earth's centre, EME2000 axes
            if name in _own:
                return vec + _own[name][1]
            return np.asarray(StateVector(list(vec), dt, "cartesian", name).copy(frame="EME2000").base, float)

        def rel(vec, name):
            if name in _own:
                return vec - _own[name][1]
            return np.asarray(StateVector(list(vec), dt, "cartesian", "EME2000").copy(frame=name).base, float)

        a_name = case["low"] if case["upward"] else case["up"]
        b_name = case["up"] if case["upward"] else case["low"]
        closed = rel(geo(x_a, a_name), b_name)
        big = max(float(np.linalg.norm(o[:3])) for _, o in _own.values())  # the offsets went through the arithmetic
        bigv = max(float(np.linalg.norm(o[3:])) for _, o in _own.values())
        if float(np.linalg.norm(closed[:3] - want[:3])) > 1e-14 * (float(np.linalg.norm(closed[:3])) + big) + 1e-6 or \
                float(np.linalg.norm(closed[3:] - want[3:])) > 1e-14 * (float(np.linalg.norm(closed[3:])) + bigv) + 1e-9:
            raise Violation("body-frame-offset", f"{a_name}->{b_name}: cartesian conversion differs from the fixed offset")
    el_a = tb.cart2elements(x_a, float(a_fr.center.body.mu))
    el_b = tb.cart2elements(want, float(b_fr.center.body.mu))
    form = case["form"]
    same_body = float(a_fr.center.body.mu) == float(b_fr.center.body.mu)
    cls = [f"form:{form}", "same-mu" if same_body else "other-mu", "up" if case["upward"] else "down"]
    # forms defined for the conic about *both* bodies, away from the parabola and from the equator
    usable = True
    for e_ in (el_a, el_b):
        if abs(e_["e"] - 1) < 1e-3 or e_["e"] > 20 or math.sin(e_["i"]) < 0.01:
            usable = False
        elif e_["e"] > 1 and (abs(e_["E"]) > 8 or form not in HYP_FORMS):
            usable = False
    if not usable and form not in MU_FREE:
        return dict(nt=False, cls=cls + ["skipped:conic"])
    k = max(conditioning(el_a), conditioning(el_b)) if form not in MU_FREE else 1.0
    tol = 3e-10 * k + 3e-9

    held = sv.copy(form=form)
    routes = {}
    g = held.copy(frame=b_fr)
    if g.form.name != form or g.frame is not b_fr:
        raise Violation("form-frame-meta", f"copy(frame=) of a {form} state gave {g.form.name} in {g.frame}")
    routes["copy(frame=B).copy(form='cartesian')"] = g.copy(form="cartesian")
    routes["copy(frame=B, form='cartesian')"] = held.copy(frame=b_fr, form="cartesian")
    s2 = held.copy()
    s2.frame = b_fr
    if s2.form.name != form or s2.frame is not b_fr:
        raise Violation("form-frame-meta", f"frame setter on a {form} state left {s2.form.name} in {s2.frame}")
    s2.form = "cartesian"
    routes["sv.frame = B; sv.form = 'cartesian'"] = s2
    # the receiver is untouched
    if not np.array_equal(np.asarray(held.base, float), np.asarray(sv.copy(form=form).base, float)):
        raise Violation("source-mutated", "copy(frame=) changed the receiver")
    worst = 0.0
    for how, res in routes.items():
        got = np.asarray(res.base, float)
        if not np.all(np.isfinite(got)):
            raise Violation("non-finite", f"{how}: {got.tolist()}")
        dr = float(np.linalg.norm(got[:3] - want[:3])) / float(np.linalg.norm(want[:3]))
        dv = float(np.linalg.norm(got[3:] - want[3:])) / float(np.linalg.norm(want[3:]))
        worst = max(worst, dr / tol, dv / tol)
        if dr > tol or dv > tol:
            raise Violation("form-frame-commute",
                            f"{form} state from {a_fr.name} (mu {float(a_fr.center.body.mu):.6g}) to {b_fr.name} "
                            f"(mu {float(b_fr.center.body.mu):.6g}) by {how}: position off by {dr:.3g}, velocity by "
                            f"{dv:.3g} relative to the cartesian state converted directly (tol {tol:.3g})")
    if el_a["e"] > 1 or el_b["e"] > 1:
        cls.append("hyperbolic")
    return dict(nt=not same_body and form not in MU_FREE, cls=cls, ratio=worst)


# ----------------------------------------------------------------- registration

LEVEL_TEXT = ("Property-based search: every ordered pair (sampled triples) of built-in, topocentric, "
              "orbit-attached and body-centred frames at generated instants and states, under real / "
              "zero / missing EOP; velocities against numerical time derivatives of converted "
              "positions; the Earth-fixed <-> inertial rotation against an independently written "
              "GMST-82 / ERA / IAU-76 / IAU-1980 model; IAU-1980 against IAU-2010 chain.")
LEVEL_NOTE = ("Exploration, not proof. Nutation is compared through its 35 largest terms (0.05 arcsec), "
              "the IAU-2010 series only through the 0.1 arcsec agreement of the two chains. Triples are "
              "sampled in the quick tier (1/28 .. 1/57 of them per case).")
TECHNIQUE = "hypothesis strategies + enumeration of frame pairs/triples + independent Earth-rotation oracle"

FACETS = [
    Facet("inverse", pair_case, check_inverse, setup=setup_world,
          rule="every case: all ordered pairs A != B of 16 (20) frames", quick=(12, 2), thorough=(48, 10)),
    Facet("path_independence", triple_case, check_path, setup=setup_world,
          rule="every case: ~120 ordered triples", quick=(12, 4), thorough=(48, 24)),
    Facet("rigid", rigid_case, check_rigid, setup=setup_world,
          rule="every case: a quarter of the ordered pairs", quick=(12, 3), thorough=(48, 12)),
    Facet("kinematics", kin_case, check_kinematics, setup=setup_world,
          rule="every case: a third of the ordered pairs of 14 frames with a rate (+ body-centred pairs in JPL shards)",
          quick=(12, 4), thorough=(48, 16)),
    Facet("earth_rotation_reference", ref_case, check_reference, setup=setup_ref,
          rule="every case", quick=(12, 40), thorough=(24, 400)),
    Facet("chains_agree", lambda s, t: ref_case(s, t, chains=True), check_chains, setup=setup_ref,
          rule="every case", quick=(6, 40), thorough=(12, 300)),
    Facet("eop_configurations", eopcfg_case, check_eopcfg, setup=setup_eopcfg,
          rule="every case", quick=(8, 30), thorough=(16, 300)),
    Facet("eop_switch", switch_case, check_switch, setup=setup_switch,
          rule="at least two different configurations (or a synthetic one) on the same calendar date, one process",
          quick=(8, 30), thorough=(16, 500)),
    Facet("attached_origin", attached_case, check_attached, setup=setup_world,
          rule="every case (a third at exactly the reference's epoch)", quick=(6, 40), thorough=(24, 400)),
    Facet("forms_across_bodies", bodies_case, check_bodies, setup=setup_bodies,
          rule="state held in a mu-dependent form, frames about bodies with different mu",
          quick=(8, 60), thorough=(16, 1500)),
    Facet("reregister", rereg_case, check_rereg,
          rule="every case: a station name and an orbit-frame name each used twice", quick=(6, 7), thorough=(48, 7)),
]
