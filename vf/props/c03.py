"""C03 - time scales: one instant, exact offsets, lawful date arithmetic, DateRange, EOP tables."""

import datetime as _dt
import math

from hypothesis import strategies as st

from .. import env
from ..core import Facet, Violation
from ..gen import dates as gd
from ..oracles import iers

US = gd.US
US_DAY = gd.US_DAY

RULE = ("Instants drawn as integer microseconds of UTC reading 1973-01-06..2017-02-16 (60 % uniform, "
        "25 % within 90 s of a 0h boundary, 10 % within 90 s of 1997-02-27 0h, 5 % round hours; "
        "leap-second windows +-120 s shifted out by construction); the clock reading in every scale "
        "comes from the oracle tables/formulas and the library object is built from that reading.")
ASSUMPTIONS = [
    "oracle: vf/oracles/iers.py - column-spec readers of finals.all / finals2000A.all / tai-utc.dat, "
    "TT-TAI = 32.184 s, TAI-GPS = 19 s, Astronomical-Almanac two-term TDB-TT",
    "UT1-UTC is the tabulated value of the UTC day (no interpolation), as the library documents; within "
    "1 s of 0h UTC, where the UT1 reading falls on the other side of the day boundary, a conversion "
    "involving UT1 is allowed the one-day change of UT1-UTC (the statement's own UT1 allowance); "
    "everywhere else UT1 and TDB are held to 1 us (instant) / 2 us (reading)",
    "the +-120 s windows around leap seconds are outside the quantifier",
    "arithmetic and DateRange facets use the uniform scales TAI, TT, GPS, and UTC only when no leap "
    "second lies within the touched interval",
    "daterange_history: one DateRange object modified through its public attributes (the class docstring "
    "allows manipulation before any computation), the sign of step kept coherent with stop - start as the "
    "constructor demands; list / len / membership are recomputed from the current attributes after every op",
    "clones: a Date (or a list / dict / DateRange holding it) that went through pickle (protocols 0, 2, default), "
    "copy.copy or copy.deepcopy is the same instant with the same label: equal, hash-equal, same d / s / eop, and "
    "every conversion / arithmetic result is exactly that of the original; every Date of the other date facets "
    "travels that way in half of the cases",
    "DateRange membership is interval membership (the docstring example is off-grid), zero-length "
    "ranges are generated for positive steps only",
    "EOP configurations per shard: real tables / zero corrections with real leap seconds / no database "
    "with policy pass",
]
LEVEL_TEXT = "exploration"
LEVEL_NOTE = ("table_days is an exhaustive enumeration of all 16 119 tabulated days x 3 fractions plus "
              "the uncovered days around them; all other facets are sampled.")
TECHNIQUE = "property-based testing (Hypothesis) with an independent IERS reader and integer-microsecond model"

_CFG = {"name": None}
CONV_CONFIGS = ["real", "zero", "real", "missing-pass"]


def setup_conv(shard):
    name = CONV_CONFIGS[shard % len(CONV_CONFIGS)]
    env.eop(name)
    _CFG["name"] = name


def setup_real(shard):
    env.eop("real")
    _CFG["name"] = "real"


def cfg():
    n = _CFG["name"]
    return "missing" if n.startswith("missing") else n


def tab():
    return iers.tables(env.repo())


def leap_days():
    return tab().leap_days()


def readings(us):
    return iers.readings(us, tab(), cfg())


_CLONE = {"how": "none"}


def use_clone(case):
    """Every Date built by mk() / at() for this case first travels through pickle / copy / deepcopy
    (drawn per case): a clone is the same instant with the same label, nothing may change."""
    _CLONE["how"] = case.get("clone", "none")
    return [] if _CLONE["how"] == "none" else [f"clone:{_CLONE['how']}"]


def mk(us, scale, r=None):
    """Library Date of the instant `us` labelled `scale`, from the oracle's clock reading."""
    from beyond.dates import Date

    r = r or readings(us)
    return gd.clone(Date(gd.us_to_datetime(r[scale]), scale=scale), _CLONE["how"])


def reading_us(date):
    return gd.datetime_to_us(date.datetime)


def td_us(td):
    return (td.days * 86400 + td.seconds) * US + td.microseconds


def ut1_slack(us, involved):
    """Allowance (us) for conversions involving UT1 within 1 s of 0h UTC under real tables."""
    if "UT1" not in involved or cfg() != "real":
        return 0
    tod = us % US_DAY
    if tod < US or tod > US_DAY - US:
        return iers.ut1_day_change(us, tab(), "real")
    return 0


def near_midnight(us, window=90 * US):
    tod = us % US_DAY
    return tod < window or tod > US_DAY - window


def labels_straddle(r):
    return len({v // US_DAY for v in r.values()}) > 1


def classes_for(us, scales):
    c = [f"eop:{cfg()}", gd.era(us)] + ([] if _CLONE["how"] == "none" else [f"clone:{_CLONE['how']}"])
    if near_midnight(us):
        c.append("near0h")
    day = gd.us_to_datetime(us)
    if (day.month, day.day) in ((12, 31), (1, 1)):
        c.append("turn-of-year")
        if day.month == 12 and day.year % 4 == 0:
            c.append("day-366")
    if set(scales) & {"UT1", "TDB"}:
        c.append("inexact-scale")
    return c


# ------------------------------------------------------------------ 1/2  same instant, round trip


@st.composite
def conv_case(draw, shard, tier):
    us = draw(gd.instants(leap_days()))
    S = draw(gd.scales())
    X = draw(gd.scales())
    third = dict(dus=draw(st.sampled_from([0, 0, 1, -1, 2, -2]) | gd.mixed_int(-100 * US, 100 * US)),
                 scale=draw(gd.scales()))
    return dict(us=us, S=S, X=X, third=third, clone=draw(gd.clone_modes(arith=True)))


def check_same_instant(case):
    _cl = use_clone(case)
    us, S, X = case["us"], case["S"], case["X"]
    r = readings(us)
    d = mk(us, S, r)
    e = d.change_scale(X)
    if str(e.scale) != X:
        raise Violation("scale-label", f"change_scale({X}) returned a date labelled {e.scale}")
    if str(d.scale) != S:
        raise Violation("scale-label", f"change_scale changed the receiver's label to {d.scale}")
    exact = S in iers.EXACT and X in iers.EXACT
    delta = td_us(e - d)
    if exact:
        tol = 0
        facts = dict(eq=e == d, ne=e != d, lt=e < d, gt=e > d, le=e <= d, ge=e >= d,
                     sub0=delta == 0, rsub0=td_us(d - e) == 0)
        want = dict(eq=True, ne=False, lt=False, gt=False, le=True, ge=True, sub0=True, rsub0=True)
        if facts != want:
            bad = sorted(k for k in facts if facts[k] != want[k])
            raise Violation("exact-scale-not-equal",
                            f"{S} {d} -> {X} {e}: comparisons {bad} wrong (e - d = {delta} us)",
                            wrong=bad)
    else:
        tol = 1 + ut1_slack(us, (S, X))
        if abs(delta) > tol:
            raise Violation("instant-moved",
                            f"{d}.change_scale({X}) = {e} is {delta} us away (tol {tol} us)", delta=delta)
    # ordering against a third date is unchanged
    tus = us + case["third"]["dus"]
    tus = gd.push_out_of_leap_windows(tus, leap_days())
    T = case["third"]["scale"]
    t = mk(tus, T)
    fuzz = 0
    if not (exact and T in iers.EXACT):
        fuzz = 3 + ut1_slack(us, (S, X, T)) + ut1_slack(tus, (S, X, T))
    if abs(tus - us) > fuzz:
        for name in ("__lt__", "__le__", "__gt__", "__ge__", "__eq__"):
            a, b = getattr(d, name)(t), getattr(e, name)(t)
            if a != b:
                raise Violation("order-changed-by-relabel",
                                f"{d} {name} {t} is {a} but {b} after change_scale({X})")
        model = dict(__lt__=us < tus, __le__=us <= tus, __gt__=us > tus, __ge__=us >= tus, __eq__=us == tus)
        for name, w in model.items():
            if getattr(e, name)(t) != w:
                raise Violation("order-wrong", f"{e} {name} {t} is {not w}; instants differ by {tus - us} us")
    return dict(nt=(S != X) or near_midnight(us), cls=classes_for(us, (S, X)) + [f"{S}->{X}"],
                ratio=abs(delta) / (tol if tol else 1) if not exact else 0.0)


def check_round_trip(case):
    _cl = use_clone(case)
    us, S, X = case["us"], case["S"], case["X"]
    r = readings(us)
    d = mk(us, S, r)
    back = d.change_scale(X).change_scale(S)
    if str(back.scale) != S:
        raise Violation("scale-label", f"round trip ends labelled {back.scale}")
    got = reading_us(back)
    tol = 2 + 2 * ut1_slack(us, (S, X))
    if S in iers.EXACT and X in iers.EXACT:
        tol = 0  # integer-microsecond offsets: nothing to round
    err = abs(got - reading_us(d))
    if err > tol:
        raise Violation("round-trip-reading",
                        f"{d} -> {X} -> {S} reads {back} ({got - reading_us(d)} us off, tol {tol} us)",
                        err=got - reading_us(d))
    # the reading of the freshly built date is the one it was built from
    if abs(reading_us(d) - r[S]) > (0 if S in iers.EXACT else 1):
        raise Violation("constructor-reading", f"Date(datetime {gd.us_to_datetime(r[S])}, {S}).datetime = {d.datetime}")
    return dict(nt=(S != X) or near_midnight(us), cls=classes_for(us, (S, X)), ratio=err / tol if tol else 0.0)


# ------------------------------------------------------------------ 3  offsets


@st.composite
def offsets_case(draw, shard, tier):
    return dict(us=draw(gd.instants(leap_days())), S=draw(gd.scales()), clone=draw(gd.clone_modes(arith=True)))


def check_offsets(case):
    _cl = use_clone(case)
    us, S = case["us"], case["S"]
    r = readings(us)
    d = mk(us, S, r)
    worst = 0.0
    got = {}
    for X in iers.SCALES:
        e = d.change_scale(X)
        got[X] = reading_us(e)
        inexact = [s for s in (S, X) if s not in iers.EXACT]
        # UT1-UTC is tabulated to 0.1 us, TDB-TT is irrational; a reading goes through up to three
        # roundings to the microsecond (stored instant, stored offset, applied offset) plus the
        # oracle's own: 2 us per inexact end, the clock-reading resolution the property names
        tol = 2 * len(set(inexact)) + ut1_slack(us, (S, X))
        err = abs(got[X] - r[X])
        if err > tol:
            raise Violation(
                f"offset-{X}",
                f"instant {gd.us_to_datetime(us)} UTC given as {d}: reading in {X} is {e.datetime}, "
                f"tables/constants give {gd.us_to_datetime(r[X])} ({got[X] - r[X]} us off, tol {tol})",
                scale=X, err=got[X] - r[X])
        if tol:
            worst = max(worst, err / tol)
    # constants, directly on the library's own readings (whatever the source label)
    tight = S in iers.EXACT
    if tight:
        if got["TT"] - got["TAI"] != iers.TT_TAI_US:
            raise Violation("offset-TT-TAI", f"TT-TAI = {got['TT'] - got['TAI']} us for {d}")
        if got["TAI"] - got["GPS"] != iers.TAI_GPS_US:
            raise Violation("offset-TAI-GPS", f"TAI-GPS = {got['TAI'] - got['GPS']} us for {d}")
        want = 0 if cfg() == "missing" else int(round(tab().tai_utc(gd.mjd_of(us)) * 1e6))
        if got["TAI"] - got["UTC"] != want:
            raise Violation("offset-TAI-UTC", f"TAI-UTC = {got['TAI'] - got['UTC']} us for {d}, table {want}")
    if abs(got["TDB"] - got["TT"]) > 1700 + 2:
        raise Violation("offset-TDB-TT-bound", f"|TDB-TT| = {got['TDB'] - got['TT']} us")
    return dict(nt=True, cls=classes_for(us, (S,)) + [f"src:{S}"] + (["labels-straddle-0h"] if labels_straddle(r) else []),
                ratio=worst)


# ------------------------------------------------------------------ 4  table days (enumeration)

FIELDS = ("x", "y", "dx", "dy", "dpsi", "deps", "lod", "ut1_utc", "tai_utc")
FRACTIONS = (0.0, 0.5, 0.99999)


def table_runner(shard, nshards, tier, stats):
    t = tab()
    days = list(range(t.first - 40, t.last + 60))
    for mjd in days[shard::nshards]:
        yield dict(mjd=mjd)
    stats.exhaustive = True


def check_table_day(case):
    from beyond.dates.eop import EopDb

    mjd = case["mjd"]
    t = tab()
    covered = mjd in t.days
    for f in FRACTIONS:
        want = t.day(mjd + f)
        try:
            got = EopDb.get(mjd + f)
        except KeyError:
            if covered:
                raise Violation("table-missing-day", f"EopDb.get({mjd + f}) raised KeyError for a tabulated day")
            continue
        if not covered:
            raise Violation("table-extra-day",
                            f"EopDb.get({mjd + f}) returned {got} although the tables have no data for that day "
                            f"(policy 'error')")
        for k in FIELDS:
            g = getattr(got, k)
            if g is None or g != want[k] or not math.isfinite(g):
                raise Violation(f"table-{k}", f"EopDb.get({mjd + f}).{k} = {g!r}, IERS file says {want[k]!r}", field=k)
    adjacent = any(abs(mjd - m) <= 1 for m in t.leap_days(0))
    return dict(nt=True, cls=(["covered"] if covered else ["uncovered"]) + (["leap-adjacent"] if adjacent else []))


# ------------------------------------------------------------------ 5  missing policy

MISSING_CONFIGS = ["missing-pass", "missing-warning", "missing-error", "real"]


def setup_missing(shard):
    name = MISSING_CONFIGS[shard % 4]
    env.eop(name)
    _CFG["name"] = name


@st.composite
def missing_case(draw, shard, tier):
    name = MISSING_CONFIGS[shard % 4]
    S = draw(gd.scales())
    if name == "real":
        # a day the tables do not cover: before 1973-01-02, or after the last complete line
        t = tab()
        k = draw(st.integers(0, 5))
        if k == 0:
            # both ends of the tables themselves: the first / last tabulated UTC day and their neighbours
            mjd = draw(st.sampled_from([t.first - 1, t.first, t.first + 1, t.last - 1, t.last, t.last + 1]))
            S = "UTC"  # (the day that counts is the UTC day: other labels are ambiguous in the 70 s around it)
        elif k < 3:
            mjd = draw(gd.mixed_int(t.first - 4000, t.first - 2))
        else:
            mjd = draw(gd.mixed_int(t.last + 2, t.last + 4000))
        policy = draw(st.sampled_from(["pass", "warning", "error"]))
    else:
        mjd = draw(gd.uniform_int(37000, 66000))
        policy = name.split("-")[1]
    tod = draw(gd.mixed_int(0, US_DAY - 1))
    return dict(mjd=mjd, tod=tod, S=S, policy=policy)


class _Catch:
    def __init__(self):
        import logging

        self.records = []
        self.h = logging.Handler()
        self.h.emit = self.records.append
        self.log = logging.getLogger("beyond.dates.eop")

    def __enter__(self):
        import logging

        self.old = self.log.level
        self.log.setLevel(logging.WARNING)
        self.log.addHandler(self.h)
        return self

    def __exit__(self, *a):
        self.log.removeHandler(self.h)
        self.log.setLevel(self.old)


def check_missing(case):
    import logging

    from beyond.config import config
    from beyond.dates import Date
    from beyond.errors import EopError

    policy = case["policy"]
    S = case["S"]
    dt = _dt.datetime(1858, 11, 17) + _dt.timedelta(days=case["mjd"], microseconds=case["tod"])
    if _CFG["name"] == "real" and S == "UTC" and case["mjd"] in tab().days:
        # a tabulated day, however close to the end of the tables: real values, whatever the policy, silently
        from beyond.config import config as _config

        old_policy = _config["eop"].get("missing_policy")
        _config["eop"]["missing_policy"] = policy
        try:
            with _Catch() as c:
                d = Date(dt, scale="UTC")
        finally:
            _config["eop"]["missing_policy"] = old_policy
        want = tab().day(case["mjd"])
        for k in FIELDS:
            if getattr(d.eop, k) != want[k]:
                raise Violation("table-edge", f"policy '{policy}': Date({dt}) on the tabulated day {case['mjd']} has eop.{k} = "
                                              f"{getattr(d.eop, k)!r}, table {want[k]!r}")
        if c.records:
            raise Violation("table-edge", f"policy '{policy}': Date({dt}) on a tabulated day logged {c.records[0].getMessage()}")
        return dict(nt=True, cls=[f"policy:{policy}", "eop:real", "table-edge-covered"])
    old = config["eop"].get("missing_policy")
    config["eop"]["missing_policy"] = policy
    try:
        with _Catch() as c:
            try:
                d = Date(dt, scale=S)
            except (EopError, KeyError) as exc:
                if policy != "error":
                    raise Violation("missing-raised", f"policy '{policy}': Date({dt}, {S}) raised {type(exc).__name__}")
                return dict(nt=True, cls=[f"policy:{policy}", f"eop:{_CFG['name']}"])
            if policy == "error":
                raise Violation("missing-not-refused", f"policy 'error': Date({dt}, {S}) = {d} was built without EOP data")
            rd = {X: reading_us(d.change_scale(X)) for X in iers.SCALES}
        warned = [r for r in c.records if r.levelno >= logging.WARNING]
    finally:
        config["eop"]["missing_policy"] = old
    if policy == "pass" and warned:
        raise Violation("missing-pass-not-silent", f"policy 'pass' logged: {warned[0].getMessage()}")
    if policy == "warning" and not warned:
        raise Violation("missing-no-warning", f"policy 'warning': Date({dt}, {S}) logged nothing")
    for k in FIELDS:
        if getattr(d.eop, k) != 0:
            raise Violation("missing-nonzero", f"policy '{policy}': eop.{k} = {getattr(d.eop, k)} for uncovered {dt}")
    tol = 0 if S in iers.EXACT else 1
    for name, a, b, want in (("UT1-UTC", "UT1", "UTC", 0), ("TAI-UTC", "TAI", "UTC", 0),
                             ("TT-TAI", "TT", "TAI", iers.TT_TAI_US), ("TAI-GPS", "TAI", "GPS", iers.TAI_GPS_US)):
        if abs(rd[a] - rd[b] - want) > tol:
            raise Violation("missing-offset", f"policy '{policy}': {name} = {rd[a] - rd[b]} us at {dt} {S}, expected {want}")
    if abs(rd["TDB"] - rd["TT"]) > 1702:
        raise Violation("offset-TDB-TT-bound", f"|TDB-TT| = {rd['TDB'] - rd['TT']} us")
    if abs(rd[S] - gd.datetime_to_us(dt)) > 0:
        raise Violation("constructor-reading", f"Date({dt}, {S}).datetime = {d.datetime}")
    edge = _CFG["name"] == "real" and abs(case["mjd"] - tab().first) <= 1 or _CFG["name"] == "real" and abs(case["mjd"] - tab().last) <= 1
    return dict(nt=True, cls=[f"policy:{policy}", f"eop:{_CFG['name']}"] + (["table-edge-uncovered"] if edge else []))


# ------------------------------------------------------------------ 6  arithmetic

UNIFORM = ("TAI", "TT", "GPS", "UTC")


@st.composite
def arith_case(draw, shard, tier):
    leaps = leap_days()
    us = draw(gd.instants(leaps, lo_mjd=gd.LO_MJD + 85, hi_mjd=gd.HI_MJD - 85))
    if draw(st.integers(0, 7)) == 0:
        # shortly before a leap second: the additions below then cross it (in TAI / TT / GPS they must not notice)
        inside = [m for m in leaps if gd.LO_MJD + 130 < m < gd.HI_MJD - 130]
        us = gd.push_out_of_leap_windows((draw(st.sampled_from(inside)) - iers.BASE_MJD) * US_DAY
                                         - draw(gd.uniform_int(200 * US, 35 * US_DAY)), leaps)
    S = draw(st.sampled_from(UNIFORM))
    t1 = draw(gd.timedeltas_us())
    t2 = draw(gd.timedeltas_us())
    lo = min(0, t1, t2, t1 + t2, -t1)
    hi = max(0, t1, t2, t1 + t2, -t1)
    # UTC is uniform only while no leap second intervenes: otherwise the same case is run in TAI
    if S == "UTC" and not gd.leap_free(us + lo, us + hi, leaps):
        S = "TAI"
    return dict(us=us, S=S, t1=t1, t2=t2, clone=draw(gd.clone_modes()))


def check_arith(case):
    _cl = use_clone(case)
    from beyond.dates import Date

    us, S, t1, t2 = case["us"], case["S"], case["t1"], case["t2"]
    r = readings(us)
    d = mk(us, S, r)
    T1, T2 = _dt.timedelta(microseconds=t1), _dt.timedelta(microseconds=t2)
    worst = 0

    def err(kind, what, off):
        nonlocal worst
        worst = max(worst, abs(off))
        if abs(off) > 1:
            raise Violation(kind, f"{what}: {off} us off (d = {d}, t1 = {T1!r}, t2 = {T2!r})", off=off)

    d1 = d + T1
    if str(d1.scale) != S:
        raise Violation("scale-label", f"d + t is labelled {d1.scale}, d is {S}")
    err("add-sub", "(d+t1)-d - t1", td_us(d1 - d) - t1)
    err("add-reading", "reading(d+t1) - reading(d) - t1", reading_us(d1) - r[S] - t1)
    ref = Date(gd.us_to_datetime(r[S] + t1), scale=S)
    err("add-instant", "(d+t1) - Date(reading+t1)", td_us(d1 - ref))
    err("assoc", "((d+t1)+t2) - (d+(t1+t2))", td_us(((d + T1) + T2) - (d + (T1 + T2))))
    err("commute", "((d+t1)+t2) - ((d+t2)+t1)", td_us(((d + T1) + T2) - ((d + T2) + T1)))
    err("sub-add", "((d-t1)+t1) - d", td_us(((d - T1) + T1) - d))
    err("sub-neg", "(d-t1) - (d+(-t1))", td_us((d - T1) - (d + (-T1))))
    err("antisym", "(d1-d) + (d-d1)", td_us(d1 - d) + td_us(d - d1))
    # ordering follows the sign of t
    if t1 and ((d1 > d) != (t1 > 0) or (d1 < d) != (t1 < 0) or d1 == d):
        raise Violation("add-order", f"d + {T1!r} compares wrongly with d = {d}")
    if t1 == 0 and not (d1 == d and hash(d1) == hash(d)):
        raise Violation("add-zero", f"d + 0 != d or hashes differ for {d}")
    crosses = (r[S] // US_DAY) != ((r[S] + t1) // US_DAY)
    if not gd.leap_free(us + min(0, t1, t2, t1 + t2), us + max(0, t1, t2, t1 + t2), leap_days()):
        _cl = _cl + ["crosses-leap-second"]
    return dict(nt=True, cls=[f"eop:{cfg()}", f"scale:{S}", gd.era(us)] + _cl + (["crosses-day"] if crosses else []) +
                (["t<0"] if t1 < 0 else []) + (["|t|>1d"] if abs(t1) > US_DAY else []) + (["|t|<1s"] if abs(t1) < US else []),
                ratio=worst / 1.0)


# ------------------------------------------------------------------ 7  order / eq / hash


@st.composite
def oeh_case(draw, shard, tier):
    leaps = leap_days()
    us = draw(gd.instants(leaps))
    A = draw(gd.scales())
    B = draw(gd.scales())
    delta = draw(st.sampled_from([0, 0, 0, 1, -1]) | st.integers(-5, 5) | gd.mixed_int(-US_DAY, US_DAY, 2))
    if not gd.leap_free(us, us + delta, leaps):
        delta = 0
    relabel_a = draw(st.lists(gd.scales(), max_size=3))
    relabel_b = draw(st.lists(gd.scales(), max_size=3))
    return dict(us=us, A=A, B=B, delta=delta, relabel_a=relabel_a, relabel_b=relabel_b, clone=draw(gd.clone_modes()))


def _cmp_facts(a, b):
    return dict(lt=bool(a < b), eq=bool(a == b), gt=bool(a > b), le=bool(a <= b), ge=bool(a >= b), ne=bool(a != b))


def check_oeh(case):
    _cl = use_clone(case)
    us, A, B, delta = case["us"], case["A"], case["B"], case["delta"]
    a = mk(us, A)
    b = mk(us + delta, B)
    for X in case["relabel_a"]:
        a = a.change_scale(X)
    for X in case["relabel_b"]:
        b = b.change_scale(X)
    labels = [A, B] + case["relabel_a"] + case["relabel_b"]
    exact = all(s in iers.EXACT for s in labels)
    f = _cmp_facts(a, b)
    if f["lt"] + f["eq"] + f["gt"] != 1:
        raise Violation("trichotomy", f"{a} vs {b}: {f}")
    if f["le"] != (f["lt"] or f["eq"]) or f["ge"] != (f["gt"] or f["eq"]) or f["ne"] == f["eq"]:
        raise Violation("order-incoherent", f"{a} vs {b}: {f}")
    g = _cmp_facts(b, a)
    if (g["lt"], g["eq"], g["gt"]) != (f["gt"], f["eq"], f["lt"]):
        raise Violation("order-asymmetric", f"{a} vs {b}: {f} but reversed {g}")
    if f["eq"]:
        if hash(a) != hash(b):
            raise Violation("hash-eq", f"{a!s} == {b!s} but their hashes differ "
                                       f"(labels {labels}, a-b = {td_us(a - b)} us)")
        if b not in {a} or {a: 1}.get(b) != 1:
            raise Violation("hash-eq", f"{a!s} == {b!s} but a set/dict holding one does not find the other")
    # comparison agrees with the subtraction and with the model
    diff = td_us(a - b)
    sub_sign = (diff > 0) - (diff < 0)
    cmp_sign = f["gt"] - f["lt"]
    # a difference below the microsecond of the subtraction may still order two UT1/TDB dates
    if sub_sign != cmp_sign and (diff != 0 or exact):
        raise Violation("order-vs-subtraction", f"{a!s} vs {b!s}: a-b = {diff} us but lt/eq/gt = {f['lt']}/{f['eq']}/{f['gt']}")
    fuzz = 0 if exact else (len([s for s in labels if s not in iers.EXACT]) + 1
                            + (len(labels)) * max(ut1_slack(us, labels), ut1_slack(us + delta, labels)))
    if abs(delta) > fuzz or exact:
        want = (-delta > 0) - (-delta < 0)
        if cmp_sign != want:
            raise Violation("order-wrong", f"{a!s} vs {b!s}: instants differ by {-delta} us (a-b) but comparison says {cmp_sign}")
    if abs(diff + delta) > fuzz:
        raise Violation("difference-wrong", f"{a!s} - {b!s} = {diff} us, instants differ by {-delta} us (tol {fuzz})")
    return dict(nt=(len(set(labels)) > 1) or near_midnight(us),
                cls=[f"eop:{cfg()}"] + _cl + (["equal-instants"] if delta == 0 else []) + (["exact-labels"] if exact else ["inexact-labels"])
                + (["compared-equal"] if f["eq"] else []))


# ------------------------------------------------------------------ 8  DateRange against a model


@st.composite
def range_case(draw, shard, tier):
    leaps = leap_days()
    us = draw(gd.instants(leaps, lo_mjd=gd.LO_MJD + 45, hi_mjd=gd.HI_MJD - 45))
    if draw(st.integers(0, 7)) == 0:
        # a range that spans a leap second (walked in TAI / TT / GPS)
        inside = [m for m in leaps if gd.LO_MJD + 100 < m < gd.HI_MJD - 100]
        us = gd.push_out_of_leap_windows((draw(st.sampled_from(inside)) - iers.BASE_MJD) * US_DAY
                                         + draw(gd.uniform_int(-20 * US_DAY, 20 * US_DAY)), leaps)
    S = draw(st.sampled_from(UNIFORM))
    S2 = draw(st.sampled_from(UNIFORM))
    step = draw(st.sampled_from([1, 1000, US, 60 * US, 3600 * US, US_DAY]) | gd.mixed_int(1, US_DAY))
    n = draw(st.integers(0, 40))
    dividing = draw(st.booleans())
    rem = 0 if (dividing or step == 1) else draw(gd.mixed_int(1, step - 1))
    span = n * step + rem
    sign = draw(st.sampled_from([1, -1]))
    if span == 0:
        sign = 1
    span *= sign
    step *= sign
    # UTC labels only while no leap second lies inside the range or its probes (+- one step and 1 s)
    pad = abs(step) * 3 + 2 * US
    if not gd.leap_free(us + min(0, span) - pad, us + max(0, span) + pad, leaps):
        S = "TAI" if S == "UTC" else S
        S2 = "TAI" if S2 == "UTC" else S2
    stop_kind = draw(st.sampled_from(["date", "timedelta"]))
    inclusive = draw(st.booleans())
    probes = draw(st.lists(st.sampled_from(["start", "stop", "start-1", "start+1", "stop-1", "stop+1", "mid", "far-", "far+"])
                           | st.integers(-2, 42), min_size=2, max_size=8))
    via = draw(st.sampled_from(["Date.range", "DateRange"]))
    return dict(us=us, S=S, S2=S2, step=step, span=span, stop_kind=stop_kind, inclusive=inclusive, probes=probes, via=via, clone=draw(gd.clone_modes()))


def check_range(case):
    _cl = use_clone(case)
    from beyond.dates import Date
    from beyond.dates.date import DateRange

    us, S, S2, step, span, inclusive = case["us"], case["S"], case["S2"], case["step"], case["span"], case["inclusive"]
    start = mk(us, S)
    if case["stop_kind"] == "date":
        # the stop is the instant us+span, labelled S2 (a different label must not matter)
        stop = at(us, span, S2)
    else:
        stop = _dt.timedelta(microseconds=span)
    tstep = _dt.timedelta(microseconds=step)
    make = Date.range if case["via"] == "Date.range" else DateRange
    rng = make(start, stop, tstep, inclusive=inclusive)
    # model: k * step while before the stop (or on it if inclusive)
    model = []
    k = 0
    while True:
        off = k * step
        if step > 0:
            ok = off <= span if inclusive else off < span
        else:
            ok = off >= span if inclusive else off > span
        if not ok:
            break
        model.append(off)
        k += 1
    desc = f"range({start}, {'+' if case['stop_kind'] == 'timedelta' else ''}{stop}, step {tstep!r}, inclusive={inclusive})"
    got = []
    for i, x in enumerate(rng):
        got.append(x)
        if i > len(model) + 2:
            break
    if len(got) != len(model):
        raise Violation("range-iter-count", f"{desc} yields {len(got)} dates, model {len(model)}", got=len(got), model=len(model))
    for k, (x, off) in enumerate(zip(got, model)):
        if td_us(x - start) != off:
            raise Violation("range-iter-value", f"{desc}: item {k} is {x}, {td_us(x - start)} us after start, model {off}")
        if str(x.scale) != S:
            raise Violation("scale-label", f"{desc}: item {k} labelled {x.scale}")
    if len(rng) != len(model):
        raise Violation("range-len", f"len({desc}) = {len(rng)}, iteration/model give {len(model)}")
    if len(list(rng)) != len(got):
        raise Violation("range-reiter", f"{desc}: second iteration gives another number of dates")
    for k, x in enumerate(got):
        if x not in rng:
            raise Violation("range-contains-own", f"{desc}: iterated date #{k} {x} is not `in` the range")

    def member(off):
        lo, hi = (0, span) if step > 0 else (span, 0)
        if step > 0:
            return lo <= off <= hi if inclusive else lo <= off < hi
        return lo <= off <= hi if inclusive else lo < off <= hi

    far = abs(span) + abs(step) + US
    named = {"start": 0, "stop": span, "start-1": -1, "start+1": 1, "stop-1": span - 1, "stop+1": span + 1,
             "mid": span // 2, "far-": -far, "far+": far}
    for p in case["probes"]:
        off = named[p] if isinstance(p, str) else p * step + (1 if isinstance(p, int) and p % 2 else 0)
        x = at(us, off, S2)
        if (x in rng) != member(off):
            raise Violation("range-contains", f"({x} in {desc}) is {x in rng}; the date is {off} us after start, span {span} us")
    cls = [f"eop:{cfg()}", "step<0" if step < 0 else "step>0", "inclusive" if inclusive else "exclusive",
           "dividing" if span % step == 0 else "non-dividing"]
    if span == 0:
        cls.append("empty-span")
    if not gd.leap_free(us + min(0, span), us + max(0, span), leap_days()):
        cls.append("spans-a-leap-second")
    return dict(nt=step < 0 or span % step != 0 or S != S2 or near_midnight(us), cls=cls + _cl)


def at(us, off, L):
    """The instant `off` us of uniform time after the instant us, labelled L (a uniform scale).
    For L = UTC the generator guarantees that no leap second intervenes."""
    from beyond.dates import Date

    if L == "UTC" and not gd.leap_free(us, us + off, leap_days()):
        L = "TAI"
    return gd.clone(Date(gd.us_to_datetime(readings(us)[L] + off), scale=L), _CLONE["how"])


# ------------------------------------------------------------------ 8b  one DateRange object, modified in place

STEP_CHOICES = [1, 7, 1000, US, 60 * US, 3600 * US, US_DAY, 86399 * US + 999999]


@st.composite
def range_history(draw, shard, tier):
    leaps = leap_days()
    us = draw(gd.instants(leaps, lo_mjd=gd.LO_MJD + 90, hi_mjd=gd.HI_MJD - 90))
    labels = ["TAI", "TT", "GPS"] + (["UTC"] if gd.leap_free(us - 80 * US_DAY, us + 80 * US_DAY, leaps) else [])
    lab = st.sampled_from(labels)

    def span_spec():
        return dict(n=draw(st.integers(0, 30)), rem=draw(st.sampled_from([0, 0, 1]) | gd.mixed_int(0, US_DAY)))

    init = dict(S=draw(lab), S2=draw(lab), step=draw(st.sampled_from(STEP_CHOICES) | gd.mixed_int(1, US_DAY)),
                sign=draw(st.sampled_from([1, -1])), inclusive=draw(st.booleans()), **span_spec())
    ops = []
    for _ in range(draw(st.integers(2, 8))):
        k = draw(st.sampled_from(["set_inclusive", "set_start", "set_stop", "set_step", "reverse", "reverse",
                                  "iterate_partially", "len", "contains", "clone_range", "take_iter", "take_iter",
                                  "advance", "advance", "advance", "zip", "nested", "product", "twin_interleave", "fork"]))
        op = dict(op=k)
        if k == "set_inclusive":
            op["value"] = draw(st.booleans())
        elif k in ("set_start", "set_stop"):
            op.update(span_spec(), S=draw(lab))
        elif k == "set_step":
            op["step"] = draw(st.sampled_from(STEP_CHOICES) | gd.mixed_int(1, US_DAY))
        elif k == "iterate_partially":
            op["take"] = draw(st.integers(0, 5))
        elif k == "clone_range":
            op["how"] = draw(st.sampled_from(gd.CLONE_MODES))
        elif k == "advance":
            op.update(which=draw(st.integers(0, 3)), k=draw(st.integers(1, 6)))
        elif k == "contains":
            op["probe"] = draw(st.sampled_from(["start", "stop", "start-1", "start+1", "stop-1", "stop+1", "mid"]))
            op["S"] = draw(lab)
        ops.append(op)
    return dict(us=us, init=init, ops=ops, clone=draw(gd.clone_modes()))


def _span_of(spec, step, sign):
    """Signed span: n whole steps plus a remainder below one step (never zero for a backward range:
    the constructor accepts an empty span only with a positive step)."""
    rem = spec["rem"] % abs(step)
    span = spec["n"] * abs(step) + rem
    if sign < 0 and span == 0:
        span = 1
    return sign * span


def check_range_history(case):
    _cl = use_clone(case)
    from beyond.dates import Date

    us, init = case["us"], case["init"]
    m = dict(start=0, step=init["sign"] * init["step"], inclusive=init["inclusive"])
    m["stop"] = _span_of(init, m["step"], init["sign"])
    rng = Date.range(at(us, 0, init["S"]), at(us, m["stop"], init["S2"]), _dt.timedelta(microseconds=m["step"]),
                     inclusive=init["inclusive"])
    done = []

    def model():
        out, k = [], 0
        span = m["stop"] - m["start"]
        while True:
            off = k * m["step"]
            if m["step"] > 0:
                ok = off <= span if m["inclusive"] else off < span
            else:
                ok = off >= span if m["inclusive"] else off > span
            if not ok or k > 100:
                return out
            out.append(m["start"] + off)
            k += 1

    def member(off):
        lo, hi = min(m["start"], m["stop"]), max(m["start"], m["stop"])
        if m["inclusive"]:
            return lo <= off <= hi
        return (m["start"] <= off < m["stop"]) if m["step"] > 0 else (m["stop"] < off <= m["start"])

    def invariant(after):
        want = model()
        desc = (f"DateRange after {done + [after]}: start {rng.start}, stop {rng.stop}, step {rng.step!r}, "
                f"inclusive={rng.inclusive}")
        got = []
        for i, x in enumerate(rng):
            got.append(td_us(x - base))
            if i > len(want) + 3:
                break
        if got != want:
            raise Violation("range-history-iter", f"{desc}: iteration gives {len(got)} dates "
                                                  f"{got[:3]}..., the current attributes give {len(want)} dates {want[:3]}...",
                            got=len(got), model=len(want))
        if len(rng) != len(want):
            raise Violation("range-history-len", f"{desc}: len = {len(rng)}, {len(want)} dates are iterated / expected")
        for off in want[:3] + want[-2:]:
            if at(us, off, "TAI") not in rng:
                raise Violation("range-history-contains", f"{desc}: iterated date at {off} us is not `in` the range")
        for off in (m["start"], m["stop"], m["start"] - 1, m["start"] + 1, m["stop"] - 1, m["stop"] + 1):
            if (at(us, off, "GPS") in rng) != member(off):
                raise Violation("range-history-contains", f"{desc}: membership of the date at {off} us is "
                                                          f"{at(us, off, 'GPS') in rng}, attributes say {member(off)}")

    base = at(us, 0, "TAI")
    invariant("construction")
    mutated = False
    forks = []
    live = []  # iterators taken from the range and still alive: [iterator, position, expected list]
    concurrent = False
    for op in case["ops"]:
        k = op["op"]
        sign = 1 if m["step"] > 0 else -1
        if k == "set_inclusive":
            live.clear()
            rng.inclusive = op["value"]
            m["inclusive"] = op["value"]
            mutated = True
        elif k == "set_stop":
            live.clear()
            m["stop"] = m["start"] + _span_of(op, m["step"], sign)
            rng.stop = at(us, m["stop"], op["S"])
            mutated = True
        elif k == "set_start":
            live.clear()
            m["start"] = m["stop"] - _span_of(op, m["step"], sign)
            rng.start = at(us, m["start"], op["S"])
            mutated = True
        elif k == "set_step":
            live.clear()
            m["step"] = sign * op["step"]
            if abs(m["stop"] - m["start"]) // abs(m["step"]) > 60:
                m["step"] = sign * max(op["step"], abs(m["stop"] - m["start"]) // 40 + 1)
            rng.step = _dt.timedelta(microseconds=m["step"])
            mutated = True
        elif k == "reverse":
            if m["stop"] == m["start"]:
                done.append("reverse(skipped: empty span)")
                continue
            live.clear()
            rng.start, rng.stop, rng.step = rng.stop, rng.start, -rng.step
            m["start"], m["stop"], m["step"] = m["stop"], m["start"], -m["step"]
            mutated = True
        elif k == "clone_range":
            # the range object itself goes through pickle / copy / deepcopy: same range
            rng = gd.clone(rng, op["how"])
            live.clear()
        elif k == "take_iter":
            live.append([iter(rng), 0, model()])
        elif k == "advance":
            if live:
                # an iterator taken earlier goes on where IT stopped, whatever was iterated / listed in between
                ent = live[op["which"] % len(live)]
                for _ in range(op["k"]):
                    got = next(ent[0], None)
                    want = ent[2][ent[1]] if ent[1] < len(ent[2]) else None
                    got_us = None if got is None else td_us(got - base)
                    if got_us != want:
                        raise Violation("range-concurrent-iterators",
                                        f"DateRange after {done + [k]}: iterator #{live.index(ent)} resumed at position {ent[1]} gives "
                                        f"{got_us} us, expected {want} us (of {len(ent[2])} dates); {len(live)} iterators alive, "
                                        f"the range was listed in between")
                    ent[1] += 1
                concurrent = True
        elif k == "twin_interleave":
            # a second range built from the same arguments is walked in turns with this one
            want = model()
            twin = Date.range(rng.start, rng.stop, rng.step, inclusive=rng.inclusive)
            a, b = iter(rng), iter(twin)
            got_a, got_b = [], []
            for _ in range(len(want) + 2):
                x, y = next(a, None), next(b, None)
                if x is not None:
                    got_a.append(td_us(x - base))
                if y is not None:
                    got_b.append(td_us(y - base))
            if got_a != want or got_b != want:
                raise Violation("range-concurrent-iterators", f"DateRange after {done + [k]}: walked in turns with a twin built from "
                                                              f"the same arguments: {len(got_a)} / {len(got_b)} dates, expected {len(want)}")
            concurrent = True
        elif k == "fork":
            # a clone is taken BEFORE later in-place changes: it must keep listing what the range was then
            forks.append((gd.clone(rng, "deepcopy" if len(forks) % 2 else "pickle"), model(), list(done)))
        elif k in ("zip", "nested", "product"):
            want = model()
            if len(want) <= 12:
                if k == "zip":
                    got = [(td_us(a - base), td_us(b - base)) for a, b in zip(rng, rng)]
                    exp = [(x, x) for x in want]
                elif k == "nested":
                    got = [(td_us(a - base), td_us(b - base)) for a in rng for b in rng]
                    exp = [(x, y) for x in want for y in want]
                else:
                    import itertools

                    got = [(td_us(a - base), td_us(b - base)) for a, b in itertools.product(rng, rng)]
                    exp = [(x, y) for x in want for y in want]
                if got != exp:
                    raise Violation("range-concurrent-iterators",
                                    f"DateRange after {done + [k]}: {k}(r, r) gives {len(got)} pairs {got[:4]}, expected "
                                    f"{len(exp)} pairs {exp[:4]}")
                concurrent = concurrent or len(want) > 1
        elif k == "iterate_partially":
            it = iter(rng)
            for _ in range(op["take"]):
                if next(it, None) is None:
                    break
        elif k == "len":
            len(rng)
        elif k == "contains":
            span = m["stop"] - m["start"]
            off = {"start": m["start"], "stop": m["stop"], "start-1": m["start"] - 1, "start+1": m["start"] + 1,
                   "stop-1": m["stop"] - 1, "stop+1": m["stop"] + 1, "mid": m["start"] + span // 2}[op["probe"]]
            if (at(us, off, op["S"]) in rng) != member(off):
                raise Violation("range-history-contains", f"DateRange after {done}: membership of {op['probe']} wrong")
        done.append(k)
        invariant(k)
    for f, want, when in forks:
        got = [td_us(x - base) for x in f]
        if got != want or len(f) != len(want):
            raise Violation("range-fork", f"a clone of the DateRange taken after {when} lists {len(got)} dates after the original "
                                          f"was changed in place ({done[len(when):]}), it listed {len(want)} when it was taken")
    cls = [f"eop:{cfg()}"] + sorted({o["op"] for o in case["ops"]})
    return dict(nt=mutated or concurrent, cls=cls + _cl + (["several-iterations-alive-at-once"] if concurrent else []))


# ------------------------------------------------------------------ 9  constructors


@st.composite
def ctor_case(draw, shard, tier):
    return dict(us=draw(gd.instants(leap_days())), S=draw(gd.scales()),
                tz_minutes=draw(st.integers(-14 * 60, 14 * 60)))


def check_ctor(case):
    from beyond.dates import Date

    us, S = case["us"], case["S"]
    r = readings(us)
    dt = gd.us_to_datetime(r[S])
    ref = Date(dt, scale=S)
    delta = dt - Date.MJD_T0
    day, sec = delta.days, delta.seconds + delta.microseconds * 1e-6
    forms = {
        "fields": Date(dt.year, dt.month, dt.day, dt.hour, dt.minute, dt.second, dt.microsecond, scale=S),
        "day+seconds": Date(day, sec, scale=S),
        "Date": Date(ref),
        "lowercase-scale": Date(dt, scale=S.lower()),
    }
    from beyond.dates.date import get_scale

    fmt = "%Y-%m-%dT%H:%M:%S.%f"
    forms.update({
        "scale-object": Date(dt, scale=get_scale(S)),
        "strptime": Date.strptime(dt.strftime(fmt), fmt, scale=S),
        "strptime-scale-object": Date.strptime(dt.strftime(fmt), fmt, scale=get_scale(S)),
        "fields-keyword": Date(dt.year, dt.month, dt.day, dt.hour, dt.minute, second=dt.second, microsecond=dt.microsecond,
                               scale=S),
        "Date-of-clone": Date(gd.clone(ref, "pickle")),
    })
    # whole seconds / whole days: the integer spellings
    whole = dt.replace(microsecond=0)
    ws = (whole - Date.MJD_T0)
    pairs = [("day+int-seconds", Date(ws.days, int(ws.seconds), scale=S), Date(whole, scale=S)),
             ("int-mjd", Date(ws.days, scale=S), Date(whole.replace(hour=0, minute=0, second=0), scale=S)),
             ("fields-date-only", Date(dt.year, dt.month, dt.day, scale=S), Date(whole.replace(hour=0, minute=0, second=0), scale=S))]
    for name, x, want in pairs:
        if str(x.scale) != S or td_us(x - want) != 0 or reading_us(x) != reading_us(want) or not x == want or hash(x) != hash(want):
            raise Violation("ctor-form", f"Date built from {name} = {x}, from datetime = {want}")
    # change_scale spelled with the scale object
    for X in iers.SCALES:
        a, b = ref.change_scale(get_scale(X)), ref.change_scale(X)
        if not a == b or reading_us(a) != reading_us(b) or str(a.scale) != X:
            raise Violation("ctor-change-scale-object", f"{ref}.change_scale(<Scale {X}>) = {a}, with the name: {b}")
    if S == "UTC":
        tz = _dt.timezone(_dt.timedelta(minutes=case["tz_minutes"]))
        forms["tz-aware"] = Date(dt.replace(tzinfo=_dt.timezone.utc).astimezone(tz))
    for name, x in forms.items():
        if str(x.scale) != S:
            raise Violation("ctor-scale", f"{name}: label {x.scale}, expected {S}")
        if td_us(x - ref) != 0 or reading_us(x) != reading_us(ref) or not x == ref or hash(x) != hash(ref):
            raise Violation("ctor-form", f"Date built from {name} = {x}, from datetime = {ref}")
    if abs(reading_us(ref) - r[S]) > (0 if S in iers.EXACT else 1):
        raise Violation("constructor-reading", f"Date(datetime {dt}, {S}).datetime = {ref.datetime}")
    # the formatting entry points print the reading in the date's own scale
    iso = dt.isoformat()
    shown = {"str": str(ref), "format": f"{ref}", "format-spec": f"{ref:%Y-%m-%dT%H:%M:%S.%f}", "strftime": ref.strftime(fmt),
             "repr": repr(ref)}
    want_shown = {"str": f"{iso} {S}", "format": f"{iso} {S}", "format-spec": dt.strftime(fmt), "strftime": dt.strftime(fmt),
                  "repr": f"<Date '{iso} {S}'>"}
    if S in iers.EXACT and shown != want_shown:
        bad = sorted(k for k in shown if shown[k] != want_shown[k])
        raise Violation("date-formatting", f"{bad[0]} of Date({dt}, {S}) gives {shown[bad[0]]!r}, expected {want_shown[bad[0]]!r}")
    # a Date is immutable: a refused assignment leaves it as it was
    before = (reading_us(ref), str(ref.scale), hash(ref), ref._d, float(ref._s))
    for attr, value in (("scale", "TAI"), ("_d", 0), ("d", 0), ("eop", None)):
        try:
            setattr(ref, attr, value)
        except (TypeError, AttributeError):
            pass
        else:
            raise Violation("date-mutable", f"Date.{attr} = {value!r} was accepted")
    try:
        ref + 3
    except TypeError:
        pass
    else:
        raise Violation("date-add-type", "Date + 3 was accepted")
    if (reading_us(ref), str(ref.scale), hash(ref), ref._d, float(ref._s)) != before:
        raise Violation("date-mutable", f"a refused assignment changed {ref}")
    if cfg() != "real":
        # Date.now(scale): the current instant under that label (needs no table under these configurations)
        n0, n1 = Date.now(), Date.now(S)
        if str(n1.scale) != S or not (0 <= (n1 - n0).total_seconds() < 5):
            raise Violation("date-now", f"Date.now({S}) = {n1}, Date.now() = {n0}")
    # float MJD: the resolution of a double at MJD 5e4 is 0.63 us
    mjd = day + sec / 86400.0
    x = Date(mjd, scale=S)
    # (a UT1 reading within 1 s of 0h UTC is ambiguous by the day change of UT1-UTC: same allowance)
    if abs(td_us(x - ref)) > 1 + ut1_slack(us, (S,)):
        raise Violation("ctor-mjd", f"Date({mjd!r}, {S}) = {x}, {td_us(x - ref)} us from {ref}")
    if abs(ref.mjd - mjd) > 1.5e-11 or abs(ref.jd - (mjd + 2400000.5)) > 1e-9:
        raise Violation("mjd-property", f"{ref}.mjd = {ref.mjd!r}, expected {mjd!r}")
    if ref.d != day or abs(ref.s - sec) > 1e-6:
        raise Violation("d-s-property", f"{ref}: d, s = {ref.d}, {ref.s}; expected {day}, {sec}")
    return dict(nt=True, cls=classes_for(us, (S,)))


# ------------------------------------------------------------------ 10  clones: pickle / copy / deepcopy


@st.composite
def clone_case(draw, shard, tier):
    leaps = leap_days()
    us = draw(gd.instants(leaps, lo_mjd=gd.LO_MJD + 45, hi_mjd=gd.HI_MJD - 45))
    if draw(st.integers(0, 3)) == 0:
        # the last seconds of a UTC day: TAI / TT / TDB / GPS already read the next day
        us = (us // US_DAY + 1) * US_DAY - draw(gd.mixed_int(1, 70 * US, 2))
        us = gd.push_out_of_leap_windows(us, leaps)
    return dict(us=us, S=draw(gd.scales()), how=draw(st.sampled_from(gd.CLONE_MODES)), t=draw(gd.timedeltas_us()),
                holder=draw(st.sampled_from(["date", "date", "list", "dict", "range", "tuple-of-same"])),
                via=draw(st.sampled_from(["datetime", "change_scale", "arithmetic"])))


def check_clone(case):
    from beyond.dates import Date

    _CLONE["how"] = "none"
    us, S, how = case["us"], case["S"], case["how"]
    T = _dt.timedelta(microseconds=case["t"])
    d = mk(us, S)
    if case["via"] == "change_scale":
        d = mk(us, "UTC" if S != "UTC" else "TT").change_scale(S)
    elif case["via"] == "arithmetic":
        d = (d + T) - T
    holder = case["holder"]
    if holder == "date":
        c = gd.clone(d, how)
    elif holder == "list":
        c = gd.clone([d, 1.0, "x"], how)[0]
    elif holder == "dict":
        c = gd.clone({"epoch": d}, how)["epoch"]
    elif holder == "tuple-of-same":
        a, b = gd.clone((d, d), how)
        if not (a == b and hash(a) == hash(b)):
            raise Violation("clone-pair", f"{how} of (d, d) gives two dates that differ: {a} / {b}")
        c = b
    else:
        span_us = case["t"] if case["t"] else US
        r0 = Date.range(d, _dt.timedelta(microseconds=span_us),
                        _dt.timedelta(microseconds=(abs(span_us) // 3 + 1) * (1 if span_us > 0 else -1)))
        r1 = gd.clone(r0, how)
        if [reading_us(x) for x in r1] != [reading_us(x) for x in r0] or len(r1) != len(r0) or r1.inclusive != r0.inclusive:
            raise Violation("clone-range", f"{how} of {r0.start} .. {r0.stop} iterates differently")
        c = r1.start
    what = f"{how} clone ({holder}) of {d}"

    def same(name, a, b):
        if isinstance(a, float) and isinstance(b, float) and math.isnan(a) and math.isnan(b):
            return
        if not (a == b):
            raise Violation(f"clone-{name.split('(')[0].split('.')[0]}", f"{what}: {name} = {a!r}, original {b!r}")

    if type(c) is not type(d):
        raise Violation("clone-type", f"{what}: type {type(c).__name__}")
    same("scale", str(c.scale), str(d.scale))
    for attr in ("d", "s", "_d", "_s", "_offset", "mjd", "_mjd", "jd"):
        same(attr, float(getattr(c, attr)), float(getattr(d, attr)))
    same("datetime", c.datetime, d.datetime)
    same("str", str(c), str(d))
    if not (c == d and d == c and not (c != d) and not (c < d) and not (c > d) and c <= d and c >= d):
        raise Violation("clone-eq", f"{what}: the clone does not compare equal to the original")
    same("hash", hash(c), hash(d))
    if c not in {d} or {d: 1}.get(c) != 1:
        raise Violation("clone-hash", f"{what}: a set / dict holding the original does not find the clone")
    same("difference", td_us(c - d), 0)
    for k in FIELDS:
        same(f"eop.{k}", getattr(c.eop, k), getattr(d.eop, k))
    # every conversion and every arithmetic result is the one of the original, exactly
    for X in iers.SCALES:
        a, b = c.change_scale(X), d.change_scale(X)
        same(f"change_scale({X}).datetime", a.datetime, b.datetime)
        same(f"change_scale({X})._d", a._d, b._d)
        same(f"change_scale({X})._s", float(a._s), float(b._s))
        same(f"change_scale({X}).eop.ut1_utc", a.eop.ut1_utc, b.eop.ut1_utc)
        if not a == b:
            raise Violation("clone-change_scale", f"{what}: change_scale({X}) = {a}, original gives {b}")
    for name, f in (("d + t", lambda x: x + T), ("d - t", lambda x: x - T), ("(d + t) - d", lambda x: (x + T) - d),
                    ("Date(d)", lambda x: Date(x)), ("julian_century", lambda x: x.julian_century)):
        a, b = f(c), f(d)
        same(name, a, b)
        if isinstance(a, Date):
            same(name + " reading", a.datetime, b.datetime)
            same(name + " _s", float(a._s), float(b._s))
    third = mk(us + case["t"], "TAI")
    for op in ("__lt__", "__le__", "__gt__", "__ge__", "__eq__"):
        same(f"{op}(third)", getattr(c, op)(third), getattr(d, op)(third))
    same("third - clone", td_us(third - c), td_us(third - d))
    cls = classes_for(us, (S,)) + [f"how:{how}", f"holder:{holder}", f"via:{case['via']}", f"scale:{S}"]
    if labels_straddle(readings(us)):
        cls.append("labels-straddle-0h")
    return dict(nt=True, cls=cls)


# ------------------------------------------------------------------ facets

FACETS = [
    Facet("same_instant", conv_case, check_same_instant, setup=setup_conv,
          rule="label pair differs or instant within 90 s of 0h UTC",
          quick=(8, 800), thorough=(32, 6000)),
    Facet("round_trip_reading", conv_case, check_round_trip, setup=setup_conv,
          rule="label pair differs or instant within 90 s of 0h UTC",
          quick=(4, 1200), thorough=(16, 6000)),
    Facet("offsets", offsets_case, check_offsets, setup=setup_conv,
          rule="every case: six readings of one instant against tables and constants",
          quick=(8, 800), thorough=(32, 5000)),
    Facet("table_days", None, check_table_day, setup=setup_real, runner=table_runner,
          rule="every day of finals.all +- margin, three fractions of the day",
          quick=(2, 0), thorough=(2, 0)),
    Facet("missing_policy", missing_case, check_missing, setup=setup_missing,
          rule="every case (date outside the tables or no database at all)",
          quick=(4, 400), thorough=(8, 2000)),
    Facet("arithmetic", arith_case, check_arith, setup=setup_conv,
          rule="every case", quick=(8, 600), thorough=(32, 4000)),
    Facet("order_eq_hash", oeh_case, check_oeh, setup=setup_conv,
          rule="labels differ or instant within 90 s of 0h UTC",
          quick=(8, 800), thorough=(32, 5000)),
    Facet("daterange_model", range_case, check_range, setup=setup_conv,
          rule="negative step, non-dividing step, mixed labels or instant within 90 s of 0h UTC",
          quick=(8, 500), thorough=(32, 2500)),
    Facet("daterange_history", range_history, check_range_history, setup=setup_conv,
          rule="the range object was modified in place at least once, or several iterations over it were alive at once",
          quick=(4, 300), thorough=(16, 2500)),
    Facet("clone", clone_case, check_clone, setup=setup_conv,
          rule="every case: a Date (alone or held by a list / dict / DateRange) after pickle / copy / deepcopy",
          quick=(8, 500), thorough=(16, 5000)),
    Facet("constructors", ctor_case, check_ctor, setup=setup_conv,
          rule="every case: five constructor forms of one reading", quick=(4, 500), thorough=(8, 3000)),
]
