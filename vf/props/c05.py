"""C05 - analytical two-body and J2 propagation obey Kepler's laws."""

import math
from datetime import datetime, timedelta

import numpy as np
from hypothesis import assume, strategies as st

from .. import env
from ..core import Facet, Violation
from ..gen import orbits as go
from ..oracles import twobody as tb
from .c01 import FORMS, HYP_FORMS, frame_for, kappa_polar, oracle_coords

RULE = ("Initial state drawn as elements (e in [1e-4,0.95] or [1.01,10]) and handed to the library in a "
        "drawn element form (coordinates computed by the oracle) and a drawn non-rotating frame; dt on "
        "the microsecond grid within +-30 d.")
ASSUMPTIONS = [
    "oracle: universal-variable (Stumpff) solver and, independently, mean-anomaly advance in vf/oracles/twobody.py",
    "J2 secular rates: first-order closed form with J2, Re, mu read from beyond.constants.Earth",
    "EOP absent (policy pass): the analytical propagators never change frame",
]
LEVEL_TEXT = ("Generated-input search: invariants, group laws (composition, inverse, periodicity) and a "
              "differential against an independent universal-variable two-body solver; closed-form J2 "
              "secular rates. Exploration only - no absence claim.")
TECHNIQUE = "property-based testing (Hypothesis): metamorphic group laws + differential vs independent two-body solver"

FRAMES = ["EME2000", "MOD", "TOD", "GCRF", "CIRF", "TEME", "G50"]
TWO_PI = 2 * math.pi
T0 = datetime(2005, 1, 1)


def setup(shard):
    env.eop("missing-pass")


_LABELS = {"epoch": "UTC", "target": "UTC", "epoch_us": None}
LABELS = ["UTC", "UTC", "UTC", "TT", "GPS", "TAI"]  # exact offsets: the same instants to the microsecond


def use_labels(case):
    """The time scale the epoch and every other date of this case are written in (same instants)."""
    _LABELS.update(epoch=case.get("epoch_label", "UTC"), target=case.get("label", "UTC"), epoch_us=case.get("epoch_us"))


def label_cls(case):
    ls = {case.get("label", "UTC"), case.get("epoch_label", "UTC")}
    return ["labels:all-UTC"] if ls == {"UTC"} else ["labels:" + "+".join(sorted(ls))]


def mkdate(us):
    from beyond.dates import Date

    d = Date(T0 + timedelta(microseconds=us))
    label = _LABELS["epoch"] if us == _LABELS["epoch_us"] else _LABELS["target"]
    return d if label == "UTC" else d.change_scale(label)


@st.composite
def kep_case(draw, hyp_ok=True, emax_ell=0.95, bodies=("Earth",)):
    hyp = hyp_ok and draw(st.integers(0, 9)) < 3
    el = draw(go.elements(elliptic=not hyp, hyperbolic=hyp, emax_ell=emax_ell, bodies=bodies, emax_hyp=10.0, hmax=3.0,
                          rp_range=(1.03, 8.0), mwind=1.0, emin_hyp=1.01))
    form = draw(st.sampled_from(HYP_FORMS if hyp else FORMS))
    frame = draw(st.sampled_from(FRAMES))
    epoch_us = draw(go.uniform_int(0, 10 * 365 * 86400 * 10**6))
    kind = draw(st.sampled_from(["short", "long", "long", "tiny", "biased"]))
    span = {"short": 86400, "long": 30 * 86400, "tiny": 10, "biased": 30 * 86400}[kind]
    if kind == "biased":  # Hypothesis' own integer distribution: mass on 0, +-1 us, small values
        dt_us = draw(st.integers(-span * 10**6, span * 10**6))
    else:
        dt_us = draw(go.uniform_int(-span * 10**6, span * 10**6))
    lam = draw(go.f(-1.0, 2.0))
    k = draw(st.sampled_from([-5, -4, -3, -2, -1, 1, 2, 3, 4, 5]))
    share = draw(st.booleans())
    if el["body"] != "Earth":
        frame = "body-centred"  # the one non-rotating frame vf.props.c01.frame_for() builds on that body
    return dict(el=el, form=form, frame=frame, epoch_us=epoch_us, dt_us=dt_us, lam=lam, k=k, share=share,
                label=draw(st.sampled_from(LABELS)), epoch_label=draw(st.sampled_from(LABELS)),
                by_name=draw(st.integers(0, 3)) == 0,
                near_us=draw(st.lists(st.sampled_from([1, 7, 150, 1000, 2000, 9000, -3, -4000]), max_size=2, unique=True)),
                twin=draw(st.sampled_from([None, None, 6e-10, 3e-9])))


def build(case, propagator):
    from beyond.orbits import Orbit

    el = case["el"]
    mu = go.MU_LIB(el["body"])
    cart = tb.kep2cart(el["a"], el["e"], el["i"], el["raan"], el["argp"], el["nu"], mu)
    coords = oracle_coords(el, case["form"], mu, cart)
    if case["form"] in ("spherical", "cylindrical"):
        assume(kappa_polar(cart) < 1e4)  # polar axis = coordinate singularity of these forms
    frame = case["frame"] if el["body"] == "Earth" else frame_for(el["body"])
    if case.get("by_name"):
        propagator = type(propagator).__name__  # "Kepler" / "J2": the propagator given by its name
    orb = Orbit(coords, mkdate(case["epoch_us"]), case["form"], frame, propagator)
    return orb, cart, mu


def as_cart(sv):
    out = np.asarray(sv.copy(form="cartesian").base, float)
    if not np.all(np.isfinite(out)):
        raise Violation("non-finite", f"propagation returned {out.tolist()}")
    return out


def rel_err(got, ref):
    return (float(np.linalg.norm(got[:3] - ref[:3]) / np.linalg.norm(ref[:3])),
            float(np.linalg.norm(got[3:] - ref[3:]) / np.linalg.norm(ref[3:])))


def cond(el, n, dt, form=None):
    e = el["e"]
    k = 1.0 / abs(1 - e) / math.sin(el["i"])
    if form in ("spherical", "cylindrical"):
        k *= 1e4
    if e > 1:
        k *= math.cosh(el["anom"]) ** 2
    return k * (1 + abs(n * dt))


def classes(case, n, dt):
    c = []
    e = case["el"]["e"]
    c.append("hyperbolic" if e > 1 else "elliptic")
    if dt < 0:
        c.append("backward")
    if abs(n * dt) > math.pi:
        c.append("|n.dt|>pi")
    if abs(n * dt) > 100:
        c.append("|n.dt|>100")
    c.append("form:" + case["form"])
    return c


def check_kepler(case):
    use_labels(case)
    from beyond.propagators.kepler import Kepler

    orb, cart0, mu = build(case, Kepler())
    snapshot = np.array(orb.base, float)
    el = case["el"]
    e = el["e"]
    n = math.sqrt(mu / abs(el["a"]) ** 3)
    dt = case["dt_us"] * 1e-6
    date = mkdate(case["epoch_us"] + case["dt_us"])
    res = orb.propagate(date)
    if res.date != date:
        raise Violation("date", f"result dated {res.date}, asked {date}")
    if res.frame.name != orb.frame.name:
        raise Violation("frame", f"result in {res.frame.name}, initial orbit in {orb.frame.name}")
    got = as_cart(res)
    k = cond(el, n, dt, case['form'])
    r0 = float(np.linalg.norm(cart0[:3]))
    tol = 1e-11 * k + 1e-10
    worst = 0.0

    # 1. differential: independent universal-variable solution
    ref = tb.propagate_uv(cart0, dt, mu)
    ref2 = tb.propagate_elements(cart0, dt, mu)
    if max(rel_err(ref, ref2)) > 0.1 * tol:
        raise ArithmeticError(f"the two oracle routes disagree: {rel_err(ref, ref2)}")
    dr, dv = rel_err(got, ref)
    worst = max(worst, dr / tol, dv / tol)
    if dr > tol or dv > tol:
        raise Violation("universal-variable",
                        f"Kepler.propagate({dt:.6f} s) differs from the two-body solution by dr={dr:.3g} dv={dv:.3g} "
                        f"(tol {tol:.3g}) e={e:.6g} form={case['form']}", dr=dr, dv=dv)

    # 1b. neighbouring requests in the same process: a target a few microseconds .. milliseconds further, and a twin
    #     orbit a few millimetres larger, each against ITS OWN two-body solution (nothing may be answered from what
    #     was computed for the neighbour)
    for d_us in case.get("near_us") or []:
        date2 = mkdate(case["epoch_us"] + case["dt_us"] + d_us)
        got2 = as_cart(orb.propagate(date2))
        ref_n = tb.propagate_uv(cart0, dt + d_us * 1e-6, mu)
        dr2, dv2 = rel_err(got2, ref_n)
        worst = max(worst, dr2 / tol, dv2 / tol)
        if dr2 > tol or dv2 > tol:
            raise Violation("universal-variable-neighbour",
                            f"Kepler.propagate({dt:.6f} s + {d_us} us), asked right after propagate({dt:.6f} s), differs from "
                            f"its two-body solution by dr={dr2:.3g} dv={dv2:.3g} (tol {tol:.3g}) e={e:.6g}", dr=dr2, dv=dv2)
    if case.get("twin"):
        from beyond.orbits import Orbit

        cart_t = np.array(cart0, float)
        cart_t[:3] *= 1.0 + case["twin"]
        twin = Orbit(cart_t.tolist(), orb.date, "cartesian", orb.frame, Kepler())
        got_t = as_cart(twin.propagate(date))
        dr3, dv3 = rel_err(got_t, tb.propagate_uv(cart_t, dt, mu))
        worst = max(worst, dr3 / tol, dv3 / tol)
        if dr3 > tol or dv3 > tol:
            raise Violation("universal-variable-twin",
                            f"a second orbit {case['twin']:.1e} (relative) larger, propagated by {dt:.6f} s after the first one, "
                            f"differs from its own two-body solution by dr={dr3:.3g} dv={dv3:.3g} (tol {tol:.3g})")

    # 2. invariants a, e, i, raan, argp ; mean anomaly advance n.dt
    a0 = tb.cart2elements(cart0, mu)
    a1 = tb.cart2elements(got, mu)
    etol = 1e-10 * k + 1e-9
    inv = [("a", abs(a1["a"] / a0["a"] - 1)), ("e", abs(a1["e"] - a0["e"]) * min(1.0, e) ),
           ("i", abs(a1["i"] - a0["i"])), ("raan", abs(tb.angdiff(a1["raan"], a0["raan"]))),
           ("argp", abs(tb.angdiff(a1["argp"], a0["argp"])) * min(1.0, e))]
    for name, d in inv:
        worst = max(worst, d / etol)
        if d > etol:
            raise Violation("invariant-" + name, f"{name} changed by {d:.3g} over dt={dt:.3f} s (e={e:.6g})")
    if e < 1:
        dM = abs(tb.angdiff(a1["M"] - a0["M"], n * dt)) * min(1.0, e)
    else:
        dM = abs((a1["M"] - a0["M"]) - n * dt) / max(1.0, abs(a1["M"]))
    mtol = 1e-10 * k + 1e-9
    if e > 1:
        # recovering M from a far-out hyperbolic state goes through atanh: cosh^2 H1
        mtol *= max(1.0, math.cosh(min(abs(a1["E"]), 300.0)) ** 2 / max(1.0, abs(a1["M"])))
    worst = max(worst, dM / mtol)
    if dM > mtol:
        raise Violation("mean-anomaly", f"M advanced by {a1['M'] - a0['M']!r}, n.dt = {n * dt!r} (e={e:.6g})")

    # 3. composition: t1 then t2 from the intermediate state == t1 + t2
    t1_us = int(round(case["lam"] * case["dt_us"]))
    mid = orb.propagate(mkdate(case["epoch_us"] + t1_us))
    # either a fresh propagator or the very object already bound to the initial orbit (re-binding)
    mid.propagator = orb.propagator if case.get("share") else Kepler()
    two = as_cart(mid.propagate(date))
    dr, dv = rel_err(two, got)
    k2 = k + cond(el, n, t1_us * 1e-6) + cond(el, n, dt - t1_us * 1e-6)

    def hyp_amp(rv_conv, rv_eval):
        """The library recovers H of a cartesian state as atanh(tanh H): dH = eps cosh^2 H, i.e.
        dM = eps cosh^2 H (e cosh H - 1), which re-appears as dH' = dM / (e cosh H' - 1) where the
        propagated state is evaluated."""
        if e < 1:
            return 0.0
        Hc = min(abs(tb.cart2elements(rv_conv, mu)["E"]), 200.0)
        He = min(abs(tb.cart2elements(rv_eval, mu)["E"]), 200.0)
        return math.cosh(Hc) ** 2 * (e * math.cosh(Hc) - 1) / (e * math.cosh(He) - 1)

    ctol = 1e-11 * k2 + 1e-10 + 1e-14 * hyp_amp(as_cart(mid), got)
    worst = max(worst, dr / ctol, dv / ctol)
    if dr > ctol or dv > ctol:
        raise Violation("composition", f"propagate(t1) then propagate(t2) differs from propagate(t1+t2) by dr={dr:.3g} "
                                       f"dv={dv:.3g} (t1={t1_us * 1e-6:.3f}, t={dt:.3f}, e={e:.6g})")

    # 4. inverse
    back = as_cart(res.propagate(mkdate(case["epoch_us"])) if hasattr(res, "propagate") else res)
    dr, dv = rel_err(back, cart0)
    ctol = 1e-11 * k2 + 1e-10 + 1e-14 * hyp_amp(got, cart0)
    worst = max(worst, dr / ctol, dv / ctol)
    if dr > ctol or dv > ctol:
        raise Violation("inverse", f"propagate(dt) then propagate(-dt) misses the start by dr={dr:.3g} dv={dv:.3g} "
                                   f"(dt={dt:.3f}, e={e:.6g})")

    # 5. the initial orbit object is never modified
    if not np.array_equal(np.asarray(orb.base, float), snapshot) or orb.form.name != case["form"]:
        raise Violation("initial-mutated", "propagate() changed the initial orbit object")

    # 6. timedelta argument == date argument
    td = as_cart(orb.propagate(timedelta(microseconds=case["dt_us"])))
    if not np.array_equal(td, got):
        dr, dv = rel_err(td, got)
        if dr > 1e-13 or dv > 1e-13:
            raise Violation("timedelta-arg", f"propagate(timedelta) != propagate(date): {dr:.3g}")
    # 7. the other public routes to the same state: an iteration over that single date, the last point of
    #    an iteration from the epoch to that date, the tabulated ephemeris
    for route, get in (("iter(dates=[date])", lambda: list(orb.iter(dates=[date]))[-1]),
                       ("iter(stop=date, step=dt)", lambda: list(orb.iter(stop=date, step=timedelta(microseconds=case["dt_us"])))[-1]
                        if case["dt_us"] else res),
                       # a grid that does not begin at the orbit's epoch: from the intermediate date of step 3 to the date
                       ("iter(start=epoch+t1, stop=date, step=dt-t1)",
                        lambda: list(orb.iter(start=mkdate(case["epoch_us"] + t1_us), stop=date,
                                              step=timedelta(microseconds=case["dt_us"] - t1_us)))[-1]
                        if case["dt_us"] != t1_us else res),
                       ("ephem(stop=date, step=dt)", lambda: list(orb.ephem(stop=date, step=timedelta(microseconds=case["dt_us"])))[-1 if case["dt_us"] > 0 else 0]
                        if case["dt_us"] else res)):  # (an Ephem keeps its points sorted by date)
        alt = get()
        if alt.date != date:
            raise Violation("route-date", f"{route} ends at {alt.date}, asked {date}")
        v = as_cart(alt)
        if not np.array_equal(v, got):
            dr, dv = rel_err(v, got)
            if dr > 1e-13 or dv > 1e-13:
                raise Violation("route", f"{route} gives a state {dr:.3g} (relative) away from propagate(date)")
    nt = abs(dt) > 1 and (e > 1 or abs(n * dt) > math.pi or dt < 0)
    return dict(nt=nt, cls=classes(case, n, dt) + label_cls(case) + ['body:' + case['el']['body']], ratio=worst)


def check_period(case):
    use_labels(case)
    from beyond.propagators.kepler import Kepler

    orb, cart0, mu = build(case, Kepler())
    el = case["el"]
    n = math.sqrt(mu / el["a"] ** 3)
    P = TWO_PI / n
    dt_us = int(round(case["k"] * P * 1e6))
    assume_ok = abs(dt_us) < 400 * 86400 * 10**6
    if not assume_ok:
        return dict(nt=False)
    got = as_cart(orb.propagate(mkdate(case["epoch_us"] + dt_us)))
    # dt was rounded to the microsecond grid: allow v * 1 us
    dr, dv = rel_err(got, cart0)
    r = float(np.linalg.norm(cart0[:3]))
    v = float(np.linalg.norm(cart0[3:]))
    acc = mu / r**2
    k = cond(el, n, dt_us * 1e-6, case['form'])
    tol_r = 1e-11 * k + 1e-10 + v * 2.5e-6 / r
    tol_v = 1e-11 * k + 1e-10 + acc * 2.5e-6 / v
    if dr > tol_r or dv > tol_v:
        raise Violation("periodicity", f"after {case['k']} periods the state is off by dr={dr:.3g} dv={dv:.3g} "
                                       f"(tol {tol_r:.3g}/{tol_v:.3g}, e={el['e']:.6g})")
    return dict(nt=True, cls=[f"k={case['k']}", "form:" + case["form"]], ratio=max(dr / tol_r, dv / tol_v))


# ------------------------------------------------------------------ J2


@st.composite
def j2_case(draw):
    c = draw(kep_case(hyp_ok=False))
    special = draw(st.sampled_from(["none", "none", "none", "polar", "critical", "critical-retro", "near-polar", "near-critical"]))
    if special == "near-polar":
        # a thousandth of a degree to a fifth of a degree off the pole: the node drift is small, not zero
        c["el"]["i"] = math.pi / 2 + draw(st.sampled_from([-1.0, 1.0])) * 10 ** draw(go.uniform(-6.5, -2.3))
    elif special == "near-critical":
        ic = math.asin(math.sqrt(0.8))
        c["el"]["i"] = draw(st.sampled_from([ic, math.pi - ic])) + draw(st.sampled_from([-1.0, 1.0])) * 10 ** draw(go.uniform(-7.0, -3.0))
    elif special == "polar":
        c["el"]["i"] = math.pi / 2
    elif special == "critical":
        c["el"]["i"] = math.asin(math.sqrt(0.8))
    elif special == "critical-retro":
        c["el"]["i"] = math.pi - math.asin(math.sqrt(0.8))
    c["special"] = special
    c["dt2_us"] = draw(go.uniform_int(-30 * 86400 * 10**6, 30 * 86400 * 10**6))
    return c


def check_j2(case):
    use_labels(case)
    from beyond.constants import Earth
    from beyond.propagators.j2 import J2

    orb, cart0, mu = build(case, J2())
    snapshot = np.array(orb.base, float)
    el = case["el"]
    a, e, i = el["a"], el["e"], el["i"]
    n = math.sqrt(mu / a**3)
    p = a * (1 - e * e)
    com = n * Earth.J2 * (Earth.r / p) ** 2
    dO = -1.5 * com * math.cos(i)
    dw = 0.75 * com * (5 * math.cos(i) ** 2 - 1)
    dM = n + 0.75 * com * math.sqrt(1 - e * e) * (3 * math.cos(i) ** 2 - 1)
    a0 = tb.cart2elements(cart0, mu)
    worst = 0.0
    pts = []
    for dt_us in (case["dt_us"], case["dt2_us"], case["dt_us"] + case["dt2_us"]):
        dt = dt_us * 1e-6
        res = orb.propagate(mkdate(case["epoch_us"] + dt_us))
        got = as_cart(res)
        a1 = tb.cart2elements(got, mu)
        k = cond(el, n, dt, case['form'])
        tol = 1e-10 * k + 1e-9
        checks = [
            ("a", abs(a1["a"] / a0["a"] - 1)),
            ("e", abs(a1["e"] - a0["e"]) * min(1.0, e)),
            ("i", abs(a1["i"] - a0["i"])),
            ("raan-rate", abs(tb.angdiff(a1["raan"] - a0["raan"], dO * dt))),
            ("argp-rate", abs(tb.angdiff(a1["argp"] - a0["argp"], dw * dt)) * min(1.0, e)),
            ("M-rate", abs(tb.angdiff(a1["M"] - a0["M"], dM * dt)) * min(1.0, e)),
        ]
        for name, d in checks:
            worst = max(worst, d / tol)
            if d > tol:
                raise Violation("j2-" + name, f"{name}: off by {d:.3g} rad (tol {tol:.3g}) after dt={dt:.3f} s, "
                                              f"i={i:.6f} e={e:.6g} a={a:.1f}")
        if case["special"] == "polar" and abs(tb.angdiff(a1["raan"], a0["raan"])) > tol:
            raise Violation("j2-polar", "node drifts on a polar orbit")
        if case["special"] in ("critical", "critical-retro") and abs(tb.angdiff(a1["argp"], a0["argp"])) * min(1.0, e) > tol + 1e-9 * abs(n * dt) * 1e-3:
            raise Violation("j2-critical", "perigee drifts at the critical inclination")
    if not np.array_equal(np.asarray(orb.base, float), snapshot):
        raise Violation("initial-mutated", "J2.propagate() changed the initial orbit object")
    dt = case["dt_us"] * 1e-6
    return dict(nt=abs(dt) > 1, cls=["special:" + case["special"], "form:" + case["form"]] + (["backward"] if dt < 0 else []),
                ratio=worst)


# ------------------------------------------------------------------ re-use of one orbit object


@st.composite
def reuse_case(draw):
    """One Orbit object goes through a short life: propagated, its derived quantities read, re-expressed in
    place in another form, given a delta-v in place, replaced by one of its own propagated states ..."""
    c = draw(kep_case(hyp_ok=False, emax_ell=0.8))
    c["propagator"] = draw(st.sampled_from(["kepler", "kepler", "j2"]))
    ops = []
    for _ in range(draw(st.integers(3, 7))):
        name = draw(st.sampled_from(["prop", "prop", "form", "infos", "dv", "adopt", "clone"]))
        op = dict(op=name)
        if name == "clone":
            op["how"] = draw(st.sampled_from(["copy", "deepcopy", "pickle", "own"]))
        if name in ("prop", "adopt"):
            op["dt_us"] = draw(go.uniform_int(-2 * 86400 * 10**6, 2 * 86400 * 10**6))
        elif name == "form":
            op["form"] = draw(st.sampled_from(FORMS))
        elif name == "dv":
            op["k"] = draw(st.sampled_from([0.97, 0.99, 1.01, 1.03]))
        ops.append(op)
    c["ops"] = ops
    return c


def _j2_compare(cart0, got, dt, mu, k, what):
    from beyond.constants import Earth

    a0 = tb.cart2elements(cart0, mu)
    a1 = tb.cart2elements(got, mu)
    a, e, i = a0["a"], a0["e"], a0["i"]
    n = math.sqrt(mu / a**3)
    com = n * Earth.J2 * (Earth.r / (a * (1 - e * e))) ** 2
    dO = -1.5 * com * math.cos(i)
    dw = 0.75 * com * (5 * math.cos(i) ** 2 - 1)
    dM = n + 0.75 * com * math.sqrt(1 - e * e) * (3 * math.cos(i) ** 2 - 1)
    tol = 1e-10 * k + 1e-9
    worst = 0.0
    for name, d in [("a", abs(a1["a"] / a0["a"] - 1)), ("e", abs(a1["e"] - a0["e"]) * min(1.0, e)),
                    ("i", abs(a1["i"] - a0["i"])),
                    ("raan-rate", abs(tb.angdiff(a1["raan"] - a0["raan"], dO * dt))),
                    ("argp-rate", abs(tb.angdiff(a1["argp"] - a0["argp"], dw * dt)) * min(1.0, e)),
                    ("M-rate", abs(tb.angdiff(a1["M"] - a0["M"], dM * dt)) * min(1.0, e))]:
        worst = max(worst, d / tol)
        if d > tol:
            raise Violation("reuse-j2-" + name, f"{what}: {name} off by {d:.3g} rad (tol {tol:.3g}) after dt={dt:.3f} s")
    return worst


def check_reuse(case):
    use_labels(case)
    from beyond.propagators.j2 import J2
    from beyond.propagators.kepler import Kepler

    j2 = case["propagator"] == "j2"
    orb, cart0, mu = build(case, J2() if j2 else Kepler())
    epoch_us = case["epoch_us"]
    worst, done, tags = 0.0, [], set()
    for idx, op in enumerate(case["ops"]):
        e0 = tb.cart2elements(cart0, mu)
        assume(1e-4 <= e0["e"] <= 0.9 and 0.01 < e0["i"] < math.pi - 0.01)
        el = dict(e=e0["e"], i=e0["i"], a=e0["a"])
        n = math.sqrt(mu / e0["a"] ** 3)
        if op["op"] in ("prop", "adopt"):
            dt = op["dt_us"] * 1e-6
            what = f"op {idx} ({op['op']} after {'+'.join(done) or 'nothing'}), orbit held as {orb.form.name}"
            res = orb.propagate(mkdate(epoch_us + op["dt_us"]))
            got = as_cart(res)
            k = cond(el, n, dt, orb.form.name)
            if j2:
                worst = max(worst, _j2_compare(cart0, got, dt, mu, k, what))
            else:
                ref = tb.propagate_uv(cart0, dt, mu)
                tol = 1e-11 * k + 1e-10
                dr, dv = rel_err(got, ref)
                worst = max(worst, dr / tol, dv / tol)
                if dr > tol or dv > tol:
                    raise Violation("reuse-universal-variable", f"{what}: propagate({dt:.6f} s) differs from the two-body "
                                    f"solution of the numbers the orbit holds by dr={dr:.3g} dv={dv:.3g} (tol {tol:.3g})")
            if op["op"] == "adopt" and hasattr(res, "propagate"):
                orb, cart0, epoch_us = res, got, epoch_us + op["dt_us"]
                tags.add("adopt")
        elif op["op"] == "form":
            orb.form = op["form"]
            if op["form"] in ("spherical", "cylindrical"):
                assume(kappa_polar(cart0) < 1e4)
            cart0 = as_cart(orb)  # the numbers the object now holds (conversion accuracy is C01's)
        elif op["op"] == "clone":
            import copy
            import pickle

            old = orb
            orb = {"copy": copy.copy, "deepcopy": copy.deepcopy, "own": lambda x: x.copy(),
                   "pickle": lambda x: pickle.loads(pickle.dumps(x))}[op["how"]](old)
            if not np.array_equal(np.asarray(orb), np.asarray(old)) or orb.form.name != old.form.name or orb.date != old.date:
                raise Violation("reuse-clone-differs", f"op {idx}: the {op['how']} clone of the orbit differs from it")
            tags.add("cloned")
        elif op["op"] == "infos":
            _ = orb.infos.n, orb.infos.period, orb.infos.kep
        elif op["op"] == "dv":
            orb.form = "cartesian"
            orb[3:] = np.asarray(orb.base, float)[3:] * op["k"]
            cart0 = as_cart(orb)
        done.append(op["op"])
    seq = "".join(o[0] for o in done)
    # non-trivial: a propagation after the object had been propagated AND changed in place
    import re
    nt = bool(re.search(r"[pa].*[fd].*[pa]", seq))
    if re.search(r"i.*d.*[pa]", seq):
        tags.add("infos-read-then-changed")
    if re.search(r"[pa].*f.*[pa]", seq):
        tags.add("propagated-then-re-expressed")
    return dict(nt=nt, cls=sorted(tags) + [case["propagator"], "form:" + case["form"]], ratio=worst)


FACETS = [
    Facet("kepler", lambda s, t: kep_case(bodies=("Earth", "Earth", "Earth", "Moon", "Mars", "Sun")), check_kepler, setup=setup,
          rule="|dt| > 1 s and (hyperbolic or |n.dt| > pi or dt < 0)", quick=(16, 400), thorough=(32, 5000)),
    Facet("periodicity", lambda s, t: kep_case(hyp_ok=False), check_period, setup=setup,
          rule="bound orbit, dt = k periods, k in +-1..5", quick=(6, 300), thorough=(16, 3000)),
    Facet("j2", lambda s, t: j2_case(), check_j2, setup=setup,
          rule="|dt| > 1 s; three dates per case so that linearity in time is tested; polar and critical inclinations, and inclinations 1e-7 .. 5e-3 rad off them, forced in 5/8 of the cases",
          quick=(10, 300), thorough=(16, 4000)),
    Facet("reuse", lambda s, t: reuse_case(), check_reuse, setup=setup,
          rule="a propagation after the same object had been propagated and then changed in place (form / delta-v)",
          quick=(8, 250), thorough=(16, 3000)),
]
