"""C17 - local orbital frames and maneuvers follow their definitions.

triads / attached_frame / projection are algebraic; impulse_timing and continuous_delivery run
KeplerNum(rk4) and analyse the *defect* of every integration step (library state after the step
minus one textbook RK4 step of the pure two-body field from the library state before it): the
defect is exactly what maneuvers contributed in that step.  continuous_delivery also compares the
end state with an independent fine-step integration with thrust (vf/oracles/integrate.py).  dkep
applies the delta-v computed from (da, di, dOmega) and reads the realised increments back with
the oracle's element extraction.
"""

import math

import numpy as np
from hypothesis import strategies as st

from ..core import Facet, Violation
from ..gen import orbits as go
from ..oracles import integrate as ig
from ..oracles import twobody as tb

RULE = ("States drawn as elements (elliptic and hyperbolic) and turned into coordinates by the "
        "oracle; maneuver dates drawn on, next to (1 us) and off the integration grid.")
ASSUMPTIONS = [
    "oracle triads: QSW rows (r^, h^ x r^, h^), TNW rows (v^, h^ x v^, h^) from vf/oracles/integrate.py",
    "total delta-v of a propagation capped at 0.3 x the smallest transverse velocity (the state stays clear of h = 0)",
    "KeplerNum(method='rk4') is the classical Runge-Kutta method (its step is reproduced bit for bit by "
    "the oracle on maneuver-free steps, which is checked); Earth point mass only; step 30-120 s; "
    "10-30 steps; forward propagation from the orbit's own date with the propagator's own step",
    "impulse_adaptive: rkf54 / dopri54 at the default tolerance, requested step 45-120 s on orbits with perigee below "
    "1.6 R (the step is reduced on most of them), observed through iter(real_steps=True); free arcs between accepted "
    "steps are compared with exact two-body propagation (integrator error 1e-7 m/s per step, allowance 1e-5 m/s; "
    "impulses >= 1e-2 m/s)",
    "an impulse may take effect anywhere between its date and one step later: magnitude is checked "
    "sharply (2 theta^2, theta = angle swept in one step), direction to 1.5 theta",
    "continuous burns last 0.2 .. 8 steps, or (1 case in 9) 2 h .. 2 days on a MEO / GEO orbit at a 120 s step; "
    "construction (|accel| x duration = |dv|) is checked for durations from 1 us to 10 days",
    "continuous burns: Runge-Kutta stages sample the thrust window, so the delivered delta-v may differ "
    "from the stated one by the quadrature of the two edges, bounded by |accel| x step when an edge is "
    "off the grid (the library's value is at most 2/3 of that); with both edges on the grid the full "
    "delta-v must be delivered",
    "dkep: inclination / node increments are applied where dkep2aol() says; increments up to 1e5 m / 0.05 rad; "
    "0.12 < i < pi - 0.12 so that the node is defined before and after",
    "frames attached to orbits: <= 30 registrations per process; reference = Kepler orbit / bare state given in "
    "EME2000, TEME, MOD, GCRF, G50 or TOD (oracle propagates it independently in that frame), or an SGP4 orbit from a "
    "TLE in TEME (states from an untouched twin object); parent EME2000, MOD or GCRF; 3-6 conversions per frame at "
    "two dates (reference -> origin, a second state in, round trip, via an intermediate frame, repeats), changes of "
    "built-in frame of the oracle's inputs done by the library on fresh objects (C02)",
]
LEVEL_TEXT = "exploration"
LEVEL_NOTE = ("Randomised search; continuous burns under the adaptive integrators and backward propagation are not "
              "exercised.")
TECHNIQUE = "property-based testing (Hypothesis), per-step defect analysis against a textbook RK4 step, fine-step reference integration"

TWO_PI = 2 * math.pi
f = go.f


def fu(lo, hi):
    return st.one_of(go.uniform(lo, hi), go.uniform(lo, hi), f(lo, hi))


def setup(shard):
    from .. import env

    env.eop("missing-pass")
    global _shard
    _shard = shard


_shard = 0
_counter = [0]


def mu_earth():
    from beyond.constants import Earth

    return Earth.mu


def mkdate(us):
    from beyond.dates import Date, timedelta

    return Date(2020, 1, 1) + timedelta(microseconds=us)


def cart(el, mu):
    return tb.kep2cart(el["a"], el["e"], el["i"], el["raan"], el["argp"], el["nu"], mu)


def el_classes(el):
    c = []
    if el["e"] > 1:
        c.append("hyperbolic")
    elif el["e"] < 0.01:
        c.append("e<0.01")
    if el["i"] > math.pi / 2:
        c.append("retrograde")
    return c


TAGS = [None, "QSW", "TNW", "qsw", "tnw", "Qsw", "tNW"]


@st.composite
def vec3(draw, lo=-4.0, hi=2.0):
    """vector of magnitude 10^U(lo, hi) m/s; 1 in 4 along an axis, 1 in 8 with a zero component"""
    mag = 10 ** draw(fu(lo, hi))
    k = draw(st.integers(0, 7))
    if k < 2:
        v = [0.0, 0.0, 0.0]
        v[draw(st.integers(0, 2))] = draw(st.sampled_from([-1.0, 1.0]))
    else:
        v = [draw(go.uniform(-1.0, 1.0)) for _ in range(3)]
        if k == 2:
            v[draw(st.integers(0, 2))] = 0.0
        n = math.sqrt(sum(x * x for x in v))
        if n < 1e-3:
            v = [1.0, 0.0, 0.0]
            n = 1.0
        v = [x / n for x in v]
    return [mag * x for x in v]


# ------------------------------------------------------------------ triads


@st.composite
def triads_case(draw):
    hyp = draw(st.integers(0, 9)) < 3
    return dict(el=draw(go.elements(elliptic=not hyp, hyperbolic=hyp, bodies=("Earth", "Moon", "Sun", "Mars"))),
                container=draw(st.sampled_from(["list", "array", "statevector"])),
                tag=draw(st.sampled_from(TAGS[1:])))


def check_triads(case):
    from beyond import constants
    from beyond.frames.local import to_local, to_qsw, to_tnw

    el = case["el"]
    mu = getattr(constants, el["body"]).mu
    c = cart(el, mu)
    if case["container"] == "list":
        arg = [float(x) for x in c]
    elif case["container"] == "array":
        arg = np.array(c)
    else:
        from beyond.dates import Date
        from beyond.orbits import StateVector

        arg = StateVector(c, Date(2020, 1, 1), "cartesian", "EME2000")
    if case["container"] == "list":
        # the documented argument is "Array of length 6"; a plain list is what the doctests pass (p + v)
        arg = np.array(arg)
    before = np.array(np.asarray(arg, float))
    worst = 0.0
    # h^ = r x v / |r x v| is known to eps / sin(angle between r and v): nearly radial motion far out on a hyperbola
    kap = float(np.linalg.norm(c[:3]) * np.linalg.norm(c[3:]) / np.linalg.norm(np.cross(c[:3], c[3:])))
    tol = 1e-13 + 2e-14 * kap
    for kind, fn in (("QSW", to_qsw), ("TNW", to_tnw)):
        m = np.asarray(fn(arg), float)
        if m.shape != (3, 3) or not np.all(np.isfinite(m)):
            raise Violation("triad-shape", f"{kind}: {m.tolist()}")
        ref = ig.triad(c, kind)
        d = float(np.max(np.abs(m - ref)))
        worst = max(worst, d / tol)
        if d > tol:
            raise Violation(f"triad-{kind}", f"to_{kind.lower()} rows {m.tolist()} differ from (x^, h^ x x^, h^) = "
                            f"{ref.tolist()} by {d:.3g}")
        o = float(np.max(np.abs(m @ m.T - np.eye(3))))
        det = float(np.linalg.det(m))
        worst = max(worst, o / tol, abs(det - 1) / tol)
        if o > tol or abs(det - 1) > tol:
            raise Violation("triad-not-rotation", f"{kind}: |M M^T - 1| = {o:.3g}, det = {det!r}")
    tag = case["tag"]
    m3 = np.asarray(to_local(tag, arg, expanded=False), float)
    m6 = np.asarray(to_local(tag, arg), float)
    ref = ig.triad(c, tag)
    if m3.shape != (3, 3) or float(np.max(np.abs(m3 - ref))) > tol:
        raise Violation("to_local", f"to_local({tag!r}, expanded=False) is not the {tag.upper()} triad")
    blk = np.zeros((6, 6))
    blk[:3, :3] = ref
    blk[3:, 3:] = ref
    if m6.shape != (6, 6) or float(np.max(np.abs(m6 - blk))) > tol:
        raise Violation("to_local-expanded", f"to_local({tag!r}) is not diag(M, M): {m6.tolist()}")
    if not np.array_equal(np.asarray(arg, float), before):
        raise Violation("triad-input-mutated", "to_local / to_qsw / to_tnw changed their argument")
    try:
        to_local("NTW" if tag.upper() == "QSW" else "LVLH", arg)
    except ValueError:
        pass
    else:
        raise Violation("to_local-unknown", "unknown local frame name accepted")
    return dict(nt=True, cls=el_classes(el) + [f"tag:{tag}", case["container"]], ratio=worst)


# ------------------------------------------------------------------ projection


DAY_US = 86400 * 10**6


@st.composite
def durations_us(draw):
    """burn lengths from microseconds to 10 days: low-thrust burns of days are ordinary"""
    k = draw(st.integers(0, 9))
    if k < 4:
        return draw(go.uniform_int(10**5, 7200 * 10**6))
    if k == 4:
        return int(10 ** draw(go.uniform(0.0, 6.0)))            # 1 us .. 1 s
    if k < 7:
        return draw(st.integers(1, 10)) * DAY_US                 # exactly N days
    if k == 7:
        return draw(st.integers(1, 9)) * DAY_US + draw(st.sampled_from([1, 10**6, 3600 * 10**6]))
    return draw(go.uniform_int(7200 * 10**6, 10 * DAY_US))       # hours .. 10 days (N days + fraction)


@st.composite
def projection_case(draw):
    hyp = draw(st.integers(0, 9)) < 3
    return dict(el=draw(go.elements(elliptic=not hyp, hyperbolic=hyp)), dv=draw(vec3()),
                tag=draw(st.sampled_from(TAGS)), kind=draw(st.sampled_from(["impulsive", "cont-dv", "cont-accel"])),
                duration_us=draw(durations_us()),
                date_pos=draw(st.sampled_from(["start", "stop", "median", "Median", "STOP"])),
                form=draw(st.sampled_from(["cartesian", "cartesian", "keplerian", "equinoctial"])),
                t=draw(go.uniform_int(0, 10 * 365 * 86400 * 10**6)), dv_as=draw(st.sampled_from(DV_AS)),
                scale=draw(st.sampled_from(SCALES)))


def check_projection(case):
    from beyond.dates import timedelta
    from beyond.orbits import StateVector
    from beyond.orbits.man import ContinuousMan, ImpulsiveMan

    el = case["el"]
    mu = mu_earth()
    c = cart(el, mu)
    date = relabel(mkdate(case["t"]), case.get("scale"))
    orb = StateVector(c, date, "cartesian", "EME2000").copy(form=case["form"])
    before = np.array(orb.base, float)
    tag = case["tag"]
    how = case.get("dv_as", "list")
    given, numbers = dv_spelling(case["dv"], how if case["kind"] != "cont-accel" or how != "int" else "list")
    dv = np.array(numbers, float)
    REL0 = 1e-6 if how == "f32" else 1e-12      # single-precision numbers are scaled by the duration in single precision
    frame = tag.upper() if tag else None
    # form conversions come first when the state is not cartesian (C01: 1e-11 kappa)
    k = (1 / abs(1 - el["e"])) * (math.cosh(el["anom"]) ** 2 if el["e"] > 1 else 1) / math.sin(el["i"])
    # h^ is known to eps / sin(angle between r and v) (see triads)
    kap = float(np.linalg.norm(c[:3]) * np.linalg.norm(c[3:]) / np.linalg.norm(np.cross(c[:3], c[3:])))
    mtol = REL0 + 2e-14 * kap
    tol = mtol if case["form"] == "cartesian" else mtol + 1e-10 * k
    worst = 0.0

    def compare(name, got, want, scale):
        nonlocal worst
        got = np.asarray(got, float)
        if got.shape != (3,) or not np.all(np.isfinite(got)):
            raise Violation(f"{name}-nonfinite", f"{name} = {got.tolist()}")
        d = float(np.linalg.norm(got - want)) / scale
        m = abs(float(np.linalg.norm(got)) - scale) / scale
        worst = max(worst, d / tol, m / mtol)
        if m > mtol:
            raise Violation(f"{name}-magnitude", f"|{name}| = {np.linalg.norm(got)!r}, stated {scale!r} (frame {tag!r})")
        if d > tol:
            raise Violation(f"{name}-axes", f"{name} = {got.tolist()} in the orbit's frame, expected triad^T . "
                            f"{dv.tolist()} = {np.asarray(want).tolist()} (frame {tag!r}, relative diff {d:.3g})")

    if case["kind"] == "impulsive":
        man = ImpulsiveMan(date, given, frame=tag)
        if man.frame != frame:
            raise Violation("man-frame-tag", f"frame {tag!r} stored as {man.frame!r}")
        if isinstance(given, np.ndarray):
            given += 1.0                # the caller's array is not kept by reference
        compare("dv", man.dv(orb), ig.to_inertial(dv, c, frame), float(np.linalg.norm(dv)))
        for bad in ([1.0, 2.0], [1.0, 2.0, 3.0, 4.0]):
            try:
                ImpulsiveMan(date, bad, frame=tag)
            except ValueError:
                pass
            else:
                raise Violation("man-validation", f"ImpulsiveMan accepted a dv of length {len(bad)}")
    else:
        dur = timedelta(microseconds=case["duration_us"])
        secs = dur.total_seconds()
        if case["kind"] == "cont-dv":
            man = ContinuousMan(date, dur, dv=given, frame=tag, date_pos=case["date_pos"])
            acc = dv / secs
        else:
            man = ContinuousMan(date, dur, accel=given, frame=tag, date_pos=case["date_pos"])
            acc = dv
        if man.frame != frame:
            raise Violation("man-frame-tag", f"frame {tag!r} stored as {man.frame!r}")
        if isinstance(given, np.ndarray):
            given += 1.0                # the caller's array is not kept by reference
        compare("accel", man.accel(orb), ig.to_inertial(acc, c, frame), float(np.linalg.norm(acc)))
        # |accel| x duration = |dv|
        tot = float(np.linalg.norm(np.asarray(man._dv, float)))
        want = float(np.linalg.norm(acc)) * secs
        if abs(tot - want) > REL0 * want:
            raise Violation("cont-dv-accel", f"|dv| = {tot!r} but |accel| x duration = {want!r}")
        shift = {"start": 0.0, "median": secs / 2, "stop": secs}[case["date_pos"].lower()]
        for nm, got, off in (("start", man.start, -shift), ("stop", man.stop, secs - shift),
                             ("median", man.median, secs / 2 - shift)):
            # (a burn dated in TDB lasts its duration in TDB seconds: up to 3.3e-10 off the SI value)
            if abs((got - date).total_seconds() - off) > 2e-6 + (1e-9 * secs if case.get("scale") == "TDB" else 0.0):
                raise Violation("cont-window", f"{nm} = date {(got - date).total_seconds():+.6f} s, expected {off:+.6f} s "
                                f"(date_pos={case['date_pos']!r})")
        for kw in (dict(), dict(dv=[1, 0, 0], accel=[1, 0, 0]), dict(dv=[1, 0]), dict(accel=[1, 0, 0, 0])):
            try:
                ContinuousMan(date, dur, **kw)
            except ValueError:
                pass
            else:
                raise Violation("man-validation", f"ContinuousMan accepted {kw}")
    if not np.array_equal(np.asarray(orb.base, float), before) or orb.form.name != case["form"]:
        raise Violation("man-input-mutated", "dv()/accel() changed the orbit")
    cls = el_classes(el) + [f"tag:{tag}", case["kind"], f"form:{case['form']}", f"dv_as:{how}", f"scale:{case.get('scale', 'UTC')}"]
    if case["kind"] != "impulsive":
        d_us = case["duration_us"]
        cls.append("dur<1s" if d_us < 10**6 else "dur<1d" if d_us < DAY_US else
                   "dur=Ndays" if d_us % DAY_US == 0 else "dur>1d")
    return dict(nt=True, cls=cls, ratio=worst)


# ------------------------------------------------------------------ attached frame


REF_FRAMES = ["EME2000", "TEME", "MOD", "GCRF", "G50", "TOD"]
PARENTS = ["EME2000", "EME2000", "EME2000", "MOD", "GCRF"]
GIVEN_IN = ["parent", "EME2000", "ref", "TOD"]
VIA = ["MOD", "ITRF", "TEME", "GCRF", "PEF"]
TLES = {
    "iss": ("ISS (ZARYA)",
            "1 25544U 98067A   18124.55610684  .00001524  00000-0  30197-4 0  9997",
            "2 25544  51.6421 236.2139 0003381  47.8509  47.6767 15.54198229111731"),
    "molniya": ("MOLNIYA 1-90",
                "1 24960U 97054A   18123.22759647  .00000163  00000-0  24467-3 0  9999",
                "2 24960  62.6812 182.7824 6470982 294.8616  12.8538  3.18684355160009"),
}


@st.composite
def attached_case(draw):
    hyp = draw(st.integers(0, 9)) < 2
    ref = draw(st.sampled_from(["kepler", "kepler", "kepler", "tle", "tle", "statevector", "ephem", "ephem", "ephem-station",
                                "ephem-depot", "keplernum-burn"]))
    ops = []
    for _ in range(draw(st.integers(3, 6))):
        ops.append(dict(op=draw(st.sampled_from(["own", "own", "state", "state", "round", "via", "repeat"])),
                        date=0 if draw(st.integers(0, 3)) else 1,
                        given=draw(st.sampled_from(GIVEN_IN)), via=draw(st.sampled_from(VIA)),
                        near=draw(st.booleans())))
    return dict(el=draw(go.elements(elliptic=not hyp, hyperbolic=hyp, emax_ell=0.9, hmax=3.0)),
                other=draw(go.elements(hyperbolic=False, emax_ell=0.9)),
                orientation=draw(st.sampled_from([None, "QSW", "TNW", "qsw", "Tnw", "QSW", "TNW"])),
                ref=ref, tle=draw(st.sampled_from(sorted(TLES))),
                ref_frame=draw(st.sampled_from(REF_FRAMES)) if draw(st.integers(0, 2)) else "EME2000",
                parent=draw(st.sampled_from(PARENTS)),
                ref_form=draw(st.sampled_from(["cartesian", "cartesian", "cartesian", "keplerian"])),
                dts=[draw(st.one_of(st.just(0.0), fu(-3000.0, 3000.0))), draw(fu(-3000.0, 3000.0))],
                t=draw(go.uniform_int(0, 10 * 365 * 86400 * 10**6)), sep=draw(vec3(-1.0, 5.0)), ops=ops,
                # "ephem": the reference is a table (60 s nodes, asked at its nodes only: C09) held in ref_frame, or in the
                # topocentric frame of a station ("ephem-station": a tracking-style table, centre not the Earth's);
                # "keplernum-burn": a numerically propagated orbit that is given its maneuver AFTER the frame was attached
                nodes=[draw(st.integers(-50, 50)), draw(st.integers(-50, 50))],
                station=dict(lat=draw(fu(-80.0, 80.0)), lon=draw(fu(-179.0, 179.0)), alt=draw(fu(0.0, 3000.0))),
                burn=dict(dv=draw(vec3(-1.0, 1.5)), tag=draw(st.sampled_from([None, "TNW", "QSW"])),
                          how=draw(st.sampled_from(["assign", "append", "assign-single"]))))


def check_attached(case):
    """A frame attached to a (moving) reference orbit given in `ref_frame`, orientation None / QSW / TNW built on
    `parent`; then a short sequence of conversions at two dates, each compared with the offset / triad oracle."""
    from beyond.dates import timedelta
    from beyond.frames.frames import get_frame
    from beyond.io.tle import Tle
    from beyond.orbits import StateVector

    mu = mu_earth()
    el = case["el"]
    _counter[0] += 1
    name = f"VF17S{_shard}N{_counter[0]}"
    kind = case["ref"]
    P = case["parent"]
    k = 1.0
    if kind == "tle":
        text = "\n".join(TLES[case["tle"]])
        ref = Tle(text).orbit()
        twin = Tle(text).orbit()          # an untouched twin gives the reference states (SGP4: C07)
        R = B = "TEME"
        d0 = ref.date
        ref_form = "tle"
    else:
        R = case["ref_frame"]
        B = R                                # the frame the two-body motion of the reference is defined in
        if kind == "ephem-station":
            from beyond.frames.stations import create_station

            B = "EME2000"
            st_ = case["station"]
            R = f"{name}T"
            create_station(R, (st_["lat"], st_["lon"], st_["alt"]))
        if kind == "ephem-depot":
            # a table of states RELATIVE to another spacecraft: held in a frame with the axes of EME2000 (the very same
            # orientation object) whose centre is that spacecraft (orbit2frame(..., orientation=None))
            B = "EME2000"
            R = f"{name}D"
            StateVector(cart(dict(case["other"], i=min(max(case["other"]["i"], 0.05), math.pi - 0.05)), mu), mkdate(case["t"]),
                        "cartesian", "EME2000").as_orbit("Kepler").as_frame(R)
        if kind in ("ephem", "ephem-station", "ephem-depot", "keplernum-burn"):
            el = dict(el, i=min(max(el["i"], 0.05), math.pi - 0.05))
            if kind == "keplernum-burn":
                # a bound orbit above the ground for the half hour it is integrated over
                el = dict(case["other"], i=min(max(case["other"]["i"], 0.05), math.pi - 0.05))
        if kind == "kepler":
            # the reference goes through the library's Kepler propagator, i.e. through keplerian elements: keep them regular
            el = dict(el, i=min(max(el["i"], 0.05), math.pi - 0.05))
            if el["e"] < 1:
                el["e"] = max(el["e"], 1e-3)
        c0 = cart(el, mu)                 # coordinates in the axes of R
        d0 = mkdate(case["t"])
        ref_form = case["ref_form"]
        if kind in ("ephem", "ephem-station", "ephem-depot"):
            from beyond.orbits import Ephem

            ref_form = "cartesian"
            pts = []
            for q in range(-55, 56):
                p = StateVector(tb.propagate_uv(c0, 60.0 * q, mu), d0 + timedelta(seconds=60.0 * q), "cartesian", B)
                pts.append(p if B == R else p.copy(frame=R))
            ref = Ephem(pts)
        elif kind == "keplernum-burn":
            from beyond.env.solarsystem import get_body
            from beyond.orbits.man import ImpulsiveMan
            from beyond.propagators.keplernum import KeplerNum

            ref_form = "cartesian"
            ref = StateVector(c0, d0, "cartesian", R).as_orbit(KeplerNum(timedelta(seconds=60), get_body("Earth")))
        else:
            ref = StateVector(c0, d0, "cartesian", R).copy(form=ref_form)
        if kind == "kepler":
            ref = ref.as_orbit("Kepler")
        k = 1 / abs(1 - el["e"])
        if el["e"] > 1:
            k *= math.cosh(el["anom"]) ** 2
        if ref_form != "cartesian":
            k = 10 * k / math.sin(el["i"])
    kw = {}
    if case["orientation"] is not None:
        kw["orientation"] = case["orientation"]
    if P != "EME2000":
        kw["parent"] = get_frame(P)
    if _counter[0] % 3 == 0:
        from beyond.frames.frames import orbit2frame

        frame = orbit2frame(name, ref, kw.get("orientation"), kw.get("parent", get_frame("EME2000")))   # positional spelling
    else:
        frame = ref.as_frame(name, **kw)
    # a bare state has no motion and belongs to its own date (which day's TEME / MOD axes its coordinates refer to
    # at another date is not defined): it is used at that date only
    dts = case["dts"] if kind != "statevector" else [0.0, 0.0]
    if kind in ("ephem", "ephem-station", "ephem-depot"):
        dts = [60.0 * q for q in case["nodes"]]
    if kind == "keplernum-burn":
        dts = [600.0 + abs(x) / 3 for x in dts]
        burn = ImpulsiveMan(d0 + timedelta(seconds=300), case["burn"]["dv"], frame=case["burn"]["tag"])
        # the burn is planned after the frame: assigned, appended to the (empty) list, or given as the object itself
        if case["burn"]["how"] == "append":
            ref.maneuvers.append(burn)
        else:
            ref.maneuvers = [burn] if case["burn"]["how"] == "assign" else burn
    dates = [d0 + timedelta(seconds=x) for x in dts]

    def centre_in(j, target):
        """reference state at date j, expressed in built-in frame `target` (fresh objects only)"""
        dt = (dates[j] - d0).total_seconds()
        if kind == "tle":
            c = twin.propagate(dates[j]).copy(form="cartesian")
        else:
            cr = tb.propagate_uv(c0, dt, mu) if kind != "statevector" else c0
            c = StateVector(cr, dates[j], "cartesian", B)
        return np.asarray((c if target == B else c.copy(frame=target)).base, float)

    def expected(j, x_state):
        """x_state: fresh StateVector in a built-in frame -> coordinates in the attached frame"""
        if case["orientation"] is None:
            # axes of the reference orbit's own frame, origin at the orbit
            xr = np.asarray((x_state if x_state.frame.name == R else x_state.copy(frame=R)).base, float)
            return xr - centre_in(j, R), centre_in(j, R)
        c = centre_in(j, P)
        xp = np.asarray((x_state if x_state.frame.name == P else x_state.copy(frame=P)).base, float)
        T = ig.triad(c, case["orientation"])
        return np.concatenate([T @ (xp[:3] - c[:3]), T @ (xp[3:] - c[3:])]), c

    worst = 0.0
    last = None
    trail = []
    for n_op, op in enumerate(case["ops"]):
        j = op["date"]
        what = op["op"]
        if what == "repeat":
            if last is None:
                what = "own"
            else:
                what, op = last
                j = op["date"]
        if kind == "keplernum-burn":
            what = "own"   # the burnt trajectory has no closed form here: the orbit must sit at the origin of its own frame
        trail.append(f"{what}@{j}")
        G = {"parent": P, "ref": R}.get(op["given"], op["given"])
        if what == "own":
            own = (ref.propagate(dates[j]) if kind != "statevector"
                   else StateVector(c0, dates[j], "cartesian", R))
            x_fresh = StateVector(centre_in(j, R), dates[j], "cartesian", R)
            got = np.asarray(own.copy(frame=frame, form="cartesian").base, float)
            want, c = np.zeros(6), centre_in(j, R)
            x_ref = c
        else:
            if op["near"]:
                base = centre_in(j, G)
                xg = base + np.concatenate([case["sep"], np.asarray(case["sep"]) * 1e-3])
            else:
                oe = case["other"]
                xg = cart(oe, mu)
            x_fresh = StateVector(xg, dates[j], "cartesian", G)
            want, c = expected(j, StateVector(xg, dates[j], "cartesian", G))
            x_ref = xg
            sv = StateVector(xg, dates[j], "cartesian", G)
            if what == "state":
                got = np.asarray(sv.copy(frame=frame).base, float)
            elif what == "via":
                got = np.asarray(sv.copy(frame=op["via"]).copy(frame=frame).base, float)
            else:  # round trip: checked against the state itself, in its own frame
                got = np.asarray(sv.copy(frame=frame).copy(frame=G).base, float)
                want = xg
        last = (what, op)
        if not np.all(np.isfinite(got)):
            raise Violation("attached-nonfinite", f"{what}: {got.tolist()} [{' '.join(trail)}]")
        rn = float(np.linalg.norm(c[:3])) + float(np.linalg.norm(x_ref[:3]))
        vn = float(np.linalg.norm(c[3:])) + float(np.linalg.norm(x_ref[3:]))
        # the library moves a Kepler reference with its analytical propagator (C05: 1e-9 kappa relative)
        ptol = 1e-6 + 1e-9 * k * rn
        vtol = 1e-9 + 1e-9 * k * vn
        dp = float(np.linalg.norm(got[:3] - want[:3]))
        dv = float(np.linalg.norm(got[3:] - want[3:]))
        worst = max(worst, dp / ptol, dv / vtol)
        if dp > ptol or dv > vtol:
            bucket = {"own": "attached-origin", "round": "attached-roundtrip"}.get(what, "attached-axes")
            raise Violation(bucket, f"conversion {n_op + 1} ({what}, date {j}, state given in {G}): off by {dp:.6g} m, {dv:.6g} m/s "
                            f"(allowed {ptol:.3g} m, {vtol:.3g} m/s); frame attached to a {kind} reference in {R} held in form "
                            f"{ref_form}, orientation {case['orientation']!r}, parent {P}; conversions so far: {' '.join(trail)}",
                            ref_form=ref_form, what=what)
    cls = [f"orient:{case['orientation']}", f"ref:{kind}", f"ref_frame:{R}", f"parent:{P}", f"ref_form:{ref_form}"]
    if kind != "tle":
        cls += el_classes(el)
    if R != P:
        cls.append("ref-not-in-parent")
    same = any(a["date"] == b["date"] for a, b in zip(case["ops"], case["ops"][1:]))
    cls.append("same-date-twice" if same else "dates-alternate")
    return dict(nt=True, cls=cls, ratio=worst)


# ------------------------------------------------------------------ numerical propagation helpers


@st.composite
def grid(draw):
    """(step in microseconds, number of steps)"""
    if draw(st.integers(0, 9)) < 7:
        h_us = draw(st.integers(30, 120)) * 10**6
    else:
        h_us = draw(go.uniform_int(30 * 10**6, 120 * 10**6))
    return h_us, draw(st.integers(10, 30))


@st.composite
def instant(draw, h_us, lo_us, hi_us):
    """an instant in [lo, hi] microseconds from the start: on the grid, 1 us next to it, or anywhere"""
    k = draw(st.integers(0, 5))
    klo, khi = -(-lo_us // h_us), hi_us // h_us
    if k < 2 and klo <= khi:
        return draw(st.integers(klo, khi)) * h_us
    if k == 2 and klo <= khi:
        t = draw(st.integers(klo, khi)) * h_us + draw(st.sampled_from([-1, 1]))
        return min(max(t, lo_us), hi_us)
    return draw(go.uniform_int(lo_us, hi_us))


SCALES = ["UTC", "UTC", "UTC", "TT", "TAI", "GPS", "UT1", "TDB"]
DV_AS = ["list", "list", "tuple", "array", "f32", "int"]
_moon = {}


@st.composite
def spellings(draw, nmans, bodies=("Earth", "Earth", "Earth", "Earth", "Moon"), methods=("rk4", "rk4", "euler")):
    """Other spellings of the same physical input (default = how the facets were first written)."""
    if draw(st.integers(0, 2)) == 0:
        return dict()
    return dict(scale0=draw(st.sampled_from(SCALES)), scale_stop=draw(st.sampled_from(["UTC", "TT", "TAI", "GPS"])),
                man_scales=[draw(st.sampled_from(SCALES)) for _ in range(nmans)],
                dv_as=[draw(st.sampled_from(DV_AS)) for _ in range(nmans)],
                mans_as=draw(st.sampled_from(["list", "tuple", "single"])),
                clone=draw(st.sampled_from(["none", "none", "copy", "pickle"])),
                method=draw(st.sampled_from(methods)), form0=draw(st.sampled_from(["cartesian", "keplerian", "equinoctial"])),
                stop_as=draw(st.sampled_from(["date", "timedelta"])), body=draw(st.sampled_from(bodies)),
                together=draw(st.sampled_from(["alone", "alone", "zip", "shared-propagator", "appended-later", "warm"])))


def epoch_of(case, sp):
    """start of the propagation under its label.  change_scale rounds UT1 / TDB readings to the microsecond, so the
    relabelled date is the reference instant from which maneuver dates and the stop are counted."""
    return relabel(mkdate(case["t0"]), (sp or {}).get("scale0"))


def relabel(date, scale):
    if scale is None or date.scale.name == scale:
        return date
    return date.change_scale(scale)


def dv_spelling(vec, how):
    """(object handed to the library, the numbers it stands for)"""
    vec = [float(x) for x in vec]
    if how == "tuple":
        return tuple(vec), vec
    if how == "array":
        return np.array(vec), vec
    if how == "f32":
        a = np.array(vec, dtype=np.float32)
        return a, [float(x) for x in a]
    if how == "int" and max(abs(x) for x in vec) >= 1.0:
        iv = [int(round(x)) for x in vec]
        return iv, [float(x) for x in iv]
    return list(vec), vec


def mu_of_body(body):
    from beyond import constants

    return getattr(constants, body).mu


def body_and_frame(body):
    from beyond.env.solarsystem import get_body, get_frame

    if body == "Earth":
        return get_body("Earth"), "EME2000"
    if body not in _moon:
        _moon[body] = get_frame(body)       # one registration per process
    return get_body(body), _moon[body]


def spelling_classes(sp):
    if not sp:
        return ["spelling:default"]
    out = [f"scale0:{sp['scale0']}", f"mans_as:{sp['mans_as']}", f"method:{sp['method']}", f"body:{sp['body']}",
           f"form0:{sp['form0']}", f"stop_as:{sp['stop_as']}"]
    if sp["clone"] != "none":
        out.append(f"clone:{sp['clone']}")
    out.append(f"together:{sp.get('together', 'alone')}")
    out += [f"dv_as:{x}" for x in sp["dv_as"]] + [f"man_scale:{x}" for x in sp["man_scales"]]
    return out


def free_step(y, h, mu, method):
    """one maneuver-free step of the documented fixed-step methods"""
    if method == "euler":
        y = np.asarray(y, float)
        r = y[:3]
        a = -mu * r / float(np.linalg.norm(r)) ** 3
        return y + h * np.concatenate([y[3:], a])
    return np.asarray(ig.rk4_step(y, h, mu))


def run_library(c0, d0, h_us, n, mans, sp=None):
    """Grid states of KeplerNum (rk4 unless the spelling says euler): list of n + 1 cartesian arrays."""
    import pickle

    from beyond.dates import timedelta
    from beyond.orbits import Orbit, StateVector
    from beyond.propagators.keplernum import KeplerNum

    sp = sp or {}
    body, frame = body_and_frame(sp.get("body", "Earth"))
    step = timedelta(microseconds=h_us)
    kw = {} if frame == "EME2000" else dict(frame=frame)
    start = d0      # (already relabelled by the caller: see epoch_of)
    sv = StateVector(c0, start, "cartesian", frame)
    if sp.get("form0", "cartesian") != "cartesian":
        sv = sv.copy(form=sp["form0"])
    orb = Orbit(sv.base, start, sv.form, frame, KeplerNum(step, body, method=sp.get("method", "rk4"), **kw))
    how = sp.get("mans_as", "list")
    if how == "single" and len(mans) == 1:
        orb.maneuvers = mans[0]
    elif how == "tuple":
        orb.maneuvers = tuple(mans)
    else:
        orb.maneuvers = list(mans)
    if sp.get("clone") == "copy":
        orb = orb.copy()
    elif sp.get("clone") == "pickle":
        orb = pickle.loads(pickle.dumps(orb))
    if sp.get("stop_as") == "timedelta":
        stop = timedelta(microseconds=h_us * n)
    else:
        stop = relabel(d0 + timedelta(microseconds=h_us * n), sp.get("scale_stop"))
    together = sp.get("together", "alone")
    if together == "shared-propagator":
        # another orbit, without maneuvers, served by the SAME propagator object, used before and in between
        other = Orbit(sv.base * 1.0, start, sv.form, frame, orb.propagator)
        list(other.iter(stop=stop))
    elif together == "warm":
        # the same request made once before (lazy construction, caches), result thrown away
        list(orb.iter(stop=stop))
    elif together == "appended-later" and len(mans) >= 2 and isinstance(orb.maneuvers, list):
        # first asked with all maneuvers but the last, which the caller then appends in place to orb.maneuvers
        last = orb.maneuvers.pop()
        list(orb.iter(stop=stop))
        orb.maneuvers.append(last)
    if together == "zip":
        # two iterations of one orbit alive together: both must give the run
        pairs = list(zip(orb.iter(stop=stop), orb.iter(stop=stop)))
        for k, (p, q) in enumerate(pairs):
            if not np.array_equal(np.asarray(p.base, float), np.asarray(q.base, float)) or p.date != q.date:
                raise Violation("iterators-interfere", f"two iterations of one orbit advanced together differ at point {k}")
        stream = [p for p, _ in pairs]
    else:
        stream = orb.iter(stop=stop)
    out = []
    for k, o in enumerate(stream):
        y = np.array(o.copy(form="cartesian").base, float)
        if not np.all(np.isfinite(y)):
            raise Violation("propagation-nonfinite", f"state {k} of the propagation with maneuvers is {y.tolist()}")
        if not (float(np.linalg.norm(y[:3])) > 1e4 and float(np.linalg.norm(y[3:])) > 1e-2):
            raise Violation("propagation-implausible", f"state {k} of the propagation is {y.tolist()} (not a position / velocity)")
        off = (o.date - d0).total_seconds() - k * h_us / 1e6
        # dates are kept to the microsecond, a UT1 / TDB label costs one more; a TDB second is not an SI second on the
        # geoid (3.3e-10 at most)
        if abs(off) > 2.5e-6 + (1e-9 * k * h_us / 1e6 if d0.scale.name == "TDB" else 0.0):
            raise Violation("grid-date", f"point {k} is dated {off:+.3g} s off the integration grid")
        out.append(y)
    if len(out) == n + 2 and d0.scale.name in ("UT1", "TDB"):
        # an epoch labelled UT1 / TDB is kept to the microsecond: the stop, converted on its own, may fall 1 us after the
        # last grid point, and KeplerNum then yields one more integration point (C08's listed finding keplernum-beyond-stop)
        out = out[:-1]
    if len(out) != n + 1:
        raise Violation("grid-length", f"{len(out)} points for {n} steps")
    return out


def dv_cap(c0, t_end, mu):
    """Largest total delta-v for which the state keeps clear of h = 0 and v = 0 (where QSW / TNW are
    undefined - outside the property): 0.3 x the smallest transverse velocity of the free motion."""
    end = tb.propagate_uv(c0, t_end, mu)
    h = float(np.linalg.norm(np.cross(c0[:3], c0[3:])))
    return 0.3 * h / max(float(np.linalg.norm(c0[:3])), float(np.linalg.norm(end[:3])))


def vperp(y):
    """transverse velocity |r x v| / |r|"""
    return float(np.linalg.norm(np.cross(y[:3], y[3:])) / np.linalg.norm(y[:3]))


def defects(ys, h, mu, method="rk4"):
    return [ys[j + 1] - free_step(ys[j], h, mu, method) for j in range(len(ys) - 1)]


def theta_of(ys, j, h, mu=None):
    """bound of the angle swept by the local axes during step j (rad): the radius vector turns at
    v_t / r <= v / r, the velocity vector at g_n / v <= mu / (r^2 v) (4 x faster at the apogee of e = 0.75)"""
    if mu is None:
        mu = mu_earth()
    out = 0.0
    for y in (ys[j], ys[j + 1]):
        r = float(np.linalg.norm(y[:3]))
        v = float(np.linalg.norm(y[3:]))
        out = max(out, v / r, mu / (r * r * v))
    return h * out


def quiet_tol(y):
    return 1e-12 * float(np.linalg.norm(y[:3])), 1e-12 * float(np.linalg.norm(y[3:]))


# ------------------------------------------------------------------ impulse timing


@st.composite
def epochs(draw, span_us):
    """start of a propagation, microseconds from 2020-01-01: anywhere in 5 years, or such that the span crosses a UTC
    midnight or the turn of a year (2020 is a leap year: day 366 included)"""
    k = draw(st.integers(0, 9))
    day = 86400 * 10**6
    if k < 6:
        return draw(go.uniform_int(0, 5 * 365 * day))
    frac = draw(go.uniform(0.02, 0.98))
    if k < 9:
        return draw(st.integers(1, 1800)) * day - int(frac * span_us)
    return draw(st.sampled_from([366, 366 + 365, 366 + 730])) * day - int(frac * span_us)


@st.composite
def impulse_case(draw):
    hyp = draw(st.integers(0, 9)) < 2
    el = draw(go.elements(elliptic=not hyp, hyperbolic=hyp, emax_ell=0.9, rp_range=(1.03, 8.0), hmax=1.5, emax_hyp=4.0))
    h_us, n = draw(grid())
    mans = []
    for _ in range(draw(st.integers(1, 3))):
        m = dict(t=draw(instant(h_us, 1, n * h_us - 1)))
        if draw(st.integers(0, 5)) == 5:
            m.update(kind="kep", da=draw(st.sampled_from([-1.0, 1.0])) * 10 ** draw(fu(3.0, 5.0)))
        else:
            m.update(kind="imp", dv=draw(vec3()), tag=draw(st.sampled_from(TAGS)))
        mans.append(m)
    return dict(el=el, h_us=h_us, n=n, t0=draw(epochs(n * h_us)), mans=mans, sp=draw(spellings(len(mans))))


def check_impulse(case):
    from beyond.dates import timedelta
    from beyond.orbits.man import ImpulsiveMan, KeplerianImpulsiveMan

    sp = case.get("sp") or {}
    body = sp.get("body", "Earth")
    method = sp.get("method", "rk4")
    mu = mu_of_body(body)
    el = case["el"]
    if body != "Earth":
        el = dict(el, a=el["a"] * go.RADIUS[body] / go.RADIUS["Earth"])     # same shape, sized for the other body
    c0 = cart(el, mu)
    d0 = epoch_of(case, sp)
    h_us, n = case["h_us"], case["n"]
    h = h_us / 1e6
    cap = dv_cap(c0, n * h, mu)
    tot_dv = sum(float(np.linalg.norm(m["dv"])) for m in case["mans"] if m["kind"] == "imp")
    capped = tot_dv > cap
    if capped:
        case = dict(case, mans=[dict(m, dv=[x * cap / tot_dv for x in m["dv"]]) if m["kind"] == "imp" else m
                                for m in case["mans"]])
    mans = []
    specs = []
    for i, m in enumerate(case["mans"]):
        date = relabel(d0 + timedelta(microseconds=m["t"]), (sp.get("man_scales") or [None] * 9)[i])
        if m["kind"] == "imp":
            obj, numbers = dv_spelling(m["dv"], (sp.get("dv_as") or ["list"] * 9)[i])
            mans.append(ImpulsiveMan(date, obj, frame=m["tag"]))
            if isinstance(obj, np.ndarray):
                obj += 1.0                  # the caller's array is not kept by reference
            specs.append(dict(m, dv=numbers))
        else:
            mans.append(KeplerianImpulsiveMan(date, da=m["da"]))
            specs.append(m)
    case = dict(case, mans=specs)
    ys = run_library(c0, d0, h_us, n, mans, sp)
    res = defects(ys, h, mu, method)
    # steps in which each maneuver may take effect: the one(s) containing its date
    allowed = {}
    for idx, m in enumerate(case["mans"]):
        for j in range(n):
            if j * h_us <= m["t"] <= (j + 1) * h_us:
                allowed.setdefault(j, []).append(idx)
    # clusters of consecutive allowed steps
    steps = sorted(allowed)
    clusters = []
    for j in steps:
        if clusters and clusters[-1][-1] == j - 1:
            clusters[-1].append(j)
        else:
            clusters.append([j])
    worst = 0.0
    dirfrac = 0.0
    kepfrac = 0.0
    in_cluster = set(steps)
    for j in range(n):
        if j in in_cluster:
            continue
        tr, tv = quiet_tol(ys[j + 1])
        dr, dv = float(np.linalg.norm(res[j][:3])), float(np.linalg.norm(res[j][3:]))
        worst = max(worst, dr / tr, dv / tv)
        if dr > tr or dv > tv:
            when = [round(m["t"] / h_us, 6) for m in case["mans"]]
            raise Violation("impulse-outside-its-step",
                            f"step {j} -> {j + 1} contains no maneuver date (maneuvers at {when} steps) but the state "
                            f"jumps by {dr:.6g} m, {dv:.6g} m/s with respect to a free Runge-Kutta step", step=j)
    for cl in clusters:
        ids = sorted({i for j in cl for i in allowed[j]})
        tot = sum(res[j] for j in cl)
        theta = sum(theta_of(ys, j, h, mu) for j in cl)
        want = np.zeros(3)
        mags = []
        for i in ids:
            m = case["mans"][i]
            j0 = min(j for j in cl if i in allowed[j])
            y_at = tb.propagate_uv(ys[j0], (m["t"] - j0 * h_us) / 1e6, mu)
            if m["kind"] == "imp":
                w = ig.to_inertial(m["dv"], y_at, m["tag"].upper() if m["tag"] else None)
            else:
                e2 = tb.cart2elements(y_at, mu)
                w = ig.to_inertial([mu * m["da"] / (2 * e2["v"] * e2["a"] ** 2), 0.0, 0.0], y_at, "TNW")
            want = want + w
            mags.append(float(np.linalg.norm(w)))
        total = sum(mags)
        vnorm = float(np.linalg.norm(ys[cl[0]][3:]))
        floor = 1e-13 * vnorm
        # several impulses in one cluster: each changes the axes seen by the next
        pair = sum(a * b for x, a in enumerate(mags) for b in mags[x + 1:]) * 2 / min(vperp(ys[j]) for j in cl)
        got = tot[3:]
        # da -> dv: the speed entering the formula changes along the step; and dv goes as 1 / a^2, with
        # a = 1 / (2/r - v^2/mu) taken from the integrator's own state: on a near-parabolic orbit (|a| >> r) the step's
        # energy error moves a by |a| / r times as much, relatively
        e_m = tb.cart2elements(ys[min(cl)], mu)
        kep_cond = max(1.0, abs(e_m["a"]) / (10 * float(np.linalg.norm(ys[min(cl)][:3]))))
        if len(ids) == 1:
            rel = 2 * theta**2 + 1e-9
            if case["mans"][ids[0]]["kind"] == "kep":
                rel += 2 * theta * kep_cond
            d = abs(float(np.linalg.norm(got)) - total)
            if case["mans"][ids[0]]["kind"] == "kep":
                kepfrac = max(kepfrac, d / (total * rel + floor))
            else:
                worst = max(worst, d / (total * rel + floor))
            if d > total * rel + floor:
                raise Violation("impulse-magnitude",
                                f"maneuver at {case['mans'][ids[0]]['t'] / h_us:.6f} steps: velocity jumps by "
                                f"{np.linalg.norm(got)!r} m/s in steps {cl}, stated |dv| = {total!r} m/s", steps=cl)
        d = float(np.linalg.norm(got - want))
        tol = total * 1.5 * theta + pair + floor
        if any(case["mans"][i]["kind"] == "kep" for i in ids):
            tol += total * 2 * theta * kep_cond
        dirfrac = max(dirfrac, d / tol)
        if d > tol:
            raise Violation("impulse-delivery",
                            f"maneuvers {ids} (dates {[round(case['mans'][i]['t'] / h_us, 6) for i in ids]} steps) should add "
                            f"{want.tolist()} m/s within steps {cl}; the library added {got.tolist()} "
                            f"(diff {d:.6g}, allowance {tol:.3g})", steps=cl)
        dr = float(np.linalg.norm(tot[:3]))
        if dr > total * h * len(cl) + 1e-12 * float(np.linalg.norm(ys[cl[0]][:3])):
            raise Violation("impulse-position-jump", f"position jumps by {dr:.6g} m in steps {cl}")
    cls = el_classes(el) + [f"mans:{len(mans)}"] + spelling_classes(sp)
    day = 86400 * 10**6
    if case["t0"] // day != (case["t0"] + n * h_us) // day:
        cls.append("crosses-utc-midnight")
    for m in case["mans"]:
        r = m["t"] % h_us
        cls.append("on-grid" if r == 0 else "1us-off-grid" if r in (1, h_us - 1) else "off-grid")
        cls.append("kind:kep" if m["kind"] == "kep" else f"tag:{m['tag']}")
    if any(len(cl) > 1 or len(allowed[cl[0]]) > 1 for cl in clusters):
        cls.append("shared-step")
    if capped:
        cls.append("dv-capped")
    nt = any(m["t"] % h_us != 0 for m in case["mans"]) or el["e"] > 1
    return dict(nt=nt, cls=cls, ratio=worst, parts=dict(sharp=worst, direction=dirfrac, kep=kepfrac))


# ------------------------------------------------------------------ impulses under adaptive step control


@st.composite
def adaptive_case(draw):
    el = draw(go.elements(hyperbolic=False, emax_ell=0.8, rp_range=(1.03, 1.6)))
    h_us = draw(st.integers(45, 120)) * 10**6 if draw(st.booleans()) else draw(go.uniform_int(45 * 10**6, 120 * 10**6))
    n = draw(st.integers(15, 40))
    span = n * h_us
    mans = []
    for _ in range(draw(st.integers(1, 3))):
        k = draw(st.integers(0, 5))
        if k == 0:
            t = draw(st.integers(1, n - 1)) * h_us          # on the requested grid
        else:
            t = draw(go.uniform_int(1, span - 1))
        mans.append(dict(t=t, dv=draw(vec3(-2.0, 2.0)), tag=draw(st.sampled_from(TAGS))))
    return dict(el=el, h_us=h_us, n=n, method=draw(st.sampled_from(["rkf54", "dopri54"])),
                t0=draw(go.uniform_int(0, 5 * 365 * 86400 * 10**6)), mans=mans)


def check_adaptive(case):
    """rkf54 / dopri54: the state is observed at the accepted steps (real_steps=True).  Between two consecutive
    points the motion is the free two-body arc (exact propagation, the integrator's own error is 1e-7 m/s per step
    at the default tolerance) except where a maneuver date falls: there the jump must be one application of dv."""
    from beyond.dates import timedelta
    from beyond.env.solarsystem import get_body
    from beyond.orbits import Orbit
    from beyond.orbits.man import ImpulsiveMan
    from beyond.propagators.keplernum import KeplerNum

    mu = mu_earth()
    el = case["el"]
    c0 = cart(el, mu)
    d0 = mkdate(case["t0"])
    h_us, n = case["h_us"], case["n"]
    span = n * h_us / 1e6
    cap = dv_cap(c0, span * 1.1, mu)
    tot_dv = sum(float(np.linalg.norm(m["dv"])) for m in case["mans"])
    specs = case["mans"]
    if tot_dv > cap:
        specs = [dict(m, dv=[x * cap / tot_dv for x in m["dv"]]) for m in specs]
    orb = Orbit(c0, d0, "cartesian", "EME2000",
                KeplerNum(timedelta(microseconds=h_us), get_body("Earth"), method=case["method"]))
    orb.maneuvers = [ImpulsiveMan(d0 + timedelta(microseconds=m["t"]), list(m["dv"]), frame=m["tag"]) for m in specs]
    ts, ys = [], []
    for o in orb.iter(stop=d0 + timedelta(microseconds=n * h_us), real_steps=True):
        y = np.array(o.copy(form="cartesian").base, float)
        if not np.all(np.isfinite(y)):
            raise Violation("propagation-nonfinite", f"point {len(ys)} of the {case['method']} propagation is {y.tolist()}")
        ts.append((o.date - d0).total_seconds())
        ys.append(y)
    if len(ys) < 2 or ts[0] != 0.0 or any(b <= a for a, b in zip(ts, ts[1:])):
        raise Violation("grid-dates", f"dates of the accepted steps are not increasing from the epoch: {ts[:5]} ...")
    if ts[-1] < span - 1e-6:
        raise Violation("grid-length", f"propagation stops at {ts[-1]} s, before the requested {span} s")
    nst = len(ys) - 1
    res = [ys[j + 1] - tb.propagate_uv(ys[j], ts[j + 1] - ts[j], mu) for j in range(nst)]
    QUIET_R, QUIET_V = 1e-2, 1e-5      # m, m/s : 100 x the integrator's own error per step
    allowed = {}
    for idx, m in enumerate(specs):
        tm = m["t"] / 1e6
        for j in range(nst):
            if ts[j] - 2e-6 <= tm <= ts[j + 1] + 2e-6:
                allowed.setdefault(j, []).append(idx)
    steps = sorted(allowed)
    clusters = []
    for j in steps:
        if clusters and clusters[-1][-1] == j - 1:
            clusters[-1].append(j)
        else:
            clusters.append([j])
    worst = 0.0
    dirfrac = 0.0
    inside = set(steps)
    for j in range(nst):
        if j in inside:
            continue
        dr, dv = float(np.linalg.norm(res[j][:3])), float(np.linalg.norm(res[j][3:]))
        worst = max(worst, dr / QUIET_R, dv / QUIET_V)
        if dr > QUIET_R or dv > QUIET_V:
            raise Violation("impulse-outside-its-step",
                            f"{case['method']}, requested step {h_us / 1e6} s: the accepted step [{ts[j]}, {ts[j + 1]}] s contains no "
                            f"maneuver date (maneuvers at {[m['t'] / 1e6 for m in specs]} s) but the state departs by {dr:.6g} m, "
                            f"{dv:.6g} m/s from the free arc", step=j)
    for cl in clusters:
        ids = sorted({i for j in cl for i in allowed[j]})
        tot = sum(res[j] for j in cl)
        theta = sum(theta_of(ys, j, ts[j + 1] - ts[j]) for j in cl)
        want = np.zeros(3)
        mags = []
        for i in ids:
            m = specs[i]
            j0 = min(j for j in cl if i in allowed[j])
            y_at = tb.propagate_uv(ys[j0], m["t"] / 1e6 - ts[j0], mu)
            w = ig.to_inertial(m["dv"], y_at, m["tag"].upper() if m["tag"] else None)
            want = want + w
            mags.append(float(np.linalg.norm(w)))
        total = sum(mags)
        pair = sum(a * b for x, a in enumerate(mags) for b in mags[x + 1:]) * 2 / min(vperp(ys[j]) for j in cl)
        got = tot[3:]
        if len(ids) == 1:
            d = abs(float(np.linalg.norm(got)) - total)
            tol = total * (2 * theta**2 + 1e-9) + QUIET_V * len(cl)
            worst = max(worst, d / tol)
            if d > tol:
                raise Violation("impulse-magnitude",
                                f"{case['method']}, requested step {h_us / 1e6} s, accepted {ts[cl[0] + 1] - ts[cl[0]]:.3f} s: maneuver at "
                                f"{specs[ids[0]]['t'] / 1e6} s, velocity jumps by {np.linalg.norm(got)!r} m/s over [{ts[cl[0]]}, "
                                f"{ts[cl[-1] + 1]}] s, stated |dv| = {total!r} m/s", steps=cl)
        d = float(np.linalg.norm(got - want))
        tol = total * 1.5 * theta + pair + QUIET_V * len(cl)
        dirfrac = max(dirfrac, d / tol)
        if d > tol:
            raise Violation("impulse-delivery",
                            f"{case['method']}: maneuvers at {[specs[i]['t'] / 1e6 for i in ids]} s should add {want.tolist()} m/s within "
                            f"[{ts[cl[0]]}, {ts[cl[-1] + 1]}] s; the library added {got.tolist()} (diff {d:.6g}, allowance {tol:.3g})",
                            steps=cl)
    hs = np.diff(ts)
    reduced = bool(np.min(hs[:-1] if len(hs) > 1 else hs) < 0.99 * h_us / 1e6)
    cls = el_classes(el) + [case["method"], f"mans:{len(specs)}", "step-reduced" if reduced else "step-as-requested"]
    if reduced:
        r = float(np.min(hs)) / (h_us / 1e6)
        cls.append("accepted<0.6h" if r < 0.6 else "accepted<h")
    for m in specs:
        cls.append("on-requested-grid" if m["t"] % h_us == 0 else "off-grid")
    if tot_dv > cap:
        cls.append("dv-capped")
    return dict(nt=reduced, cls=cls, ratio=worst, parts=dict(sharp=worst, direction=dirfrac))


# ------------------------------------------------------------------ continuous delivery


@st.composite
def continuous_case(draw):
    long_burn = draw(st.integers(0, 8)) == 0
    if long_burn:
        # low-thrust burn of hours to two days on a MEO / GEO orbit, coarse step (<= 1450 steps)
        el = draw(go.elements(hyperbolic=False, emax_ell=0.3, rp_range=(3.0, 7.0)))
        h_us = 120 * 10**6
    else:
        hyp = draw(st.integers(0, 9)) < 2
        el = draw(go.elements(elliptic=not hyp, hyperbolic=hyp, emax_ell=0.9, rp_range=(1.03, 8.0), hmax=1.5, emax_hyp=4.0))
        h_us, _ = draw(grid())
    lead = draw(st.integers(2, 4))
    # start within [2, 5) steps; duration 0.2 .. 8 steps (long burns: 2 h .. 48 h)
    start = draw(instant(h_us, lead * h_us, (lead + 1) * h_us))
    k = draw(st.integers(0, 5))
    if long_burn:
        if k < 2:
            dur = draw(st.sampled_from([1, 1, 2])) * DAY_US + draw(st.sampled_from([0, 0, 1, 2 * 3600 * 10**6]))
        elif k == 2:
            dur = draw(st.integers(60, 1440)) * h_us
        else:
            dur = draw(go.uniform_int(2 * 3600 * 10**6, 2 * DAY_US))
        dur = min(dur, 2 * DAY_US)
    elif k < 2:
        dur = draw(st.integers(1, 8)) * h_us
    elif k == 2:
        dur = draw(st.integers(1, 8)) * h_us + draw(st.sampled_from([-1, 1]))
    else:
        dur = draw(go.uniform_int(h_us // 5, 8 * h_us))
    # both edges on the grid in a fair share of the cases
    if draw(st.integers(0, 3)) == 0:
        start = (start // h_us) * h_us
        dur = max(1, round(dur / h_us)) * h_us
    tail = draw(st.integers(2, 3))
    tie = draw(st.integers(0, 7))
    # (a burn that starts exactly at the orbit's date is outside the quantifier - dates strictly inside the span - and
    # loses |accel| step / 6 on the unchanged tree: the share Runge-Kutta delivers in the step before the window opens)
    if tie == 1 and (start + dur) % h_us == 0:
        tail = 0                                     # ... or ends EXACTLY where the propagation stops
    n = -(-(start + dur) // h_us) + tail
    return dict(el=el, h_us=h_us, n=n, start=start, dur=dur, t0=draw(epochs(n * h_us)),
                dv=draw(vec3(-3.0, 2.0)), tag=draw(st.sampled_from(TAGS)), mode=draw(st.sampled_from(["dv", "accel"])),
                date_pos=draw(st.sampled_from(["start", "stop", "median"])),
                sp=draw(spellings(1, methods=("rk4",), bodies=("Earth", "Earth", "Earth", "Moon") if not long_burn else ("Earth",))))


def check_continuous(case):
    from beyond.dates import timedelta
    from beyond.orbits.man import ContinuousMan

    sp = case.get("sp") or {}
    body_name = sp.get("body", "Earth")
    mu = mu_of_body(body_name)
    el = case["el"]
    if body_name != "Earth":
        el = dict(el, a=el["a"] * go.RADIUS[body_name] / go.RADIUS["Earth"])
    c0 = cart(el, mu)
    d0 = epoch_of(case, sp)
    h_us, n = case["h_us"], case["n"]
    h = h_us / 1e6
    start, dur = case["start"], case["dur"]
    if case["date_pos"] == "median" and dur % 2:
        dur += 1  # keep the edges on whole microseconds
    stop = start + dur
    secs = dur / 1e6
    dvv = np.array(case["dv"], float)
    cap = dv_cap(c0, n * h, mu)
    capped = float(np.linalg.norm(dvv)) > cap
    if capped:
        dvv = dvv * cap / float(np.linalg.norm(dvv))
    acc = dvv / secs
    shift = {"start": 0, "median": dur // 2, "stop": dur}[case["date_pos"]]
    man_scale = (sp.get("man_scales") or [None])[0]
    date = relabel(d0 + timedelta(microseconds=start + shift), man_scale)
    duration = timedelta(microseconds=dur)
    how = (sp.get("dv_as") or ["list"])[0]
    if case["mode"] == "dv":
        obj, numbers = dv_spelling(dvv, how)
        dvv = np.array(numbers, float)
        acc = dvv / secs
        man = ContinuousMan(date, duration, dv=obj, frame=case["tag"], date_pos=case["date_pos"])
    else:
        obj, numbers = dv_spelling(acc, how if how != "int" else "list")
        acc = np.array(numbers, float)
        dvv = acc * secs
        man = ContinuousMan(date, duration, accel=obj, frame=case["tag"], date_pos=case["date_pos"])
    if isinstance(obj, np.ndarray):
        obj += 1.0                      # the caller's array is not kept by reference
    # (a TDB second is not a TT second: up to 3.3e-10 of the duration when the burn is dated in TDB)
    label = man.date.scale.name
    inexact = label in ("UT1", "TDB") or d0.scale.name in ("UT1", "TDB")
    wtol = 2e-6 + (1e-9 * (secs + stop / 1e6) if "TDB" in (label, d0.scale.name) else 0.0)
    if abs((man.start - d0).total_seconds() - start / 1e6) > wtol or abs((man.stop - d0).total_seconds() - stop / 1e6) > wtol:
        raise Violation("cont-window", f"burn window [{(man.start - d0).total_seconds()}, {(man.stop - d0).total_seconds()}) s, "
                        f"expected [{start / 1e6}, {stop / 1e6})")
    frame = case["tag"].upper() if case["tag"] else None
    amag = float(np.linalg.norm(acc))
    # numbers handed over in single precision are divided / multiplied by the duration in single precision
    REL0 = 1e-6 if how == "f32" else 1e-9
    ys = run_library(c0, d0, h_us, n, [man], sp)
    res = defects(ys, h, mu)
    on_grid = start % h_us == 0 and stop % h_us == 0
    eps_us = 0
    if inexact:
        on_grid = False                 # such a label is kept to the microsecond only: the edges leave the grid
        eps_us = 3 + int(1e-3 * (secs + stop / 1e6)) if "TDB" in (label, d0.scale.name) else 3    # ... by this much at most
    worst = 0.0
    vnorm = float(np.linalg.norm(ys[0][3:]))
    floor = 1e-13 * vnorm
    delivered_edges = 0.0   # what the steps touching an edge of the window gained
    interior = 0
    thmax = 0.0
    # long burns: the exact thrust arc is integrated for 12 of the whole steps, the others get the cheap magnitude test
    first_in = -(-start // h_us)
    last_in = (stop - 1) // h_us - 1
    n_in = max(0, last_in - first_in + 1)
    if n_in > 16:
        sampled = set(range(first_in, first_in + 4)) | set(range(last_in - 3, last_in + 1))
        sampled |= {first_in + (k * n_in) // 5 for k in range(1, 5)}
    else:
        sampled = None
    for j in range(n):
        lo, hi = j * h_us, (j + 1) * h_us
        dr, dv = float(np.linalg.norm(res[j][:3])), float(np.linalg.norm(res[j][3:]))
        # angle swept by the local axes during the step: orbital motion + the turn the thrust itself gives the velocity
        # (an out-of-plane or transverse push turns the axes at accel / transverse velocity)
        theta = theta_of(ys, j, h, mu) + amag * h / min(vperp(ys[j]), vperp(ys[j + 1]))
        if hi < start - eps_us or lo > stop + eps_us:
            tr, tv = quiet_tol(ys[j + 1])
            worst = max(worst, dr / tr, dv / tv)
            if dr > tr or dv > tv:
                raise Violation("burn-outside-window",
                                f"step {j} -> {j + 1} ([{lo / 1e6}, {hi / 1e6}] s) does not touch the burn "
                                f"[{start / 1e6}, {stop / 1e6}) s but the velocity departs by {dv:.6g} m/s from a free step", step=j)
        elif start + eps_us <= lo and hi < stop - eps_us:
            # thrust during the whole step: what the step gained = (exact arc with thrust) - (exact free arc),
            # up to the difference of the Runge-Kutta truncation errors of the two arcs (theta^4 |accel| step)
            interior += 1
            if sampled is not None and j not in sampled:
                want_dv = amag * h
                tol = want_dv * (3 * theta**2 + REL0) + floor
                worst = max(worst, abs(dv - want_dv) / tol)
                if abs(dv - want_dv) > tol:
                    raise Violation("burn-full-step", f"step {j} -> {j + 1} lies inside the burn: velocity gained {dv!r} m/s, "
                                    f"|accel| x step = {want_dv!r} m/s (stated dv {float(np.linalg.norm(dvv))!r} m/s over {secs} s)",
                                    step=j)
                continue
            arc, err = ig.burn(ys[j], h, mu, acc, frame)
            want = arc - tb.propagate_uv(ys[j], h, mu)
            d = float(np.linalg.norm(res[j][3:] - want[3:]))
            tol = amag * h * (theta**3 + REL0) + floor + 10 * err
            worst = max(worst, d / tol)
            if d > tol:
                raise Violation("burn-full-step",
                                f"step {j} -> {j + 1} lies inside the burn: velocity gained {res[j][3:].tolist()} m/s, thrust "
                                f"{acc.tolist()} m/s^2 along {case['tag']!r} axes for {h} s gives {want[3:].tolist()} "
                                f"(diff {d:.6g}, tol {tol:.3g})", step=j)
            d = float(np.linalg.norm(res[j][:3] - want[:3]))
            tol = amag * h * h * (theta**3 + REL0) + 1e-13 * float(np.linalg.norm(ys[j][:3])) + 10 * err * h
            worst = max(worst, d / tol)
            if d > tol:
                raise Violation("burn-full-step-position", f"step {j} -> {j + 1}: position gained {res[j][:3].tolist()} m, "
                                f"expected {want[:3].tolist()}", step=j)
        else:
            delivered_edges += dv
            thmax = max(thmax, theta)
    # the full delta-v over the duration: what is not delivered in whole steps comes from the steps at the edges
    total = amag * secs
    want_edges = amag * (secs - interior * h)
    if on_grid:
        tol = amag * h * 6 * thmax**2 + amag * h * 1e-6 + amag * secs * REL0 + n * floor
    else:
        tol = amag * h + n * floor
    d = abs(delivered_edges - want_edges)
    if on_grid:
        worst = max(worst, d / tol)
    quad = d / (amag * h)
    if d > tol:
        raise Violation("burn-total" + ("-on-grid" if on_grid else ""),
                        f"burn of {secs} s starting {start / 1e6} s after the epoch, step {h} s ({interior} whole steps): the "
                        f"steps at the edges delivered {delivered_edges!r} m/s, |accel| x remaining time = {want_edges!r} m/s "
                        f"(difference {d:.6g}, allowance {tol:.3g}; stated total {total!r} m/s)",
                        delivered=delivered_edges, stated=want_edges)
    vmin = min(vperp(y) for y in ys)
    # end state against the reference integration with thrust on [start, stop)
    t_end = n * h
    ref, err = ig.propagate_with_burns(c0, t_end, mu, burns=[(start / 1e6, stop / 1e6, acc, frame)],
                                       hmax=1.0 if sampled is None else 30.0)
    free_lib = np.asarray(ys[0], float)
    for _ in range(n):
        free_lib = np.asarray(ig.rk4_step(free_lib, h, mu))  # the library's own maneuver-free twin (bit for bit)
    free_ref = tb.propagate_uv(c0, t_end, mu)
    D = (ys[-1] - free_lib) - (ref - free_ref)
    span = t_end - start / 1e6
    sweep = sum(theta_of(ys, j, h, mu) for j in range(n) if (j + 1) * h_us > start) + total / vmin
    # quadrature of the edges (a velocity error up to |accel| step, carried for `sweep` radians), plus the
    # part of the integrator's truncation error that does not cancel between the twins
    if on_grid and sampled is None:
        vtol = amag * h * (0.05 + 0.5 * sweep) + 1e-9 + 10 * err
    else:
        vtol = amag * h * (1 + 3 * sweep) + 1e-9 + 10 * err
    vtol += total / vnorm * float(np.linalg.norm(free_lib[3:] - free_ref[3:])) * 10
    ptol = vtol * span + total / vnorm * float(np.linalg.norm(free_lib[:3] - free_ref[:3])) * 10 + 1e-6
    if on_grid:
        # Runge-Kutta delivers |accel| step / 6 one step before the window opens and withholds as much in its
        # last step: a displacement of |accel| step / 6 x duration (allowed twice)
        ptol += amag * h * (secs + h) / 3
    ev = float(np.linalg.norm(D[3:]))
    ep = float(np.linalg.norm(D[:3]))
    endfrac = max(ev / vtol, ep / ptol)
    if ev > vtol or ep > ptol:
        raise Violation("burn-end-state" + ("-on-grid" if on_grid else ""),
                        f"effect of the burn on the end state differs from the reference integration by {ep:.6g} m, "
                        f"{ev:.6g} m/s (allowance {ptol:.3g} m, {vtol:.3g} m/s)", ev=ev, ep=ep)
    cls = el_classes(el) + [f"tag:{case['tag']}", case["mode"], f"pos:{case['date_pos']}",
                            "both-edges-on-grid" if on_grid else "edge-off-grid"]
    if dur < h_us:
        cls.append("shorter-than-a-step")
    if case["start"] == 0:
        cls.append("tie:burn-starts-at-epoch")
    if case["start"] + case["dur"] == n * h_us:
        cls.append("tie:burn-ends-at-stop")
    if dur >= DAY_US:
        cls.append("burn>=1day")
    elif sampled is not None:
        cls.append("burn-hours")
    if capped:
        cls.append("dv-capped")
    cls += spelling_classes(sp)
    day = 86400 * 10**6
    if case["t0"] // day != (case["t0"] + n * h_us) // day:
        cls.append("crosses-utc-midnight")
    return dict(nt=(not on_grid) or el["e"] > 1, cls=cls, ratio=worst,
                parts=dict(sharp=worst, quadrature=quad, end=endfrac))


# ------------------------------------------------------------------ several continuous burns, firing together or not

PATTERNS = ["nested", "straddle", "same_start", "same_window", "back_to_back", "disjoint", "three"]


@st.composite
def overlap_case(draw):
    """Two or three continuous burns whose windows are nested, straddle each other, start together, coincide, follow
    each other without a gap, or are apart (control); listed in a drawn order.  Each keeps its own axes, mode, date_pos."""
    el = draw(go.elements(hyperbolic=False, emax_ell=0.7, rp_range=(1.03, 8.0)))
    h_us, _ = draw(grid())
    pattern = draw(st.sampled_from(PATTERNS))
    lead = draw(st.integers(2, 3))
    sa = draw(instant(h_us, lead * h_us, (lead + 1) * h_us))
    da = draw(go.uniform_int(4 * h_us, 12 * h_us))
    if pattern in ("nested", "three"):
        sb = sa + draw(go.uniform_int(h_us // 2, da // 3))
        db = draw(go.uniform_int(da // 4, da - (sb - sa) - h_us // 2))
    elif pattern == "straddle":
        sb = sa + draw(go.uniform_int(da // 3, da - h_us))
        db = draw(go.uniform_int(da // 2, da))
    elif pattern == "same_start":
        sb, db = sa, draw(go.uniform_int(2 * h_us, 10 * h_us))
    elif pattern == "same_window":
        sb, db = sa, da
    elif pattern == "back_to_back":
        sb, db = sa + da, draw(go.uniform_int(2 * h_us, 8 * h_us))
    else:
        sb = sa + da + draw(go.uniform_int(h_us // 2, 3 * h_us))
        db = draw(go.uniform_int(2 * h_us, 8 * h_us))
    wins = [(sa, da), (sb, db)]
    if pattern == "three":
        sc = sa + draw(go.uniform_int(0, da // 2))
        wins.append((sc, draw(go.uniform_int(2 * h_us, da))))
    if draw(st.integers(0, 3)) == 0:   # every edge on the grid
        wins = [((s_ // h_us) * h_us, max(1, round(d_ / h_us)) * h_us) for s_, d_ in wins]
    burns = [dict(start=s_, dur=d_ + (d_ % 2), dv=draw(vec3(-2.0, 1.0)), tag=draw(st.sampled_from(TAGS)),
                  mode=draw(st.sampled_from(["dv", "accel"])), date_pos=draw(st.sampled_from(["start", "stop", "median"])))
             for s_, d_ in wins]
    order = draw(st.permutations(list(range(len(burns)))))
    n = -(-max(b["start"] + b["dur"] for b in burns) // h_us) + draw(st.integers(2, 3))
    return dict(el=el, h_us=h_us, n=n, burns=burns, order=list(order), pattern=pattern, t0=draw(epochs(n * h_us)),
                sp=draw(spellings(len(burns), methods=("rk4",), bodies=("Earth", "Earth", "Earth", "Moon"))))


def check_overlap(case):
    from beyond.dates import timedelta
    from beyond.orbits.man import ContinuousMan

    sp = dict(case.get("sp") or {})
    if sp.get("together") == "appended-later":
        sp["together"] = "alone"
    body_name = sp.get("body", "Earth")
    mu = mu_of_body(body_name)
    el = case["el"]
    if body_name != "Earth":
        el = dict(el, a=el["a"] * go.RADIUS[body_name] / go.RADIUS["Earth"])
    c0 = cart(el, mu)
    d0 = epoch_of(case, sp)
    h_us, n = case["h_us"], case["n"]
    h = h_us / 1e6
    cap = dv_cap(c0, n * h, mu) / len(case["burns"])
    mans, sched = [], []
    inexact = d0.scale.name in ("UT1", "TDB")
    for k, b in enumerate(case["burns"]):
        secs = b["dur"] / 1e6
        dvv = np.array(b["dv"], float)
        if float(np.linalg.norm(dvv)) > cap:
            dvv = dvv * cap / float(np.linalg.norm(dvv))
        shift = {"start": 0, "median": b["dur"] // 2, "stop": b["dur"]}[b["date_pos"]]
        date = relabel(d0 + timedelta(microseconds=b["start"] + shift), (sp.get("man_scales") or [None] * 9)[k])
        how = (sp.get("dv_as") or ["list"] * 9)[k]
        if how in ("f32", "int"):
            how = "list"
        if b["mode"] == "dv":
            obj, numbers = dv_spelling(dvv, how)
            acc = np.array(numbers, float) / secs
            man = ContinuousMan(date, timedelta(microseconds=b["dur"]), dv=obj, frame=b["tag"], date_pos=b["date_pos"])
        else:
            obj, numbers = dv_spelling(dvv / secs, how)
            acc = np.array(numbers, float)
            man = ContinuousMan(date, timedelta(microseconds=b["dur"]), accel=obj, frame=b["tag"], date_pos=b["date_pos"])
        inexact = inexact or man.date.scale.name in ("UT1", "TDB")
        mans.append(man)
        sched.append((b["start"], b["start"] + b["dur"], acc, b["tag"].upper() if b["tag"] else None))
    ys = run_library(c0, d0, h_us, n, [mans[i] for i in case["order"]], sp)
    res = defects(ys, h, mu)
    eps_us = (3 + int(1e-3 * n * h)) if inexact else 0
    edges = sorted({t for s_ in sched for t in s_[:2]})
    vnorm = float(np.linalg.norm(ys[0][3:]))
    floor = 1e-13 * vnorm
    worst, together, alone_steps, edge_steps = 0.0, 0, 0, 0
    for j in range(n):
        lo, hi = j * h_us, (j + 1) * h_us
        if any(lo - eps_us <= t <= hi + eps_us for t in edges) and not all(t in (lo, hi) and eps_us == 0 for t in edges
                                                                            if lo - eps_us <= t <= hi + eps_us):
            edge_steps += 1
            continue
        # (an edge exactly on a grid point: the window is [start, stop), so the step that starts there belongs to the
        # new regime and the one that ends there to the old one - but Runge-Kutta's last stage sits ON the edge:
        # such steps are set aside as well)
        if any(t in (lo, hi) for t in edges):
            edge_steps += 1
            continue
        active = [(s_[2], s_[3]) for s_ in sched if s_[0] <= lo and hi <= s_[1]]
        dv = float(np.linalg.norm(res[j][3:]))
        if not active:
            tr, tv = quiet_tol(ys[j + 1])
            dr = float(np.linalg.norm(res[j][:3]))
            worst = max(worst, dr / tr, dv / tv)
            if dr > tr or dv > tv:
                raise Violation("burn-outside-window", f"step {j} -> {j + 1} touches no burn but departs by {dv:.6g} m/s "
                                f"from a free step", step=j)
            continue
        amag = sum(float(np.linalg.norm(a)) for a, _ in active)
        theta = theta_of(ys, j, h, mu) + amag * h / min(vperp(ys[j]), vperp(ys[j + 1]))
        arc, err = ig.burn_multi(ys[j], h, mu, active)
        want = arc - tb.propagate_uv(ys[j], h, mu)
        d = float(np.linalg.norm(res[j][3:] - want[3:]))
        tol = amag * h * (theta**3 + 1e-9) + floor + 10 * err
        worst = max(worst, d / tol)
        if len(active) > 1:
            together += 1
        else:
            alone_steps += 1
        if d > tol:
            raise Violation("burns-together" if len(active) > 1 else "burn-full-step",
                            f"step {j} -> {j + 1} ([{lo / 1e6}, {hi / 1e6}] s) lies inside {len(active)} burn(s) "
                            f"{[(s_[0] / 1e6, s_[1] / 1e6) for s_ in sched if s_[0] <= lo and hi <= s_[1]]} (maneuvers listed "
                            f"in order {case['order']}): velocity gained {res[j][3:].tolist()} m/s over a free step, the sum "
                            f"of the thrusts {[list(map(float, a)) for a, _ in active]} m/s^2 along "
                            f"{[f for _, f in active]} gives {want[3:].tolist()} (diff {d:.6g}, tol {tol:.3g})",
                            step=j, nactive=len(active))
    # the end state against the reference integration of the whole schedule (loose: quadrature of the edges)
    t_end = n * h
    ref, err = ig.propagate_with_schedule(c0, t_end, mu, [(a / 1e6, b / 1e6, acc, f) for a, b, acc, f in sched])
    free_lib = np.asarray(ys[0], float)
    for _ in range(n):
        free_lib = np.asarray(ig.rk4_step(free_lib, h, mu))
    free_ref = tb.propagate_uv(c0, t_end, mu)
    D = (ys[-1] - free_lib) - (ref - free_ref)
    amax = sum(float(np.linalg.norm(s_[2])) for s_ in sched)
    total = sum(float(np.linalg.norm(s_[2])) * (s_[1] - s_[0]) / 1e6 for s_ in sched)
    vmin = min(vperp(y) for y in ys)
    first = min(s_[0] for s_ in sched)
    sweep = sum(theta_of(ys, j, h, mu) for j in range(n) if (j + 1) * h_us > first) + total / vmin
    vtol = amax * h * len(sched) * (1 + 3 * sweep) + 1e-9 + 10 * err
    vtol += total / vnorm * float(np.linalg.norm(free_lib[3:] - free_ref[3:])) * 10
    ptol = vtol * (t_end - first / 1e6) + total / vnorm * float(np.linalg.norm(free_lib[:3] - free_ref[:3])) * 10 + 1e-6
    ev, ep = float(np.linalg.norm(D[3:])), float(np.linalg.norm(D[:3]))
    if ev > vtol or ep > ptol:
        raise Violation("burns-end-state", f"effect of the {len(sched)} burns ({case['pattern']}) on the end state differs from "
                        f"the reference integration by {ep:.6g} m, {ev:.6g} m/s (allowance {ptol:.3g} m, {vtol:.3g} m/s)",
                        ev=ev, ep=ep)
    cls = [f"pattern:{case['pattern']}", f"order:{''.join(map(str, case['order']))}",
           "steps-with-2+-burns" if together else "no-step-inside-two-burns"] + spelling_classes(sp)
    return dict(nt=together > 0, cls=cls, ratio=worst, parts=dict(end=max(ev / vtol, ep / ptol)))


# ------------------------------------------------------------------ requests that start later than the orbit's date


@st.composite
def late_case(draw):
    hyp = draw(st.integers(0, 9)) == 0
    el = draw(go.elements(elliptic=not hyp, hyperbolic=hyp, emax_ell=0.9, rp_range=(1.03, 8.0), hmax=1.5, emax_hyp=4.0))
    h_us = draw(st.integers(30, 120)) * 10**6
    n = draw(st.integers(24, 40))
    k = draw(st.integers(1, n - 4))                       # the request starts in step k
    on_grid = draw(st.integers(0, 9)) < 6
    frac = 0.0 if on_grid else draw(go.uniform(0.02, 0.98))
    mans = []
    if draw(st.booleans()):
        # one burn; on-grid requests may start before, inside or after it
        b0 = draw(st.integers(1, n - 6))
        bl = draw(st.integers(2, 10))
        start = b0 * h_us + (0 if draw(st.booleans()) else draw(go.uniform_int(0, h_us - 1)))
        dur = bl * h_us + (0 if draw(st.booleans()) else draw(go.uniform_int(0, h_us - 1)))
        mans.append(dict(kind="cont", start=start, dur=dur, dv=draw(vec3(-2.0, 1.5)), tag=draw(st.sampled_from(TAGS)),
                         date_pos=draw(st.sampled_from(["start", "median", "stop"])), mode=draw(st.sampled_from(["dv", "accel"]))))
    else:
        for _ in range(draw(st.integers(1, 2))):
            mans.append(dict(kind="imp", t=draw(instant(h_us, 1, n * h_us - 1)), dv=draw(vec3(-2.0, 1.5)),
                             tag=draw(st.sampled_from(TAGS))))
    # ties drawn on purpose: the request starts EXACTLY at an impulse date / at the first or last instant of a burn
    ties = []
    for m in mans:
        for e in ([m["t"]] if m["kind"] == "imp" else [m["start"], m["start"] + m["dur"]]):
            if e % h_us == 0 and 1 <= e // h_us <= n - 4:
                ties.append(e // h_us)
    tie = bool(ties) and draw(st.integers(0, 2)) == 0
    if tie:
        k, frac = draw(st.sampled_from(ties)), 0.0
    return dict(el=el, h_us=h_us, n=n, k=k, frac=frac, mans=mans, t0=draw(epochs(n * h_us)), tie=tie,
                how=draw(st.sampled_from(["iter", "iter", "ephem", "propagate", "propagate_td", "ephemeris", "iter_kw"])))


def check_late(case):
    """The same propagation asked from a later start (iter / ephem(start=...), propagate(date)) gives the states of
    the run from the orbit's own date: exactly when the start is on the integration grid, to the accuracy of the
    integrator when it is between two grid points."""
    from beyond.dates import timedelta
    from beyond.env.solarsystem import get_body
    from beyond.orbits import Orbit
    from beyond.orbits.man import ContinuousMan, ImpulsiveMan
    from beyond.propagators.keplernum import KeplerNum

    mu = mu_earth()
    el = case["el"]
    c0 = cart(el, mu)
    d0 = mkdate(case["t0"])
    h_us, n, k = case["h_us"], case["n"], case["k"]
    h = h_us / 1e6
    cap = dv_cap(c0, n * h, mu)
    tot = sum(float(np.linalg.norm(m["dv"])) for m in case["mans"])
    scale = min(1.0, cap / tot)

    def build():
        out = []
        for m in case["mans"]:
            dv = [x * scale for x in m["dv"]]
            if m["kind"] == "imp":
                out.append(ImpulsiveMan(d0 + timedelta(microseconds=m["t"]), dv, frame=m["tag"]))
            else:
                dur = m["dur"] + (m["dur"] % 2 if m["date_pos"] == "median" else 0)
                shift = {"start": 0, "median": dur // 2, "stop": dur}[m["date_pos"]]
                kw = dict(dv=dv) if m["mode"] == "dv" else dict(accel=[x / (dur / 1e6) for x in dv])
                out.append(ContinuousMan(d0 + timedelta(microseconds=m["start"] + shift), timedelta(microseconds=dur),
                                         frame=m["tag"], date_pos=m["date_pos"], **kw))
        return out

    ys = run_library(c0, d0, h_us, n, build())             # the run from the orbit's own date (other facets decide it)
    s_us = k * h_us + int(case["frac"] * h_us)
    on_grid = s_us % h_us == 0
    S = d0 + timedelta(microseconds=s_us)
    E = d0 + timedelta(microseconds=n * h_us)
    orb = Orbit(c0, d0, "cartesian", "EME2000", KeplerNum(timedelta(microseconds=h_us), get_body("Earth"), method="rk4"))
    orb.maneuvers = build()
    how = case["how"]
    if how == "ephem" and (n - k < 10 or not on_grid):
        how = "iter"        # re-sampling a span shorter than 8 steps is refused (known finding C08/keplernum-short-span)
    if how == "ephemeris" and (n - k < 10 or not on_grid):
        how = "iter_kw"
    if how == "propagate":
        pts = [orb.propagate(S)]
    elif how == "propagate_td":
        pts = [orb.propagate(timedelta(microseconds=s_us))]          # offset from the orbit's date instead of a Date
    elif how == "ephemeris":
        pts = list(orb.ephemeris(start=S, stop=E, step=timedelta(microseconds=h_us)))
    elif how == "iter_kw":
        pts = list(orb.iter(start=S, stop=timedelta(microseconds=n * h_us - s_us)))    # stop as a duration from start
    elif how == "ephem":
        pts = list(orb.ephem(start=S, stop=E, step=timedelta(microseconds=h_us)))
    else:
        pts = list(orb.iter(start=S, stop=E))
    got = [np.array(o.copy(form="cartesian").base, float) for o in pts]
    if not got or abs((pts[0].date - S).total_seconds()) > 1e-6:
        raise Violation("late-start-date", f"{how} from {s_us / 1e6} s: first point dated {(pts[0].date - d0).total_seconds() if pts else None} s")
    # distance (in steps) from the start to the nearest discontinuity: impulse date / grid point that applies it, burn edge
    edges = []
    for m in case["mans"]:
        if m["kind"] == "imp":
            edges += [m["t"], -(-m["t"] // h_us) * h_us]
        else:
            edges += [m["start"], m["start"] + m["dur"]]
    near = min(abs(e - s_us) for e in edges) / h_us
    in_burn = any(m["kind"] == "cont" and m["start"] - h_us < s_us < m["start"] + m["dur"] + h_us for m in case["mans"])
    rn, vn = float(np.linalg.norm(ys[k][:3])), float(np.linalg.norm(ys[k][3:]))
    if on_grid:
        ref = [ys[j] for j in range(k, n + 1)]
        ptol, vtol = 1e-9 * rn, 1e-9 * vn
        m = min(len(ref), len(got))
        if how not in ("propagate", "propagate_td") and len(got) != len(ref):
            raise Violation("late-start-length", f"{how} from step {k}: {len(got)} points, {len(ref)} expected")
    else:
        if in_burn:
            return dict(nt=False, cls=["skipped:off-grid-start-inside-a-burn"], ratio=0.0)
        # between two grid points: the free arc from the grid point before (no impulse is dated in between by
        # construction of `near` below), to within the integrator's own error over one step
        if any(mm["kind"] == "imp" and k * h_us < mm["t"] <= (k + 1) * h_us for mm in case["mans"]):
            return dict(nt=False, cls=["skipped:impulse-dated-in-the-start-step"], ratio=0.0)
        lte = np.asarray(ig.rk4_step(ys[k], h, mu)) - tb.propagate_uv(ys[k], h, mu)
        ref = [tb.propagate_uv(ys[k], (s_us - k * h_us) / 1e6, mu)]
        # (+ 1e-7 of the state for the 8-point interpolation of a smooth arc, whose error does not scale like the
        # integrator's on eccentric orbits)
        ptol = 20 * float(np.linalg.norm(lte[:3])) + 1e-7 * rn
        vtol = 20 * float(np.linalg.norm(lte[3:])) + 1e-7 * vn
        m = 1
    worst = 0.0
    for j in range(m):
        dp = float(np.linalg.norm(got[j][:3] - ref[j][:3]))
        dv = float(np.linalg.norm(got[j][3:] - ref[j][3:]))
        worst = max(worst, dp / ptol, dv / vtol)
        if dp > ptol or dv > vtol:
            raise Violation("late-start-state",
                            f"{how} asked from {s_us / 1e6} s ({'on' if on_grid else 'off'} the grid of step {h} s), point {j}: "
                            f"{dp:.6g} m, {dv:.6g} m/s away from the run started at the orbit's date (allowed {ptol:.3g} m, "
                            f"{vtol:.3g} m/s); maneuvers: " + "; ".join(
                                (f"impulse at {mm['t'] / 1e6} s" if mm["kind"] == "imp" else
                                 f"burn [{mm['start'] / 1e6}, {(mm['start'] + mm['dur']) / 1e6}) s dated by its {mm['date_pos']}")
                                for mm in case["mans"]),
                            on_grid=on_grid, near=near, point=j)
    cls = el_classes(el) + [f"how:{how}", "start:on-grid" if on_grid else "start:off-grid"] + (["start-tie"] if case.get("tie") else [])
    for mm in case["mans"]:
        if mm["kind"] == "cont":
            rel = "before" if s_us <= mm["start"] else "after" if s_us >= mm["start"] + mm["dur"] else "inside"
            cls += [f"date_pos:{mm['date_pos']}", f"start-{rel}-burn"]
        else:
            cls.append("start-before-impulse" if s_us < mm["t"] else "start-after-impulse")
    return dict(nt=True, cls=cls, ratio=worst)


def _late_finding(facet, case, kind, msg, data):
    """off-grid start within 8 steps of a discontinuity: the start state is interpolated (Lagrange, 8 points) through
    the look-ahead steps, across the velocity jump / thrust edge"""
    return (facet == "late_start" and kind == "late-start-state" and data.get("on_grid") is False
            and data.get("point") == 0 and data.get("near", 99) <= 8.0)


# ------------------------------------------------------------------ continuous burns under the other methods


@st.composite
def cont_methods_case(draw):
    el = draw(go.elements(hyperbolic=False, emax_ell=0.8, rp_range=(1.03, 4.0)))
    h_us = draw(st.integers(30, 120)) * 10**6
    lead = draw(st.integers(2, 4))
    start = draw(instant(h_us, lead * h_us, (lead + 1) * h_us))
    dur = draw(st.integers(2, 8)) * h_us if draw(st.booleans()) else draw(go.uniform_int(2 * h_us, 8 * h_us))
    n = -(-(start + dur) // h_us) + 3
    return dict(el=el, h_us=h_us, n=n, start=start, dur=dur, t0=draw(epochs(n * h_us)), dv=draw(vec3(-2.0, 2.0)),
                tag=draw(st.sampled_from(TAGS)), mode=draw(st.sampled_from(["dv", "accel"])),
                method=draw(st.sampled_from(["euler", "rkf54", "dopri54"])),
                date_pos=draw(st.sampled_from(["start", "median", "stop"])))


def check_cont_methods(case):
    """euler / rkf54 / dopri54: steps that do not touch the burn are free arcs, steps inside it gain |accel| x their
    length along the stated axes, and the whole burn delivers its delta-v within |accel| x the longest step."""
    from beyond.dates import timedelta
    from beyond.env.solarsystem import get_body
    from beyond.orbits import Orbit
    from beyond.orbits.man import ContinuousMan
    from beyond.propagators.keplernum import KeplerNum

    mu = mu_earth()
    el = case["el"]
    c0 = cart(el, mu)
    d0 = mkdate(case["t0"])
    h_us, n, method = case["h_us"], case["n"], case["method"]
    start, stop = case["start"] / 1e6, (case["start"] + case["dur"]) / 1e6
    secs = case["dur"] / 1e6
    dvv = np.array(case["dv"], float)
    cap = dv_cap(c0, n * h_us / 1e6 * 1.1, mu)
    if float(np.linalg.norm(dvv)) > cap:
        dvv = dvv * cap / float(np.linalg.norm(dvv))
    acc = dvv / secs
    amag = float(np.linalg.norm(acc))
    # the same physical burn, dated by its start, its middle or its end
    dpos = case.get("date_pos", "start")
    dur_us = case["dur"] + (case["dur"] % 2 if dpos == "median" else 0)
    stop = (case["start"] + dur_us) / 1e6
    secs = dur_us / 1e6
    acc = dvv / secs
    amag = float(np.linalg.norm(acc))
    date = d0 + timedelta(microseconds=case["start"] + {"start": 0, "median": dur_us // 2, "stop": dur_us}[dpos])
    dur = timedelta(microseconds=dur_us)
    man = (ContinuousMan(date, dur, dv=list(dvv), frame=case["tag"], date_pos=dpos) if case["mode"] == "dv"
           else ContinuousMan(date, dur, accel=list(acc), frame=case["tag"], date_pos=dpos))
    orb = Orbit(c0, d0, "cartesian", "EME2000", KeplerNum(timedelta(microseconds=h_us), get_body("Earth"), method=method))
    orb.maneuvers = man
    kw = {} if method == "euler" else dict(real_steps=True)
    ts, ys = [], []
    for o in orb.iter(stop=d0 + timedelta(microseconds=n * h_us), **kw):
        y = np.array(o.base, float)
        if not np.all(np.isfinite(y)):
            raise Violation("propagation-nonfinite", f"point {len(ys)} of the {method} propagation is {y.tolist()}")
        ts.append((o.date - d0).total_seconds())
        ys.append(y)
    if len(ys) < 3 or ts[-1] < n * h_us / 1e6 - 1e-6:
        raise Violation("grid-length", f"{method}: {len(ys)} points, last at {ts[-1] if ts else None} s")
    frame = case["tag"].upper() if case["tag"] else None
    QUIET_V = 0.0 if method == "euler" else 1e-5
    worst = 0.0
    delivered = 0.0
    hmax = 0.0
    for j in range(len(ys) - 1):
        hj = ts[j + 1] - ts[j]
        free = free_step(ys[j], hj, mu, "euler") if method == "euler" else tb.propagate_uv(ys[j], hj, mu)
        res = ys[j + 1] - free
        dv = float(np.linalg.norm(res[3:]))
        floor = 1e-12 * float(np.linalg.norm(ys[j][3:])) + QUIET_V
        theta = theta_of(ys, j, hj, mu) + amag * hj / min(vperp(ys[j]), vperp(ys[j + 1]))
        if ts[j + 1] < start - 1e-5 or ts[j] > stop + 1e-5:
            worst = max(worst, dv / floor)
            if dv > floor:
                raise Violation("burn-outside-window", f"{method}: step [{ts[j]}, {ts[j + 1]}] s does not touch the burn "
                                f"[{start}, {stop}) s but gains {dv:.6g} m/s over the free arc", step=j)
            continue
        delivered += dv
        hmax = max(hmax, hj)
        if ts[j] >= start + 1e-5 and ts[j + 1] < stop - 1e-5:
            want = amag * hj
            tol = want * (3 * theta**2 + 1e-9) + floor
            worst = max(worst, abs(dv - want) / tol)
            if abs(dv - want) > tol:
                raise Violation("burn-full-step", f"{method}: step [{ts[j]}, {ts[j + 1]}] s lies inside the burn: velocity gained "
                                f"{dv!r} m/s, |accel| x step = {want!r} m/s", step=j)
            mid = tb.propagate_uv(ys[j], hj / 2, mu)
            wv = ig.to_inertial(acc, mid, frame) * hj
            d = float(np.linalg.norm(res[3:] - wv))
            if d > want * 1.5 * theta + floor:
                raise Violation("burn-direction", f"{method}: step [{ts[j]}, {ts[j + 1]}] s gains {res[3:].tolist()}, thrust along "
                                f"{case['tag']!r} axes gives {wv.tolist()}", step=j)
    total = amag * secs
    d = abs(delivered - total)
    tol = amag * hmax * 2 + QUIET_V * len(ys)
    if d > tol:
        raise Violation("burn-total", f"{method}: burn of {secs} s delivered {delivered!r} m/s, stated {total!r} m/s "
                        f"(allowance {tol:.3g})", delivered=delivered, stated=total)
    hs = np.diff(ts)
    cls = el_classes(el) + [method, f"tag:{case['tag']}", case["mode"], f"date_pos:{dpos}"]
    if method != "euler":
        cls.append("step-reduced" if float(np.min(hs[:-1])) < 0.99 * h_us / 1e6 else "step-as-requested")
    return dict(nt=True, cls=cls, ratio=worst, parts=dict(sharp=worst, quadrature=d / (amag * hmax)))


# ------------------------------------------------------------------ dkep


@st.composite
def increment(draw, lo, hi):
    k = draw(st.integers(0, 9))
    if k < 3:
        return 0.0
    return draw(st.sampled_from([-1.0, 1.0])) * 10 ** draw(fu(lo, hi))


@st.composite
def dkep_case(draw):
    hyp = draw(st.integers(0, 9)) < 2
    el = draw(go.elements(elliptic=not hyp, hyperbolic=hyp, emax_ell=0.9, emax_hyp=5.0, hmax=3.0))
    el["i"] = min(max(el["i"], 0.12), math.pi - 0.12)  # the node stays defined after di <= 0.05
    return dict(el=el, da=draw(increment(-3.0, 5.0)), di=draw(increment(-9.0, math.log10(0.05))),
                dO=draw(increment(-9.0, math.log10(0.05))), t=draw(go.uniform_int(0, 5 * 365 * 86400 * 10**6)),
                form=draw(st.sampled_from(["cartesian", "cartesian", "cartesian", "keplerian"])))


def check_dkep(case):
    from beyond.orbits import StateVector
    from beyond.orbits.man import KeplerianImpulsiveMan, dkep2aol, dkep2dv

    mu = mu_earth()
    el = dict(case["el"])
    da, di, dO = case["da"], case["di"], case["dO"]
    a, e, inc = el["a"], el["e"], el["i"]
    date = mkdate(case["t"])
    if di or dO:
        # the increments of inclination / node are to be made at the argument of latitude given by dkep2aol
        probe = StateVector(cart(el, mu), date, "cartesian", "EME2000")
        u = float(dkep2aol(probe, di, dO))
        u_ref = math.atan2(dO * math.sin(inc), di)
        if not math.isfinite(u) or abs(tb.angdiff(u, u_ref)) > 1e-9 / math.sin(inc):
            raise Violation("dkep2aol", f"dkep2aol(di={di!r}, dOmega={dO!r}) = {u!r}, atan2(dOmega sin i, di) = {u_ref!r}")
        nu = tb.angdiff(u_ref - el["argp"], 0.0)
        if e > 1:
            # keep to the branch that exists: |nu| < acos(-1/e)
            numax = math.acos(-1 / e) - 0.05
            if abs(nu) > numax:
                # move the perigee instead of the spacecraft
                el["argp"] = (u_ref - math.copysign(numax * 0.5, nu)) % TWO_PI
                nu = tb.angdiff(u_ref - el["argp"], 0.0)
        el["nu"] = nu
    c = cart(el, mu)
    form = case.get("form", "cartesian")
    sv = StateVector(c, date, "cartesian", "EME2000").copy(form=form)
    with np.errstate(all="ignore"):
        dv = np.asarray(dkep2dv(sv, da=da, di=di, dOmega=dO), float)
        man = KeplerianImpulsiveMan(date, da=da, di=di, dOmega=dO)
        dvi = np.asarray(man.dv(sv), float)
    small = (da != 0 and abs(da) <= 10) or (0 < math.hypot(di, dO) <= 1e-6) or (da == 0 and di == 0 and dO == 0)
    if dv.shape != (3,) or not np.all(np.isfinite(dv)):
        raise Violation("dkep-nonfinite", f"dkep2dv(da={da!r}, di={di!r}, dOmega={dO!r}) = {dv.tolist()}", small=small)
    if dvi.shape != (3,) or not np.all(np.isfinite(dvi)):
        raise Violation("dkep-nonfinite" if form == "cartesian" else "dkep-man-axes",
                        f"KeplerianImpulsiveMan(da={da!r}, di={di!r}, dOmega={dO!r}).dv = {dvi.tolist()} for a state held in form {form}",
                        small=small, form=form)
    want = ig.to_inertial(dv, c, "TNW")
    mag = float(np.linalg.norm(dv))
    vn = float(np.linalg.norm(c[3:]))
    kf = 1e-12 if form == "cartesian" else 1e-12 + 1e-10 / abs(1 - e) * (math.cosh(el["anom"]) ** 2 if e > 1 else 1) / math.sin(inc)
    if float(np.linalg.norm(dvi - want)) > kf * mag + 1e-16 * vn:
        raise Violation("dkep-man-axes", f"KeplerianImpulsiveMan.dv = {dvi.tolist()} for a state held in form {form}, "
                        f"TNW^T . dkep2dv = {want.tolist()}", form=form)
    # the continuous flavour spreads the same delta-v over its duration: accel = TNW^T . dkep2dv / duration
    from beyond.dates import timedelta as _td
    from beyond.orbits.man import KeplerianContinuousMan

    secs = 10 ** (1 + 3 * ((case["t"] % 1000) / 1000.0))      # 10 s .. 10^4 s, from the drawn date (no extra draw)
    with np.errstate(all="ignore"):
        kacc = np.asarray(KeplerianContinuousMan(date, _td(seconds=secs), da=da, di=di, dOmega=dO).accel(
            sv.copy(form="cartesian")), float)
    secs = _td(seconds=secs).total_seconds()
    if kacc.shape != (3,) or not np.all(np.isfinite(kacc)) or float(np.linalg.norm(kacc * secs - want)) > 10 * kf * mag + 1e-16 * vn:
        raise Violation("dkep-continuous", f"KeplerianContinuousMan(da={da!r}, di={di!r}, dOmega={dO!r}, {secs} s).accel x duration = "
                        f"{(kacc * secs).tolist()}, TNW^T . dkep2dv = {want.tolist()}")
    # realised increments
    c2 = np.array(c, float)
    c2[3:] += dvi
    e0 = tb.cart2elements(c, mu)
    e1 = tb.cart2elements(c2, mu)
    got_a = e1["a"] - e0["a"]
    got_i = e1["i"] - e0["i"]
    got_O = tb.angdiff(e1["raan"], e0["raan"])
    dang = math.hypot(di, dO * math.sin(inc))
    sa = abs(da / a) * max(1.0, e0["v"] ** 2 * abs(a) / mu)
    cosg = e0["h"] / (e0["r"] * e0["v"])
    # resolution of the velocity addition: eps v / dv relative on every increment
    res_rel = 4e-16 * vn / max(mag, 1e-300)
    REL = 0.02
    parts = {}
    ta = abs(da) * (REL + 10 * sa + res_rel) + 1e-13 * abs(a) * max(1.0, e0["v"] ** 2 * abs(a) / mu) + abs(a) * dang**2 * 1e-3
    # second order of a rotation by dang about an axis in the orbit plane: dang^2 / tan i on i, / (sin i tan i) on the node
    smin = math.sin(min(inc, math.pi - inc) - dang)  # the plane turns by dang: smallest sin i on the way
    second = 5 * dang**2 * (1 + 1 / smin) + 5 * sa * dang + 1e-13
    ti = abs(di) * (REL + res_rel) + second
    tO = abs(dO) * (REL + res_rel) + second / smin
    for nm, got, req, tol in (("a", got_a, da, ta), ("i", got_i, di, ti), ("raan", got_O, dO, tO)):
        d = abs(got - req)
        parts[nm] = d / tol
        if d > tol:
            raise Violation(f"dkep-realised-{nm}",
                            f"requested da={da!r} m, di={di!r}, dOmega={dO!r} rad on e={e:.4g}, i={inc:.4g}, flight-path angle "
                            f"{math.degrees(math.acos(min(1.0, cosg))):.2f} deg: realised d{nm} = {got!r} (requested {req!r}, "
                            f"allowance {tol:.3g})", cosg=cosg, got=got, req=req, second=tol - abs(req) * REL)
    cls = el_classes(el) + ["da" if da else "", "di" if di else "", "dO" if dO else ""]
    cls = [x for x in cls if x]
    if small:
        cls.append("tiny-or-zero")
    if cosg < 0.98:
        cls.append("fpa>11deg")
    cls.append(f"form:{form}")
    return dict(nt=True, cls=cls, ratio=max(parts.values()), parts=parts)


FACETS = [
    Facet("triads", lambda s, t: triads_case(), check_triads, setup=setup,
          rule="every case: both triads, orthonormality, to_local 3x3 and 6x6",
          quick=(2, 800), thorough=(4, 8000)),
    Facet("projection", lambda s, t: projection_case(), check_projection, setup=setup,
          rule="every case", quick=(2, 800), thorough=(4, 8000)),
    Facet("attached_frame", lambda s, t: attached_case(), check_attached, setup=setup,
          rule="every case (one frame registration, 3-6 conversions each)", quick=(12, 25), thorough=(48, 30)),
    Facet("impulse_timing", lambda s, t: impulse_case(), check_impulse, setup=setup,
          rule="a maneuver date off the integration grid, or a hyperbolic state",
          quick=(8, 60), thorough=(16, 600)),
    Facet("impulse_adaptive", lambda s, t: adaptive_case(), check_adaptive, setup=setup,
          rule="the error control actually reduced the requested step (class step-reduced)",
          quick=(8, 40), thorough=(16, 400)),
    Facet("late_start", lambda s, t: late_case(), check_late, setup=setup,
          rule="every case that is not skipped", quick=(8, 40), thorough=(16, 400)),
    Facet("continuous_methods", lambda s, t: cont_methods_case(), check_cont_methods, setup=setup,
          rule="every case (euler, rkf54, dopri54)", quick=(4, 40), thorough=(8, 400)),
    Facet("continuous_delivery", lambda s, t: continuous_case(), check_continuous, setup=setup,
          rule="a burn edge off the integration grid, or a hyperbolic state",
          quick=(16, 20), thorough=(32, 200)),
    Facet("overlapping_burns", lambda s, t: overlap_case(), check_overlap, setup=setup,
          rule="at least one whole integration step lies inside two or more burns",
          quick=(8, 60), thorough=(16, 600)),
    Facet("dkep", lambda s, t: dkep_case(), check_dkep, setup=setup,
          rule="every case; classes tiny-or-zero (|da| <= 10 m, plane change <= 1e-6 rad, all zero) and hyperbolic reported",
          quick=(4, 600), thorough=(8, 6000)),
]


def _fpa_finding(facet, case, kind, msg, data):
    """realised plane change = requested / cos(flight-path angle), everything else as required"""
    if facet != "dkep" or kind not in ("dkep-realised-i", "dkep-realised-raan"):
        return False
    try:
        got, req, cosg, second = data["got"], data["req"], data["cosg"], data["second"]
    except KeyError:
        return False
    return cosg < 0.981 and abs(got * cosg - req) <= 0.02 * abs(req) + second


# Only consulted for keys listed in KNOWN_FINDINGS.txt (scratch/fixes/C17-2.patch makes it unnecessary).
FINDINGS = {"dkep-flight-path-angle": _fpa_finding, "offgrid-start-interpolated-across-maneuver": _late_finding}
